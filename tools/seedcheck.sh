#!/bin/bash
# tools/seedcheck.sh <check-id> <seed-name>...   run one check against scratch copies with the seeds applied (3 in parallel)
cd "$(dirname "$0")/.."
CHK=$1; shift
one() {
  n=$1; T=$(mktemp -d /tmp/sr.XXXX); mkdir -p $T/repo; cp -r /repo/src $T/repo/src
  (cd $T/repo && patch -p1 -s < /verif/seeded/$n/patch.diff) || { echo "$n patch failed"; rm -rf $T; return; }
  VERIF_REPO=$T/repo PYVC_OUT=$T/out PYVC_JOBS=5 timeout 1500 bin/check $CHK > $T/log 2>&1; code=$?
  echo "$n -> $CHK exit=$code viol=$(grep -c ^VIOLATION $T/log) :: $(grep -m1 -E '^(VIOLATION|UNDEC|ENGINE)' $T/log | sed 's/.*obligation=//' | cut -c1-150)"
  rm -rf $T
}
for n in "$@"; do one $n & while [ $(jobs -r | wc -l) -ge 3 ]; do sleep 2; done; done; wait
