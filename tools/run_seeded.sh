#!/bin/bash
# tools/run_seeded.sh [name ...]  -- run the property check of each seeded change against a scratch
# copy of /repo/src with the change applied (never against /repo itself); prints one line per seed.
cd "$(dirname "$0")/.."
NAMES="$@"
[ -z "$NAMES" ] && NAMES=$(ls seeded)
run_one() {
  n=$1
  prop=$(python3 -c "import json;print(json.load(open('seeded/$n/meta.json'))['property'])")
  [ -f properties/$prop.py ] || { echo "$n: property $prop has no check yet"; return; }
  T=$(mktemp -d /tmp/seedrun.XXXXXX)
  mkdir -p $T/repo && cp -r /repo/src $T/repo/src
  (cd $T/repo && patch -p1 -s < "$OLDPWD/seeded/$n/patch.diff") || { echo "$n: patch failed"; rm -rf $T; return; }
  VERIF_REPO=$T/repo PYVC_OUT=$T/out PYVC_JOBS=${PYVC_JOBS:-6} bin/check $prop --tier quick > $T/log 2>&1
  code=$?
  viol=$(grep -c '^VIOLATION' $T/log)
  first=$(grep -m1 -E '^(VIOLATION|UNDECIDED|ENGINE-ERROR)' $T/log | cut -c1-220)
  echo "$n: exit=$code violations=$viol :: $first"
  rm -rf $T
}
for n in $NAMES; do run_one $n & 
  while [ $(jobs -r | wc -l) -ge 3 ]; do sleep 1; done
done
wait
