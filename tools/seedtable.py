"""Markdown table of seeded/RESULTS.txt (seed, site, first failing obligation) for DESIGN.md section 0.3."""
import json, os, re
root = os.path.join(os.path.dirname(os.path.abspath(__file__)), '..', 'seeded')
rows = []
for line in open(os.path.join(root, 'RESULTS.txt')):
    m = re.match(r'(\S+) -> (\S+) exit=(\d+) viol=(\d+) :: (.*)', line.strip())
    if not m:
        continue
    seed, prop, code, viol, first = m.groups()
    meta = json.load(open(os.path.join(root, seed, 'meta.json')))
    note = meta.get('needs_to_manifest', '').strip().splitlines()[0] if meta.get('needs_to_manifest') else ''
    note = re.sub(r'^(Changed|Change|CHANGE|change)\s*:?\s*', '', note)
    note = (note[:110] + '…') if len(note) > 110 else note
    first = first.replace(' no-failing-input-found', '').replace('xdoctest.', '')
    if not first.startswith('bounded:'):
        first = re.sub(r'^[a-z_.]+:', '', first)
    if code == '1':
        how = '`%s`' % first[:120]
    elif code == '0':
        how = '**missed**'
    else:
        how = 'undecided (exit %s): %s' % (code, first[:100])
    rows.append((seed, note.replace('|', '/'), how))
rows.sort(key=lambda r: (int(r[0][1:3]), r[0]))
print('| seed | change | first failing obligation of the check of its own property |')
print('|---|---|---|')
for r in rows:
    print('| %s | %s | %s |' % r)
