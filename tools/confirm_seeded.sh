#!/bin/bash
# tools/confirm_seeded.sh <seed-name> <property> <dir with patch.diff demo.py notes.txt>
# Confirms in a fresh scratch worktree of /repo that the change (a) applies, (b) passes the
# baseline suite, (c) makes the demo fail while the clean tree passes it; then stores it
# under /verif/seeded/<seed-name>/ with meta.json.  The worktree is removed afterwards.
set -u
NAME=$1; PROP=$2; SRC=$3
WT=$(mktemp -d /tmp/seedwt.XXXXXX)
rmdir "$WT"
git -C /repo worktree add -q --detach "$WT" HEAD || exit 2
cleanup() { git -C /repo worktree remove --force "$WT" >/dev/null 2>&1; rm -rf "$WT"; }
trap cleanup EXIT
cd "$WT"
/venv/bin/python "$SRC/demo.py" "$WT" >/dev/null 2>&1; CLEAN=$?
git apply "$SRC/patch.diff" || { echo "$NAME: patch does not apply"; exit 2; }
/venv/bin/python "$SRC/demo.py" "$WT" > "$WT/.demo_out" 2>&1; MUT=$?
PYTHONPATH="$WT/src" /venv/bin/python -m pytest -q -p no:cacheprovider --timeout=900 \
   --deselect tests/test_entry_point.py::test_xdoc_console_script_exec \
   --deselect tests/test_entry_point.py::test_xdoc_console_script_location > "$WT/.suite_out" 2>&1
SUITE=$?
TAIL=$(tail -1 "$WT/.suite_out")
echo "$NAME: demo clean=$CLEAN mutated=$MUT suite_exit=$SUITE ($TAIL)"
if [ $CLEAN -eq 0 ] && [ $MUT -ne 0 ] && [ $SUITE -eq 0 ]; then
  D=/verif/seeded/$NAME
  mkdir -p "$D"
  cp "$SRC/patch.diff" "$SRC/demo.py" "$D/"
  [ -f "$SRC/notes.txt" ] && cp "$SRC/notes.txt" "$D/"
  python3 - "$NAME" "$PROP" "$D" "$TAIL" <<'PY'
import json, sys, os
name, prop, d, tail = sys.argv[1:5]
notes = open(os.path.join(d, 'notes.txt')).read() if os.path.exists(os.path.join(d, 'notes.txt')) else ''
meta = {'name': name, 'property': prop, 'origin': 'independent sub-agent given only the property text',
        'needs_to_manifest': notes.strip(),
        'confirmed': {'base': os.popen('git -C /repo rev-parse --short HEAD').read().strip(),
                      'demo_on_clean_tree_exit': 0, 'demo_with_patch_exit': 'non-zero',
                      'baseline_suite_with_patch': tail.strip(),
                      'how': 'tools/confirm_seeded.sh in a fresh scratch worktree (removed afterwards)'}}
json.dump(meta, open(os.path.join(d, 'meta.json'), 'w'), indent=1)
PY
  echo "$NAME: stored"
else
  echo "$NAME: NOT stored"
fi
