import sys, importlib, traceback, os
sys.path.insert(0, os.path.dirname(os.path.dirname(os.path.abspath(__file__))))
sys.argv=['x']
from pyvc import check
check.setup_paths()
from pyvc import contracts as C
from pyvc.executor import Exec
pid, q = sys.argv[0], None
import os
pid=os.environ['P']; q=os.environ['Q']
prop=check.load_property(pid)
for m in prop.get('contract_modules', []): importlib.import_module('contracts.'+m)
eng=Exec()
try:
    obs=eng.verify_function(C.CONTRACTS[q])
    print(len(obs),'obligations')
except Exception:
    traceback.print_exc()
ob_pat = os.environ.get('OB')
if ob_pat:
    from pyvc import solve
    n = 0
    for ob in eng.obligations:
        if ob_pat in ob.id and ob.expect == 'unsat' and '[folded]' not in ob.note:
            n += 1
            if n != int(os.environ.get('NTH', '1')):
                continue
            txt = ob.texts(eng.ctx)
            for k, t in enumerate(txt):
                open('/tmp/ob_%d.smt2' % k, 'w').write(t)
            print(ob.id, 'variants', len(txt), 'bytes', [len(t) for t in txt])
            r = solve.solve_one({'id': ob.id, 'texts': txt, 'budget_s': float(os.environ.get('BUDGET', '10')), 'expect': 'unsat'})
            print(r['verdict'], r['attempts'])
            break
if os.environ.get('LIST'):
    for ob in eng.obligations:
        print(ob.id, ob.expect, ob.note[:60], '|', ob.goal.s[:200])
from pyvc import solve as _s
print('quick_sat stats', {k: (v[0], round(v[1], 1)) for k, v in _s.QS_STATS.items()})
