#!/bin/bash
# tools/runall_thorough.sh [ids...]  run the thorough check of every claimed property; print exit codes and alarms
cd "$(dirname "$0")/.."
IDS="$@"
[ -z "$IDS" ] && IDS=$(python3 -c "import json;print(' '.join(c['property_id'] for c in json.load(open('MANIFEST.json'))['checks']))")
for p in $IDS; do
  s=$(date +%s)
  out=$(timeout 5400 bin/check $p --tier thorough 2>&1); code=$?
  echo "$p exit=$code $(( $(date +%s) - s ))s :: $(echo "$out" | tail -1)"
  echo "$out" | grep -E '^(VIOLATION|UNDECIDED|ENGINE-ERROR|Traceback)' | head -5
done
