import json, glob, collections, os, sys, time
pid = sys.argv[1]
c = collections.Counter(); ex = {}
for f in glob.glob('/verif/replays/%s/*.json' % pid):
    if time.time() - os.path.getmtime(f) > float(sys.argv[2]) if len(sys.argv) > 2 else 600: continue
    d = json.load(open(f))
    key = (d['obligation'].split('::')[1].split('@')[0], d['note'][:70], d['solver']['verdict'])
    c[key] += 1; ex[key] = d['obligation']
for k, v in c.most_common(): print(v, k, ex[k].split('::')[1])
