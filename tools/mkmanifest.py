#!/usr/bin/env python3
"""Regenerate MANIFEST.json from properties/*.py (claimed) and tools/not_applicable.json."""
import json, os, sys, importlib
ROOT = os.path.dirname(os.path.dirname(os.path.abspath(__file__)))
sys.path.insert(0, ROOT)
props = [json.loads(l) for l in open(os.path.join(ROOT, 'properties.jsonl'))]
na = json.load(open(os.path.join(ROOT, 'tools', 'not_applicable.json')))
checks = []
claimed = []
for p in props:
    pid = p['id']
    f = os.path.join(ROOT, 'properties', pid + '.py')
    if not os.path.exists(f) or pid in na:
        continue
    P = importlib.import_module('properties.' + pid).PROPERTY
    claimed.append(pid)
    checks.append({
        'property_id': pid,
        'quick_cmd': 'bin/check %s --tier quick' % pid,
        'thorough_cmd': 'bin/check %s --tier thorough' % pid,
        'evidence_file': 'evidence/%s.json' % pid,
        'replay_cmd_template': 'bin/check --replay {path}',
        'engine': 'pyvc',
        'level_claimed': {'category': 'proof',
                          'text': P.get('level_text', 'Contracts on the real functions; every obligation generated from the current /repo source is discharged by z3/cvc5 for all inputs (unbounded), modulo the trusted builtin models listed in the evidence. ' + P.get('explanation', '')),
                          'design_ref': 'DESIGN.md section 0.1 (what is under contract now) and section 6, ' + pid},
        'level_note': P.get('level_note', 'Trusted: the builtin/stdlib models used (listed per run in evidence trusted_base), Python semantics as encoded by pyvc; clauses marked B are bounded stand-ins and T/N-A clauses are not decided (see evidence.coverage.clauses).'),
        'technique': P.get('technique', 'contract-based deductive verification: sidecar contracts + loop invariants on the real function ASTs, VCs by symbolic execution, discharged by z3/cvc5')
                     + (('; in addition bounded stand-ins on the real code, labelled bounded and never counted as proved: '
                         + ', '.join(h.rsplit('.', 1)[0].replace('bounded.', 'bounded/') + '.py' for h in P.get('extra', []))) if P.get('extra') else ''),
    })
m = {"version": 1, "setup_cmd": "bin/setup",
     "hooks": {"guard": "XDOCTEST_VERIF",
               "enable": "not used: contracts are sidecar files under /verif and constants are read by importing the real modules; no instrumentation in /repo",
               "baseline_off_cmd": "cd /repo && /venv/bin/python -m pytest -ra -q -p no:cacheprovider --timeout=900 --continue-on-collection-errors",
               "source_commits": [], "add_only": True},
     "engines": [{"name": "pyvc", "path": "pyvc/", "serves_properties": claimed,
                  "kind_free_text": "home-built VC generator: symbolic execution of the real function ASTs re-read from /repo on every run against sidecar contracts; obligations discharged by z3 5.1 (API), cvc5 1.0.3 and z3 4.8 (CLI)"}],
     "checks": checks,
     "notes": "fix: commits in /repo (genuine defects found by the obligations, see known_findings.json and DESIGN.md section 7): " + os.popen("git -C /repo log --format=%h --grep='^fix:' | tr '\\n' ' '").read().strip(),
     "not_applicable": [{"property_id": p['id'], "reason": na.get(p['id'], 'check not built yet (engine under construction); see DESIGN.md section 6')} for p in props if p['id'] not in claimed]}
json.dump(m, open(os.path.join(ROOT, 'MANIFEST.json'), 'w'), indent=1)
print('claimed:', claimed)
