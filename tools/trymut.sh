#!/bin/bash
# tools/trymut.sh <property> <file under src/> <python regex> <replacement>   -- ad-hoc mutation on a scratch copy
cd "$(dirname "$0")/.."
PROP=$1; FILE=$2; PAT=$3; REP=$4
T=$(mktemp -d /tmp/trymut.XXXXXX)
mkdir -p $T/repo && cp -r /repo/src $T/repo/src
python3 - "$T/repo/src/$FILE" "$PAT" "$REP" <<'PY' || { rm -rf $T; exit 9; }
import re, sys
p, pat, rep = sys.argv[1:4]
s = open(p).read()
s2, n = re.subn(pat, rep, s, count=1, flags=re.M)
if n != 1:
    print('pattern not found'); sys.exit(1)
open(p, 'w').write(s2)
PY
VERIF_REPO=$T/repo PYVC_OUT=$T/out bin/check $PROP --tier quick > $T/log 2>&1
code=$?
echo "exit=$code violations=$(grep -c '^VIOLATION' $T/log)"
grep -E '^(VIOLATION|UNDECIDED|ENGINE-ERROR)' $T/log | cut -c1-260 | head -${SHOW:-4}
tail -1 $T/log
rm -rf $T
