#!/bin/bash
# tools/sweep_seeds.sh [property...]  run every seeded change against the check of its own property (scratch copies, 3 at a
# time) and write seeded/RESULTS.txt: one line per seed with the exit code and the first alarm line.
cd "$(dirname "$0")/.."
PROPS="$@"
[ -z "$PROPS" ] && PROPS=$(ls seeded | grep -E '^C[0-9]+-m[0-9]+$' | sed 's/-.*//' | sort -u)
OUT=seeded/RESULTS.txt
touch $OUT
for p in $PROPS; do
  seeds=$(ls seeded | grep -E "^$p-m[0-9]+$")
  grep -v "^$p-" $OUT > $OUT.tmp; mv $OUT.tmp $OUT
  if [ -f properties/$p.py ]; then
    tools/seedcheck.sh $p $seeds 2>/dev/null | grep -- '->' >> $OUT
  else
    for s in $seeds; do echo "$s -> $p not claimed" >> $OUT; done
  fi
done
sort -o $OUT $OUT
cat $OUT
