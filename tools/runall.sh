#!/bin/bash
# tools/runall.sh [ids...]  run the quick check of every claimed property (or the given ones); print exit codes and alarms
cd "$(dirname "$0")/.."
IDS="$@"
[ -z "$IDS" ] && IDS=$(python3 -c "import json;print(' '.join(c['property_id'] for c in json.load(open('MANIFEST.json'))['checks']))")
for p in $IDS; do
  out=$(timeout 3000 bin/check $p --tier quick 2>&1); code=$?
  echo "$p exit=$code :: $(echo "$out" | tail -1)"
  echo "$out" | grep -E '^(VIOLATION|UNDECIDED|ENGINE-ERROR|KNOWN-FINDING|Traceback)' | head -5
done
