"""Contracts for xdoctest/runner.py and xdoctest/__main__.py (C10, C09.continue, C15)."""
from pyvc.contracts import contract, record, dict_record, LoopSpec
import contracts.doctest_example  # noqa: DocTest record, run contract

_FLAGS_P = "[s['passed'] for s in summaries]"
_FLAGS_F = "[s['failed'] for s in summaries]"
_FLAGS_S = "[s['skipped'] for s in summaries]"

dict_record("RunReport", n_total="int", n_passed="int", n_failed="int", n_skipped="int", n_warned="int",
            failed="idxlist[DocTest]", warned="idxlist[DocTest]", action="str")

contract("xdoctest.utils.util_str:color_text",
         params={"text": "str", "color": "Optional[str]"}, returns="str", trusted=True, log=False,
         note="T: presentation only (ANSI colouring)")

_TALLY = ("S.count_true(" + _FLAGS_P + ") + S.count_true(" + _FLAGS_F + ") + S.count_true(" + _FLAGS_S + ") == len(summaries)")

contract("xdoctest.runner:_run_examples",
         params={"enabled_examples": "reclist[DocTest]", "verbose": "int", "config": "Optional[Val]", "_log": "Logger"},
         returns="RunReport",
         ensures=[("action", "result['action'] == 'run_examples'"),
                  ("total", "result['n_total'] == len(enabled_examples)"),
                  ("failed-list-size", "len(result['failed']) == result['n_failed']"),
                  ("at-most-total", "result['n_passed'] + result['n_failed'] + result['n_skipped'] <= result['n_total']")],
         loops={0: LoopSpec(
             header="enabled_examples",
             types={"summaries": "recseq[RunSummary]", "failed": "idxlist[enabled_examples]",
                    "warned": "idxlist[enabled_examples]"},
             invariants=[
                 ("one-summary-per-example", "len(summaries) == _i0"),
                 ("tally", _TALLY),
                 ("failed-count", "len(failed) == S.count_true(" + _FLAGS_F + ")"),
                 ("failed-are-the-failed", "failed == S.true_indices(" + _FLAGS_F + ")"),
             ],
             body_post=[("run-once", "ev_count('DocTest.run') == 1 and ev_arg('DocTest.run', 0, 'self') is example "
                                     "and ev_arg('DocTest.run', 0, 'on_error') == 'return'")])},
         raises={"BaseException*?": "not isinstance(exc, Exception)"},
         props=["C10", "C09"],
         opts={"native": False,
               "exit_facts": [("adds-up", "n_passed + n_failed + n_skipped == len(summaries)"),
                              ("failed-exact", "failed == S.true_indices(" + _FLAGS_F + ")"),
                              ("complete-unless-interrupted", "implies(ev_raised('DocTest.run') == 0, len(summaries) == n_total)")]},
         sentinel=("counts-everything-as-passed", "result['n_passed'] == len(enabled_examples)"))


# ------------------------------------------------------------------------ C10.gather: region of doctest_module
contract("xdoctest.runner:undefined_names", params={"sourcecode": "str"}, returns="list[str]", trusted=True, log=False,
         raises={"Exception*?": None}, note="T: pyflakes; may be missing")

_HWP = "(part.want_lines is not None and len(part.want_lines) > 0 and len('\\n'.join(part.want_lines)) > 0)"
contract("xdoctest.runner:_convert_to_test_module",
         params={"enabled_examples": "reclist[DocTest]"}, returns="str",
         ensures=[],
         loops={0: LoopSpec(header="enabled_examples", types={"module_lines": "list[str]"}, modifies=[],
                            invariants=[("one-function-per-example", "len(module_lines) == _i0")]),
                1: LoopSpec(header="example._parts", types={"body_lines": "list[str]"}, modifies=[],
                            invariants=[("one-block-per-part", "len(body_lines) == _i1")],
                            body_post=[
                                ("only-star-imports-removed", "part.exec_lines == S.no_star_imports(before(part.exec_lines))"),
                                ("formatted-bare", "ev_count('DoctestPart.format_part') == 1 and ev_arg('DoctestPart.format_part', 0, 'self') is part and "
                                                   "not ev_arg('DoctestPart.format_part', 0, 'prefix') and not ev_arg('DoctestPart.format_part', 0, 'want')"),
                                ("source-then-want-as-comment",
                                 "body_lines[len(body_lines) - 1] == (ev_arg('DoctestPart.format_part', 0, 'result') + "
                                 "'\\n# doctest want:\\n' + '# ' + '\\n'.join(part.want_lines).replace('\\n', '\\n# ') "
                                 "if " + _HWP + " else ev_arg('DoctestPart.format_part', 0, 'result'))")]),
                2: LoopSpec(header="part.exec_lines", types={"new_exec_lines": "list[str]"}, modifies=[],
                            invariants=[("kept-so-far", "new_exec_lines == S.no_star_imports(part.exec_lines[:_i2])")])},
         props=["C19"],
         opts={"native": False,
               "exit_facts": [("one-function-per-example", "len(module_lines) == len(enabled_examples)")]},
         note="one def block per enabled example; per part: the source lines minus star imports, then the want as comments",
         sentinel=("drops-everything", "result == ''"))
contract("xdoctest.runner:_print_summary_report",
         params={"run_summary": "Val", "parse_warnlist": "Val", "n_seconds": "Val", "enabled_examples": "Val",
                 "durations": "Val", "config": "Val", "_log": "Val"},
         returns="None", trusted=True,
         note="T here: prints; re-renders the failures (C09.render); does not change run_summary")
contract("xdoctest.runner:_auto_disable_failing_tests_hook",
         params={"context": "Val"}, returns="None", trusted=True,
         note="T: hidden experimental hook (edits source files); outside every property")

_G = ("((gather_all and not S.force_disabled(example.docsrc, False)) or "
      "(not gather_all and (command == example.callname or command == example.callname + ':' + str(example.num))))")
_GALL = ("(((command == 'all' or command == 'dump') and not S.force_disabled(example.docsrc, False)) or "
         "(not (command == 'all' or command == 'dump') and (command == example.callname or command == example.callname + ':' + str(example.num))))")

contract("xdoctest.runner:doctest_module#gather",
         params={"command": "str", "examples": "reclist[DocTest]", "verbose": "int", "config": "Optional[Val]",
                 "_log": "Logger", "tic": "Val", "parse_warnlist": "Val", "durations": "Val",
                 "parsable_identifier": "Val"},
         globals={"sys.argv": "list[str]"},
         returns="RunReport",
         requires=[("native-mode", "all(example.mode == 'native' for example in examples)")],
         ensures=[("list-runs-nothing", "implies(command == 'list', ev_count('_run_examples') == 0 and result['action'] == 'list' "
                                        "and 'n_failed' not in result)"),
                  ("dump-runs-nothing", "implies(command == 'dump', ev_count('_run_examples') == 0 and result['action'] == 'dump' "
                                        "and 'n_failed' not in result)"),
                  ("runs-the-gathered-once", "implies(command != 'list' and command != 'dump', ev_count('_run_examples') == 1 "
                                             "and result is ev_arg('_run_examples', 0, 'result'))"),
                  ],
         raises={"BaseException*?": "not isinstance(exc, Exception)"},
         loops={1: LoopSpec(
                    header="examples",
                    types={"enabled_examples": "idxlist[examples]"},
                    invariants=[("gathered-so-far", "enabled_examples == S.true_indices([" + _G + " for example in examples[:_i1]])")]),
                3: LoopSpec(header="enabled_examples", invariants=[], modifies=[])},
         props=["C10"],
         opts={"native": False,
               "exit_facts": [
                   ("gather-all-means-all-or-dump", "gather_all == (command == 'all' or command == 'dump')"),
                   ("gathered-exactly", "implies(command != 'list' and command != 'dump', ev_count('_run_examples') == 1 and "
                                        "ev_arg('_run_examples', 0, 'enabled_examples') == "
                                        "S.true_indices([" + _G + " for example in examples]))")],
               "region": {"from": "gather_all = ",
                          "drop": ["tic = time.time()",
                                   "with warnings.catch_warnings(record=True) as parse_warnlist:",
                                   "if len(enabled_examples) == 0:"]}},
         note="dropped: everything before `gather_all =` (argument handling); the parse step (examples is then an arbitrary "
              "list of DocTest objects); the zero-argument-function fallback that only runs when nothing was gathered",
         sentinel=("run-returns-something-else", "implies(command != 'list' and command != 'dump', result['action'] == 'list')"))


# interface of doctest_module as __main__.main sees it (assumed here; its run/list/dump switch is the region above)
contract("xdoctest.runner:doctest_module",
         params={"module_identifier": "Val", "command": "Val", "argv": "Val", "exclude": "Val", "style": "Val",
                 "verbose": "Val", "config": "Val", "durations": "Val", "analysis": "Val"},
         returns="RunReport", trusted=True,
         ensures=[("no-tally-for-list-dump", "implies(result['action'] != 'run_examples', result['n_failed'] == 0)")],
         raises={"BaseException*?": None},
         note="T: the summary of list/dump has no n_failed key; it is represented with n_failed == 0, which is what "
              "main's run_summary.get('n_failed', 0) reads")

contract("xdoctest.__main__:main#tail",
         params={"modname": "Val", "style": "Val", "command": "Val", "config": "Val", "durations": "Val", "analysis": "Val"},
         returns="int",
         ensures=[("exit-status", "ev_count('doctest_module') == 1 and "
                                  "(result == 1) == (ev_arg('doctest_module', 0, 'result')['n_failed'] > 0)"),
                  ("zero-or-one", "result == 0 or result == 1")],
         raises={"BaseException*?": None},
         props=["C10", "C15"],
         opts={"native": False, "region": {"from": "run_summary = xdoctest.doctest_module("}},
         note="dropped: command-line parsing before the call of doctest_module",
         sentinel=("always-zero", "result == 0"))
