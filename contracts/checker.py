"""Contracts for xdoctest/checker.py."""
import re
from pyvc.contracts import contract, lemma, LoopSpec
from pyvc import models

# re.split pattern built by _ellipsis_match from ELLIPSIS_MARKER -> S.pieces
models.REGEX_SPLIT[(r'\s*\.\.\.\s*', int(re.MULTILINE))] = 'pieces'

lemma("placed_mono",
      forall={"got": "str", "ws": "list[str]", "i": "int", "hi": "int", "s": "int", "s2": "int", "e": "int"},
      requires=["s2 <= s", "0 <= s2", "S.placed(got, ws, i, hi, s, e)"],
      ensures=["S.placed(got, ws, i, hi, s2, e)"],
      patterns=[["S.placed(got, ws, i, hi, s, e)", "S.placed(got, ws, i, hi, s2, e)"]],
      props=["C06"],
      note="moving the left bound of the search window to the left keeps a placement (same witness)")

contract("xdoctest.checker:_ellipsis_match",
         params={"got": "str", "want": "str"}, returns="bool",
         ensures=[("iff", "result == S.ellipsis_match(got, want)")],
         loops={0: LoopSpec(
             header="ws",
             # ws0: all pieces; j: index in ws0 of the piece the loop is at; k: the
             # first *middle* piece not placed yet (pieces 0 and n-1 are the anchored ends)
             ghost={"ws0": "S.pieces(want)",
                    "hi": "len(S.pieces(want)) - 1",
                    "j": "_i0 + (1 if len(S.pieces(want)[0]) > 0 else 0)",
                    "k": "min(max(1, _i0 + (1 if len(S.pieces(want)[0]) > 0 else 0)), len(S.pieces(want)) - 1)"},
             body_facts=[("elem", "w == ws0[j]"),
                         ("edge", "(1 <= j and j < hi) or len(w) == 0")],
             invariants=[
                 ("range", "0 <= startpos and startpos <= endpos and endpos <= len(got)"),
                 ("spec", "S.ellipsis_match(got, want) == S.placed(got, ws0, k, hi, startpos, endpos)"),
             ])},
         hints=["lemma placed_mono"],
         props=["C06"], gen="ellipsis_pairs",
         sentinel=("iff-off-by-one", "result == S.ellipsis_match(got + 'x', want)"))
