"""Contracts for xdoctest/checker.py."""
import re
from pyvc.contracts import contract, lemma, LoopSpec
from pyvc import models

# re.split pattern built by _ellipsis_match from ELLIPSIS_MARKER -> S.pieces
models.REGEX_SPLIT[(r'\s*\.\.\.\s*', int(re.MULTILINE))] = 'pieces'

lemma("placed_mono",
      forall={"got": "str", "ws": "list[str]", "i": "int", "hi": "int", "s": "int", "s2": "int", "e": "int"},
      requires=["s2 <= s", "0 <= s2", "S.placed(got, ws, i, hi, s, e)"],
      ensures=["S.placed(got, ws, i, hi, s2, e)"],
      patterns=[["S.placed(got, ws, i, hi, s, e)", "S.placed(got, ws, i, hi, s2, e)"]],
      props=["C06"],
      note="moving the left bound of the search window to the left keeps a placement (same witness)")

contract("xdoctest.checker:_ellipsis_match",
         params={"got": "str", "want": "str"}, returns="bool",
         ensures=[("iff", "result == S.ellipsis_match(got, want)")],
         loops={0: LoopSpec(
             header="ws",
             # ws0: all pieces; j: index in ws0 of the piece the loop is at; k: the
             # first *middle* piece not placed yet (pieces 0 and n-1 are the anchored ends)
             ghost={"ws0": "S.pieces(want)",
                    "hi": "len(S.pieces(want)) - 1",
                    "j": "_i0 + (1 if len(S.pieces(want)[0]) > 0 else 0)",
                    "k": "min(max(1, _i0 + (1 if len(S.pieces(want)[0]) > 0 else 0)), len(S.pieces(want)) - 1)"},
             body_facts=[("elem", "w == ws0[j]"),
                         ("edge", "(1 <= j and j < hi) or len(w) == 0")],
             invariants=[
                 ("range", "0 <= startpos and startpos <= endpos and endpos <= len(got)"),
                 ("spec", "S.ellipsis_match(got, want) == S.placed(got, ws0, k, hi, startpos, endpos)"),
             ])},
         hints=["lemma placed_mono"],
         props=["C06"], gen="ellipsis_pairs",
         sentinel=("iff-off-by-one", "result == S.ellipsis_match(got + 'x', want)"))


# ------------------------------------------------------------------------ C03
contract("xdoctest.checker:_strip_exception_details",
         params={"msg": "str"}, returns="str",
         ensures=[("name", "result == S.exc_name(msg)"),
                  ("first-line", "'\\n' not in result and ':' not in result")],
         props=["C03"], gen="exc_messages",
         sentinel=("keeps-module-path", "result == S.substr(msg, 0, S.name_end(msg))"))

contract("xdoctest.checker:extract_exc_want",
         params={"want": "str"}, returns="Optional[str]", trusted=True,
         ensures=[("none", "(result is None) == S.exc_want_none(want)"),
                  ("some", "implies(result is not None, result == S.exc_want(want))")],
         props=["C03"],
         note="T: _EXCEPTION_RE (lazy quantifier, DOTALL, named groups) is outside the regex fragment; "
              "bounded cross-check against an independent procedural definition in C03.shape")

contract("xdoctest.checker:check_output",
         params={"got": "str", "want": "str", "runstate": "Val"}, returns="bool",
         ensures=[("rel", "result == S.match(got, want, runstate)")],
         props=["C05"], opts={"native": False},
         trusted=True,
         note="used as a callee contract by C02/C03; its own verification against the pipeline spec is C05")

contract("xdoctest.checker:check_exception",
         params={"exc_got": "str", "want": "str", "runstate": "Val"}, returns="bool",
         ensures=[("true", "result == True"),
                  ("iff", "(not S.exc_want_none(want)) and S.exc_match(exc_got, want, runstate)")],
         raises={"LIVE": "S.exc_want_none(want)",
                 "GotWantException": "(not S.exc_want_none(want)) and not S.exc_match(exc_got, want, runstate)"},
         props=["C03"], gen="check_exception_inputs",
         sentinel=("never-reraises", "S.exc_want_none(want)"))

# ------------------------------------------------------------------------ C02
contract("xdoctest.checker:check_got_vs_want",
         params={"want": "str", "got_stdout": "str", "got_eval": "Val", "runstate": "Val"}, returns="bool",
         ensures=[("true", "result == True"),
                  ("table", "S.V(want, got_stdout, got_eval, runstate)")],
         raises={"ExtractGotReprException": "S.repr_fails(want, got_stdout, got_eval, runstate)",
                 "GotWantException": "(not S.repr_fails(want, got_stdout, got_eval, runstate)) and "
                                     "not S.V(want, got_stdout, got_eval, runstate)"},
         props=["C02", "C09"], gen="gvw_inputs",
         sentinel=("stdout-only", "S.match(got_stdout, want, runstate)"))


# ------------------------------------------------------------------------ C05
from pyvc.contracts import record
import contracts.doctest_example  # noqa: RuntimeState as an abstract state value

contract("xdoctest.utils.util_str:strip_ansi", params={"text": "str"}, returns="str", modifies=[],
         ensures=[("ansi-removed", "result == S.strip_ansi_spec(text)")],
         props=["C05"], opts={"native": False, "functional": "S.strip_ansi_spec(text)"})
contract("xdoctest.checker:remove_blankline_marker", params={"text": "str"}, returns="str", modifies=[],
         ensures=[("markers-become-newlines", "result == S.remove_blankline_spec(text)")],
         props=["C05"], opts={"native": False})
contract("xdoctest.checker:_check_match", params={"got": "str", "want": "str", "runstate": "RuntimeState"}, returns="bool",
         modifies=[],
         ensures=[("exact-or-ellipsis", "result == S.check_match(got, want, runstate)")],
         props=["C05", "C06"], opts={"native": False},
         sentinel=("ellipsis-always-on", "result == (got == want or S.ellipsis_match(got, want))"))
contract("xdoctest.checker:normalize.norm_repr", params={"a": "str", "b": "str", "runstate": "RuntimeState"}, returns="str",
         modifies=[],
         ensures=[("quotes-dropped-only-if-that-creates-a-match", "result == S.unquote(a, b, runstate)")],
         props=["C05"], opts={"native": False, "closure": {"runstate": "RuntimeState"}},
         sentinel=("always-unquotes", "implies(a.startswith('\"') and a.endswith('\"'), result == S.substr(a, 1, len(a) - 2))"))
contract("xdoctest.checker:normalize", params={"got": "str", "want": "str", "runstate": "RuntimeState"}, returns="tuple[str,str]",
         modifies=[],
         ensures=[("got-pipeline", "result[0] == S.norm_got(got, want, runstate)"),
                  ("want-pipeline", "result[1] == S.norm_want(got, want, runstate)")],
         props=["C05"], opts={"native": False},
         sentinel=("blankline-in-got-too", "result[0] == S.norm_got(S.remove_blankline_spec(got), want, runstate)"))
contract("xdoctest.checker:check_output#relation", params={"got": "str", "want": "str", "runstate": "RuntimeState"}, returns="bool",
         modifies=[],
         ensures=[("documented-relation", "result == S.match_def(got, want, runstate)"),
                  ("identical-texts-match", "implies(got == want, result)")],
         props=["C05"], opts={"native": False},
         sentinel=("never-normalises", "result == (want == '' or got == want)"))
