"""Contracts for xdoctest/doctest_example.py."""
from pyvc.contracts import contract, lemma, record, dict_record, LoopSpec
import contracts.doctest_part  # noqa: DoctestPart record, callee contracts

# The fields of a DocTest that the functions under contract read or write.
record("DocTest",
       lineno="int",
       exc_info="Optional[tuple[Val,Exc[BaseException],Val]]",
       failed_part="DoctestPart|'<IMPORT>'",
       failed_tb_lineno="Optional[int]",
       warn_list="Optional[Val]",
       callname="str", num="int", docsrc="str", mode="str", modpath="str", config="Val")

# the dict returned by DocTest.run / _post_run (only the verdict keys are tracked)
dict_record("RunSummary", passed="bool", failed="bool", skipped="bool")

_Q = "xdoctest.doctest_example:DocTest."
_E = "self.exc_info[1]"
_ISREPR = "isinstance(" + _E + ", (checker.ExtractGotReprException, exceptions.ExistingEventLoopError))"
_ISGW = "isinstance(" + _E + ", checker.GotWantException)"

# ------------------------------------------------------------------------ C08.fail
contract(_Q + "failed_line_offset",
         params={"self": "DocTest"}, returns="Optional[int]",
         requires=[("tb-line-known", "implies(self.exc_info is not None and self.failed_part != '<IMPORT>' and not " + _ISREPR +
                    " and not " + _ISGW + ", self.failed_tb_lineno is not None)")],
         modifies=[],
         ensures=[("none-iff-no-failure", "(result is None) == (self.exc_info is None)"),
                  ("import-failure", "implies(self.exc_info is not None and self.failed_part == '<IMPORT>', result == 0)"),
                  ("want-line", "implies(self.exc_info is not None and self.failed_part != '<IMPORT>' and " + _ISGW + " and not " + _ISREPR + ", "
                                "result == self.failed_part.line_offset + len(self.failed_part.exec_lines))"),
                  ("got-line", "implies(self.exc_info is not None and self.failed_part != '<IMPORT>' and " + _ISREPR + ", "
                               "result == self.failed_part.line_offset + len(self.failed_part.exec_lines) - 1)"),
                  ("raising-line", "implies(self.exc_info is not None and self.failed_part != '<IMPORT>' and not " + _ISGW + " and not " + _ISREPR + ", "
                                   "result == self.failed_part.line_offset + self.failed_tb_lineno - 1)")],
         props=["C08", "C09"], gen="doctest_failures",
         sentinel=("want-line-off-by-one", "implies(self.exc_info is not None and self.failed_part != '<IMPORT>' and " + _ISGW + ", "
                                           "result == self.failed_part.line_offset + len(self.failed_part.exec_lines) + 1)"))

contract(_Q + "failed_lineno",
         params={"self": "DocTest"}, returns="Optional[int]",
         requires=[("tb-line-known", "implies(self.exc_info is not None and self.failed_part != '<IMPORT>' and not " + _ISREPR +
                    " and not " + _ISGW + ", self.failed_tb_lineno is not None)")],
         modifies=[],
         ensures=[("none-iff-no-failure", "(result is None) == (self.exc_info is None)"),
                  ("import-failure", "implies(self.exc_info is not None and self.failed_part == '<IMPORT>', result == self.lineno)"),
                  ("want-line", "implies(self.exc_info is not None and self.failed_part != '<IMPORT>' and " + _ISGW + " and not " + _ISREPR + ", "
                                "result == self.lineno + self.failed_part.line_offset + len(self.failed_part.exec_lines))"),
                  ("raising-line", "implies(self.exc_info is not None and self.failed_part != '<IMPORT>' and not " + _ISGW + " and not " + _ISREPR + ", "
                                   "result == self.lineno + self.failed_part.line_offset + self.failed_tb_lineno - 1)")],
         props=["C08", "C09"], gen="doctest_failures",
         sentinel=("relative-not-absolute", "implies(self.exc_info is not None and self.failed_part == '<IMPORT>', result == 0)"))


# ------------------------------------------------------------------------ run (interface used by the callers)
contract(_Q + "run",
         params={"self": "DocTest", "verbose": "Optional[int]", "on_error": "Optional[str]"}, returns="RunSummary",
         trusted=True,
         ensures=[("one-verdict", "(result['passed'] and not result['failed'] and not result['skipped']) or "
                                  "(not result['passed'] and result['failed'] and not result['skipped']) or "
                                  "(not result['passed'] and not result['failed'] and result['skipped'])")],
         raises={"KeyboardInterrupt?": None, "SystemExit?": None, "Skipped?": None,
                 "Exception*?": "on_error != 'return'"},
         props=["C09", "C10", "C15"],
         note="interface of run as its callers see it: exactly one verdict; with on_error='return' no exception of class "
              "Exception escapes (C09.noraise)")


# ------------------------------------------------------------------------ C10: force-disable
contract(_Q + "is_disabled",
         params={"self": "DocTest", "pytest": "bool"}, returns="bool",
         modifies=[],
         ensures=[("first-line-marker", "result == S.force_disabled(self.docsrc, pytest)")],
         props=["C10", "C15"], opts={"native": False},
         sentinel=("never-disabled", "not result"))


_CMD = "'python -m xdoctest ' + self.modpath + ' ' + self.callname + ':' + str(self.num)"
contract(_Q + "node", params={"self": "DocTest"}, returns="str", trusted=True, log=False,
         note="T: presentation string built from the class name and __nice__")
contract(_Q + "cmdline",
         params={"self": "DocTest"}, returns="str", modifies=[],
         ensures=[("native", "implies(self.mode == 'native', result == " + _CMD + ")")],
         raises={"KeyError": "self.mode != 'native' and self.mode != 'pytest'"},
         props=["C10"], log=False,
         opts={"native": False, "functional": _CMD, "defined_when": "self.mode == 'native'"},
         note="functional for native-mode doctests: the command line names the doctest by path and callname:num")
