"""Contracts for xdoctest/doctest_example.py."""
from pyvc.contracts import contract, lemma, record, dict_record, LoopSpec
import contracts.doctest_part  # noqa: DoctestPart record, callee contracts

record("CodeObj", co_flags="int", co_filename="str", mode="str")
record("TbCode", co_filename="str")
record("TbFrame", f_code="TbCode", f_lineno="int")
record("TbEntry", tb_frame="TbFrame", tb_lineno="int")
record("Namespace", cleared="bool")
dict_record("DoctestConfig", on_error="str", verbose="int", default_runtime_state="Val", reportchoice="str", colored="bool",
            global_exec="None")   # assumption of every proof: no --global-exec code is configured (it runs outside
                                   # the capture and outside the failure ladder; not among the properties' quantifiers)
# a RuntimeState seen from outside: an abstract value (its lookup semantics is C04)
record("RuntimeState", state="Val")

# The fields of a DocTest that the functions under contract read or write.
record("DocTest",
       lineno="int",
       exc_info="Optional[tuple[Val,Exc[BaseException],Val]]",
       failed_part="DoctestPart|'<IMPORT>'",
       failed_tb_lineno="Optional[int]",
       warn_list="Optional[Val]",
       callname="str", num="int", docsrc="str", mode="str", modpath="str", modname="str", config="DoctestConfig",
       _parts="reclist[DoctestPart]", logged_evals="map[int,Val]", logged_stdout="map[int,Val]",
       _unmatched_stdout="list[str]", _skipped_parts="idxlist[DoctestPart]", _suppressed_stdout="bool",
       _runstate="Optional[RuntimeState]", _partfilename="str", module="Optional[Val]",
       global_namespace="Namespace", fpath="Optional[str]", block_type="Optional[str]")

# the dict returned by DocTest.run / _post_run (only the verdict keys are tracked)
dict_record("RunSummary", passed="bool", failed="bool", skipped="bool")

_Q = "xdoctest.doctest_example:DocTest."
_E = "self.exc_info[1]"
_ISREPR = "isinstance(" + _E + ", (checker.ExtractGotReprException, exceptions.ExistingEventLoopError))"
_ISGW = "isinstance(" + _E + ", checker.GotWantException)"

# ------------------------------------------------------------------------ C08.fail
contract(_Q + "failed_line_offset",
         params={"self": "DocTest"}, returns="Optional[int]",
         requires=[("tb-line-known", "implies(self.exc_info is not None and self.failed_part != '<IMPORT>' and not " + _ISREPR +
                    " and not " + _ISGW + ", self.failed_tb_lineno is not None)")],
         modifies=[],
         ensures=[("none-iff-no-failure", "(result is None) == (self.exc_info is None)"),
                  ("import-failure", "implies(self.exc_info is not None and self.failed_part == '<IMPORT>', result == 0)"),
                  ("want-line", "implies(self.exc_info is not None and self.failed_part != '<IMPORT>' and " + _ISGW + " and not " + _ISREPR + ", "
                                "result == self.failed_part.line_offset + len(self.failed_part.exec_lines))"),
                  ("got-line", "implies(self.exc_info is not None and self.failed_part != '<IMPORT>' and " + _ISREPR + ", "
                               "result == self.failed_part.line_offset + len(self.failed_part.exec_lines) - 1)"),
                  ("raising-line", "implies(self.exc_info is not None and self.failed_part != '<IMPORT>' and not " + _ISGW + " and not " + _ISREPR + ", "
                                   "result == self.failed_part.line_offset + self.failed_tb_lineno - 1)")],
         props=["C08", "C09"], gen="doctest_failures",
         sentinel=("want-line-off-by-one", "implies(self.exc_info is not None and self.failed_part != '<IMPORT>' and " + _ISGW + ", "
                                           "result == self.failed_part.line_offset + len(self.failed_part.exec_lines) + 1)"))

contract(_Q + "failed_lineno",
         params={"self": "DocTest"}, returns="Optional[int]",
         requires=[("tb-line-known", "implies(self.exc_info is not None and self.failed_part != '<IMPORT>' and not " + _ISREPR +
                    " and not " + _ISGW + ", self.failed_tb_lineno is not None)")],
         modifies=[],
         ensures=[("none-iff-no-failure", "(result is None) == (self.exc_info is None)"),
                  ("import-failure", "implies(self.exc_info is not None and self.failed_part == '<IMPORT>', result == self.lineno)"),
                  ("want-line", "implies(self.exc_info is not None and self.failed_part != '<IMPORT>' and " + _ISGW + " and not " + _ISREPR + ", "
                                "result == self.lineno + self.failed_part.line_offset + len(self.failed_part.exec_lines))"),
                  ("raising-line", "implies(self.exc_info is not None and self.failed_part != '<IMPORT>' and not " + _ISGW + " and not " + _ISREPR + ", "
                                   "result == self.lineno + self.failed_part.line_offset + self.failed_tb_lineno - 1)")],
         props=["C08", "C09"], gen="doctest_failures",
         sentinel=("relative-not-absolute", "implies(self.exc_info is not None and self.failed_part == '<IMPORT>', result == 0)"))


# ------------------------------------------------------------------------ callees of run
contract("xdoctest.doctest_example:DoctestConfig.getvalue",
         params={"self": "DoctestConfig", "key": "'on_error'|'verbose'|'global_exec'", "given": "Optional[Val]"}, returns="Val",
         trusted=True, log=False,
         opts={"functional": "self[key] if given is None else given", "substitute": True},
         note="a 4-line function: the configured value unless an override is given (used by substitution, "
              "so that the two cases do not double the paths of run)")

contract("xdoctest.directive:RuntimeState.__init__",
         params={"self": "RuntimeState", "default_state": "Val"}, trusted=True, log=False,
         modifies=["self.state"],
         note="assumed here; verified under C04/C11 (fresh deep copy of the defaults + the given defaults)")
contract("xdoctest.directive:RuntimeState.set_report_style",
         params={"self": "RuntimeState", "reportchoice": "str", "state": "Optional[Val]"}, trusted=True, log=False,
         modifies=["self.state"],
         ensures=[("skip-untouched", "S.rs_skip(self.state) == S.rs_skip(old(self.state))")],
         note="assumed here (only REPORT_* keys change); C04")
contract("xdoctest.directive:RuntimeState.update",
         params={"self": "RuntimeState", "directives": "Val"}, trusted=True,
         modifies=["self.state"], raises={"Exception*?": None},
         note="assumed here: new state = DirectiveSpec.update(old state, directives); may raise any Exception on a "
              "malformed directive; C04.update")
contract("xdoctest.doctest_part:DoctestPart.directives",
         params={"self": "DoctestPart"}, returns="Val", trusted=True, log=False,
         note="T: tokenizer-based extraction of directive comments (static.extract_comments); assumed not to raise for "
              "parts produced by the parser: the same extraction already succeeded statement by statement in _package_chunk")
contract("xdoctest.doctest_part:DoctestPart.has_any_code",
         params={"self": "DoctestPart"}, returns="bool", trusted=True, log=False,
         ensures=[("def", "result == S.has_code(self.exec_lines)")],
         note="assumed: some line is neither blank nor a comment")
contract("xdoctest.doctest_part:DoctestPart.compilable_source",
         params={"self": "DoctestPart"}, returns="str", modifies=[], log=False,
         ensures=[("lines-joined", "result == ('\\n'.join(self.exec_lines + ['']) if self.compile_mode == 'single' "
                                   "else '\\n'.join(self.exec_lines))")],
         props=["C01"],
         opts={"native": False,
               "functional": "('\\n'.join(self.exec_lines + ['']) if self.compile_mode == 'single' else '\\n'.join(self.exec_lines))"})
contract(_Q + "_parse", params={"self": "DocTest"}, trusted=True, log=False, modifies=["self._parts"],
         note="assumed here: afterwards _parts is some list of DoctestPart objects (C13/C14 are about its content)")
contract(_Q + "_pre_run", params={"self": "DocTest", "verbose": "int"}, trusted=True, log=False, modifies=[],
         note="T: prints a banner")
contract(_Q + "_import_module", params={"self": "DocTest"}, trusted=True, modifies=["self.module"],
         raises={"Exception*?": None},
         note="T: importlib; leaves sys.path as found (C12.syspath is the contract of import_module_from_path)")
record("PyModule", __dict__="Namespace")
contract(_Q + "_extract_future_flags", params={"namespace": "Namespace"}, returns="int", trusted=True, log=False, modifies=[],
         note="T: reads the __future__ features bound in the namespace")
contract(_Q + "_test_globals", params={"self": "DocTest"}, returns="tuple[Namespace,int]",
         modifies=["obj(self.global_namespace)"],
         ensures=[("same-dict", "result[0] is self.global_namespace")],
         props=["C11", "C01"],
         opts={"native": False, "result_alias": {0: "self.global_namespace"},
               "entry_types": {"DocTest.module": "Optional[PyModule]", "DocTest.exc_info": "Optional[Val]",
                               "DocTest.failed_part": "Optional[Val]"}},
         note="the dict handed to exec is the doctest's own global_namespace: the entries of the module under test are copied INTO "
              "it (dict.update); the module's __dict__ object is neither returned nor written (frame), so assignments made by the "
              "doctest cannot rebind the module's globals (C11.globals)",
         sentinel=("runs-in-the-module-dict", "result[0] is self.module.__dict__"))
contract(_Q + "_color", params={"self": "DocTest", "text": "str", "color": "str", "enabled": "Optional[bool]"},
         returns="str", trusted=True, log=False, note="T: presentation")
contract(_Q + "_print_captured", params={"self": "DocTest"}, trusted=True, log=False, modifies=[], note="T: prints")
contract(_Q + "repr_failure", params={"self": "DocTest", "with_tb": "bool"}, returns="list[str]", trusted=True, log=False,
         requires=[("failure-recorded", "self.exc_info is not None")],
         note="assumed here: renders without raising when a failure is recorded (its own contract is C09.render)")
contract("xdoctest.utils.util_str:codeblock", params={"block_str": "str"}, returns="str", trusted=True, log=False,
         note="T: dedent")

# ------------------------------------------------------------------------ _post_run: the verdict (C02.verdict)
contract(_Q + "_post_run",
         params={"self": "DocTest", "verbose": "int"}, returns="RunSummary",
         modifies=[],
         ensures=[("failed-iff-exc-info", "result['failed'] == (self.exc_info is not None)"),
                  ("skipped-iff-all-parts-skipped", "result['skipped'] == (len(self._skipped_parts) == len(self._parts))"),
                  ("passed-iff-neither", "result['passed'] == (not result['failed'] and not result['skipped'])")],
         props=["C02", "C09", "C10", "C15"], opts={"native": False},
         sentinel=("passed-when-skipped", "result['passed'] == (not result['failed'])"))

# ------------------------------------------------------------------------ run
_SK = "(S.rs_skip(runstate.state) or not S.has_code(part.exec_lines))"
# "has a want" as the code reads it: part.want (the joined want lines) is a non-empty string
_HASWANT = "(part.want_lines is not None and len(part.want_lines) > 0 and len('\\n'.join(part.want_lines)) > 0)"
_WANT = "'\\n'.join(part.want_lines)"
_ONE = ("(result['passed'] and not result['failed'] and not result['skipped']) or "
        "(not result['passed'] and result['failed'] and not result['skipped']) or "
        "(not result['passed'] and not result['failed'] and result['skipped'])")

contract(_Q + "run",
         params={"self": "DocTest", "verbose": "Maybe[int]", "on_error": "Maybe[str]"}, returns="RunSummary",
         globals={"sys.stdout": "Val"},
         ensures=[("one-verdict", _ONE),
                  ("failed-iff-recorded", "result['failed'] == (self.exc_info is not None)"),
                  ("stdout-restored", "sys.stdout is old(sys.stdout)"),
                  ("namespace-cleared", "self.failed_part == '<IMPORT>' or self.global_namespace.cleared")],
         raises={"Exception*?": "(on_error if on_error is not None else old(self.config['on_error'])) != 'return' "
                                "and sys.stdout is old(sys.stdout)",
                 "BaseException*?": "sys.stdout is old(sys.stdout)"},
         loops={0: LoopSpec(
             header="enumerate(self._parts)",
             types={"test_globals": "=self.global_namespace", "compileflags": "int",
                    "self._skipped_parts": "idxlist[self._parts]"},
             invariants=[
                 ("debug-off", "not DEBUG"),
                 ("no-failure-yet", "self.exc_info is None"),
                 ("skipped-at-most-visited", "len(self._skipped_parts) <= _i0"),
                 ("stdout-is-original", "sys.stdout is old(sys.stdout)"),
                 ("capture-object", "cap.enabled and cap.orig_stdout is old(sys.stdout) and "
                                    "0 <= cap._pos and cap._pos <= len(cap.cap_stdout.buf)"),
                 ("globals-dict", "implies(did_pre_import, test_globals is self.global_namespace)"),
                 # C11.reset: whatever the object held before this call is gone at the first iteration
                 ("unmatched-from-this-run", "len(self._unmatched_stdout) <= _i0"),
                 ("logged-from-this-run", "forall(lambda k: implies(k in self.logged_stdout, 0 <= k and k < _i0))"),
             ],
             body_post=[
                 # C04.skip / C01.once: a skipped part has no effect at all
                 ("skipped-part-runs-nothing",
                  "implies(" + _SK + ", ev_count('compile') == 0 and ev_count('exec') == 0 and ev_count('eval') == 0 "
                  "and ev_count('DoctestPart.check') == 0 and ev_count('check_exception') == 0 "
                  "and self._skipped_parts == before(self._skipped_parts) + [partx] "
                  "and self._unmatched_stdout == before(self._unmatched_stdout) and partx not in self.logged_stdout)"),
                 # C01.once: an executed part is compiled once, from its own lines, in its own mode
                 ("executed-part-compiled-once",
                  "implies(not " + _SK + ", ev_count('compile') == 1 and ev_arg('compile', 0, 'source') == part.compilable_source() "
                  "and ev_arg('compile', 0, 'mode') == part.compile_mode "
                  "and self._skipped_parts == before(self._skipped_parts))"),
                 ("executed-once-in-the-shared-namespace",
                  "implies(not " + _SK + ", ev_count('exec') + ev_count('eval') <= 1 and "
                  "(ev_count('exec') == 0 or ev_arg('exec', 0, 'globals') is self.global_namespace) and "
                  "(ev_count('eval') == 0 or ev_arg('eval', 0, 'globals') is self.global_namespace) and "
                  "(ev_count('exec') == 0 or ev_arg('exec', 0, 'code') is ev_arg('compile', 0, 'result')) and "
                  "(ev_count('eval') == 0 or ev_arg('eval', 0, 'code') is ev_arg('compile', 0, 'result')))"),
                 ("really-executed",
                  "implies(ev_count('compile') == 1 and not " + _SK + " and ev_count('check_exception') == 0 and "
                  "not ((ev_arg('compile', 0, 'result').co_flags & CO_COROUTINE == CO_COROUTINE) and is_running_in_loop), "
                  "ev_count('exec') + ev_count('eval') == 1)"),
                 # C02.accum
                 ("unmatched-reset-after-a-want",
                  "implies(not " + _SK + " and ev_count('check_exception') == 0 and " + _HASWANT + ", self._unmatched_stdout == [])"),
                 ("unmatched-grows-without-a-want",
                  "implies(not " + _SK + " and ev_count('check_exception') == 0 and not " + _HASWANT + ", "
                  "self._unmatched_stdout == before(self._unmatched_stdout) + [cap.text])"),
                 ("unmatched-kept-after-expected-exception",
                  "implies(ev_count('check_exception') == 1, self._unmatched_stdout == before(self._unmatched_stdout))"),
                 # C02: the want is checked against this part's output plus the unmatched outputs
                 ("want-checked",
                  "implies(not " + _SK + " and ev_count('check_exception') == 0 and " + _HASWANT +
                  " and not S.rs_flag(runstate.state, 'IGNORE_WANT'), ev_count('DoctestPart.check') == 1 and "
                  "ev_arg('DoctestPart.check', 0, 'part') is part and ev_arg('DoctestPart.check', 0, 'got_stdout') == cap.text and "
                  "ev_arg('DoctestPart.check', 0, 'unmatched') == before(self._unmatched_stdout))"),
                 # C01.once (setup happens once): the module is pre-imported and its names copied into the namespace
                 # before the FIRST executed part only
                 ("setup-once", "implies(before(did_pre_import), did_pre_import and ev_count('DocTest._import_module') == 0 "
                                "and ev_count('DocTest._test_globals') == 0)"),
                 ("setup-before-first-executed-part", "implies(not " + _SK + ", did_pre_import)"),
                 # C02: the value handed to the checker is the value of THIS part's expression, or the not-evaluated marker
                 ("value-of-this-part-only",
                  "implies(ev_count('DoctestPart.check') == 1, "
                  "(ev_count('eval') == 0 and ev_arg('DoctestPart.check', 0, 'got_eval') is constants.NOT_EVALED) or "
                  "(ev_count('eval') == 1 and ev_count('asyncio.run') == 0 and ev_arg('DoctestPart.check', 0, 'got_eval') is ev_arg('eval', 0, 'result')) or "
                  "(ev_count('asyncio.run') == 1 and (ev_arg('DoctestPart.check', 0, 'got_eval') is ev_arg('asyncio.run', 0, 'result') or "
                  "ev_arg('DoctestPart.check', 0, 'got_eval') is constants.NOT_EVALED)))"),
                 ("want-ignored",
                  "implies(not " + _HASWANT + " or S.rs_flag(runstate.state, 'IGNORE_WANT'), ev_count('DoctestPart.check') == 0)"),
             ],
             body_always=[
                 # C01.stdout / C15: the output of an executed part is logged on every outcome
                 ("output-logged-on-every-outcome",
                  "implies(ev_count('compile') == 1 and ev_outcome('compile', 0) == 'normal', partx in self.logged_stdout)"),
                 # C09.failedflag
                 ("directive-failure-recorded", "implies(ev_raised('RuntimeState.update') == 1, self.exc_info is not None "
                                                "and self.failed_part is part)"),
                 ("import-failure-recorded", "implies(ev_raised('DocTest._import_module') == 1, self.exc_info is not None "
                                             "and self.failed_part == '<IMPORT>')"),
                 ("compile-failure-recorded", "implies(ev_raised('compile') == 1, self.exc_info is not None and self.failed_part is part)"),
                 ("mismatch-recorded", "implies(ev_raised('DoctestPart.check') == 1, self.exc_info is not None and self.failed_part is part)"),
                 # C03: an exception is never hidden by a missing or non-traceback want
                 ("exception-without-want-recorded",
                  "implies(ev_raised('exec') == 1 and isinstance(ev_arg('exec', 0, 'exc'), Exception) and "
                  "not isinstance(ev_arg('exec', 0, 'exc'), (exceptions.ExitTestException, exceptions._pytest.outcomes.Skipped)) "
                  "and not " + _HASWANT + ", self.exc_info is not None and self.exc_info[1] is ev_arg('exec', 0, 'exc') "
                  "and self.failed_part is part)"),
                 ("exception-with-want-goes-to-the-checker",
                  "implies(ev_raised('exec') == 1 and isinstance(ev_arg('exec', 0, 'exc'), Exception) and " + _HASWANT + ", "
                  "ev_count('check_exception') == 1 and ev_arg('check_exception', 0, 'want') == " + _WANT + " and "
                  "ev_arg('check_exception', 0, 'exc_got') == ev_arg('format_exception_only', -1, 'result')[-1] and "
                  "ev_arg('format_exception_only', -1, 'exc') is ev_arg('exec', 0, 'exc'))"),
                 ("unexpected-exception-recorded",
                  "implies(ev_raised('check_exception') == 1 and ev_raised('exec') == 1 and "
                  "not isinstance(ev_arg('exec', 0, 'exc'), (exceptions.ExitTestException, exceptions._pytest.outcomes.Skipped)), "
                  "self.exc_info is not None and self.failed_part is part)"),
                 # C08.fail: the failing line is the first traceback entry of this doctest's pseudo file
                 ("first-doctest-frame",
                  "implies(ev_raised('exec') == 1 and self.exc_info is not None and self.exc_info[1] is ev_arg('exec', 0, 'exc') and "
                  "not isinstance(ev_arg('exec', 0, 'exc'), (checker.GotWantException, checker.ExtractGotReprException, "
                  "exceptions.ExistingEventLoopError)), "
                  "exists(lambda k: 0 <= k and k < len(tb_entries(self.exc_info[2])) and "
                  "tb_entries(self.exc_info[2])[k].tb_frame.f_code.co_filename == self._partfilename and "
                  "self.failed_tb_lineno == tb_entries(self.exc_info[2])[k].tb_lineno and "
                  "all(tb_entries(self.exc_info[2])[j].tb_frame.f_code.co_filename != self._partfilename for j in range(0, k))))"),
             ],
             exit_post=[("stdout-is-original", "sys.stdout is old(sys.stdout)"),
                        ("skipped-at-most-all", "len(self._skipped_parts) <= len(self._parts)"),
                        ("a-failing-part-is-not-skipped", "implies(self.exc_info is not None, "
                                                          "len(self._skipped_parts) < len(self._parts))")]),
                1: LoopSpec(
             header="_traverse_traceback(tb)",
             ghost={"tbs": "tb_entries(tb)"},
             invariants=[
                 ("not-found-yet", "found_lineno is None"),
                 ("earlier-frames-foreign", "all(tbs[j].tb_frame.f_code.co_filename != self._partfilename for j in range(0, _i1))"),
             ])},
         props=["C01", "C02", "C03", "C04", "C09", "C10", "C11", "C12", "C15"],
         opts={"native": False,
               "entry_types": {"DocTest.exc_info": "Optional[Val]", "DocTest.failed_part": "Optional[Val]"}},
         sentinel=("never-fails", "not result['failed']"))

# ------------------------------------------------------------------------ C10: force-disable
contract(_Q + "is_disabled",
         params={"self": "DocTest", "pytest": "bool"}, returns="bool",
         modifies=[],
         ensures=[("first-line-marker", "result == S.force_disabled(self.docsrc, pytest)")],
         props=["C10", "C15"], opts={"native": False},
         sentinel=("never-disabled", "not result"))


_CMD = "'python -m xdoctest ' + self.modpath + ' ' + self.callname + ':' + str(self.num)"
contract(_Q + "node", params={"self": "DocTest"}, returns="str", trusted=True, log=False,
         note="T: presentation string built from the class name and __nice__")
contract(_Q + "cmdline",
         params={"self": "DocTest"}, returns="str", modifies=[],
         ensures=[("native", "implies(self.mode == 'native', result == " + _CMD + ")")],
         raises={"KeyError": "self.mode != 'native' and self.mode != 'pytest'"},
         props=["C10"], log=False,
         opts={"native": False, "functional": _CMD, "defined_when": "self.mode == 'native'"},
         note="functional for native-mode doctests: the command line names the doctest by path and callname:num")


contract(_Q + "anything_ran", params={"self": "DocTest"}, returns="bool", modifies=[],
         ensures=[("some-output-was-logged", "result == (len(self.logged_stdout) > 0)")],
         props=["C15", "C02"], opts={"native": False})


# ------------------------------------------------------------------------ C09.render: the traceback rewriting of repr_failure
_LX = "(-2 if len(line.split(',')) > 2 else -1)"
_LOC = "line.split(',')[" + _LX + "].strip().split()"
contract(_Q + "repr_failure._alter_traceback_linenos",
         params={"self": "DocTest", "tblines": "list[str]"}, returns="list[str]",
         requires=[("an-import-failure-has-no-frame-in-the-pseudo-file",
                    "implies(self.failed_part == '<IMPORT>', all(not (self._partfilename in line) for line in tblines))"),
                   ("lines-naming-the-pseudo-file-are-location-lines",
                    "all(implies(self._partfilename in line, len(" + _LOC + ") >= 2 and S.is_int_literal(" + _LOC + "[1])) for line in tblines)")],
         raises={},
         ensures=[("one-output-line-per-input-line", "len(result) == len(tblines)")],
         loops={0: LoopSpec(header="enumerate(tblines)", types={"new_tblines": "list[str]"},
                            invariants=[("so-far", "len(new_tblines) == _i0")])},
         props=["C09"],
         opts={"native": False, "closure": {}},
         note="the rewriting of traceback lines cannot raise: in particular the source line it quotes is only indexed when the frame's "
              "line number lies inside the failing part (frames of helpers defined by earlier, longer parts share the pseudo file name); "
              "precondition: a line that contains the pseudo file name is a traceback location line ('File \"..\", line N[, in f]')",
         sentinel=("drops-lines", "len(result) < len(tblines)"))


# ------------------------------------------------------------------------ C18.numbers: every part is formatted with the same numbering
contract("xdoctest.doctest_example:DoctestConfig.getvalue#display",
         params={"self": "DoctestConfig", "key": "str", "given": "Optional[Val]"}, returns="Val", trusted=True, log=False,
         note="the display options (colored, partnos, offset_linenos): the configured value unless an override is given")
contract("xdoctest.doctest_part:DoctestPart.format_part#any",
         params={"self": "DoctestPart", "linenos": "bool", "want": "bool", "startline": "int", "n_digits": "Optional[int]",
                 "colored": "Val", "partnos": "Val", "prefix": "bool"},
         returns="str", trusted=True, modifies=[],
         note="the caller's view of format_part for any option values (its text is specified by the plain and the numbered contracts)")
_FP = "ev_arg('DoctestPart.format_part', 0, '%s')"
contract(_Q + "format_parts",
         params={"self": "DocTest", "linenos": "bool", "colored": "Optional[Val]", "want": "bool", "offset_linenos": "Optional[Val]",
                 "prefix": "bool"},
         raises={"Exception*?": None},
         loops={0: LoopSpec(header="self._parts", invariants=[], modifies=[],
                            body_post=[("each-part-once-with-the-doctest-wide-numbering",
                                        "ev_count('DoctestPart.format_part') == 1 and " + _FP % "self" + " is part and "
                                        + _FP % "linenos" + " == linenos and " + _FP % "want" + " == want and " + _FP % "prefix" + " == prefix and "
                                        + _FP % "startline" + " == startline and "
                                        "ev_count('yield') == 1 and ev_arg('yield', 0, 'value') == " + _FP % "result")])},
         props=["C18"],
         opts={"native": False,
               "use": {"xdoctest.doctest_part:DoctestPart.format_part": "xdoctest.doctest_part:DoctestPart.format_part#any",
                       "xdoctest.doctest_example:DoctestConfig.getvalue": "xdoctest.doctest_example:DoctestConfig.getvalue#display"},
               "entry_types": {"DocTest.exc_info": "Optional[Val]", "DocTest.failed_part": "Optional[Val]"},
               "region": {"from": "self._parse()",
                          "drop": ["n_lines = sum(", "endline = startline + n_lines", "n_digits = math.log(", "n_digits = int("]},
               "exit_facts": [("numbering-starts-at-one-or-at-the-doctest-line",
                               "startline == (self.lineno if (linenos and bool(offset_linenos)) else 1)")]},
         note="region: the whole body minus the computation of the number WIDTH (dropped: n_lines / endline / n_digits); format_parts: every part is formatted exactly once, in order, with the same options and the same first line number: 1 "
              "(doctest-relative) or the doctest's line in its file (offset_linenos); the number width is computed once for the whole doctest",
         sentinel=("numbering-restarts-per-part", "True == False"))


# ------------------------------------------------------------------------ C09.render: repr_failure as a whole
contract("xdoctest.doctest_example:DocTest.format_parts#list",
         params={"self": "DocTest", "linenos": "bool", "colored": "Val", "want": "bool", "offset_linenos": "Optional[Val]", "prefix": "bool"},
         returns="list[str]", trusted=True, log=False,
         note="the caller's view of the generator format_parts (its own contract: C18): the formatted parts as a list; assumed not to "
              "raise here: a doctest with a recorded failure has been parsed already, so _parse() inside it is a no-op")
contract("xdoctest.checker:GotWantException.output_difference", params={"self": "Exc[GotWantException]", "runstate": "Val", "colored": "Val"},
         returns="str", trusted=True, log=False, note="T: difflib text")
contract("xdoctest.checker:GotWantException.output_repr_difference", params={"self": "Exc[GotWantException]", "runstate": "Val"},
         returns="str", trusted=True, log=False, note="T: repr text")
_LOCL = "line.split(',')[(-2 if len(line.split(',')) > 2 else -1)].strip().split()"
contract(_Q + "repr_failure#whole",
         params={"self": "DocTest", "with_tb": "bool"}, returns="list[str]",
         requires=[("a-known-front-end", "self.mode == 'native' or self.mode == 'pytest'"),
                   ("tb-line-known", "implies(self.exc_info is not None and self.failed_part != '<IMPORT>' and not " + _ISREPR +
                    " and not " + _ISGW + ", self.failed_tb_lineno is not None)")],
         raises={},
         ensures=[("nothing-to-report-without-a-failure", "implies(self.exc_info is None, len(result) == 0)"),
                  ("names-the-exception-type", "implies(self.exc_info is not None, len(result) >= 1 and "
                                               "result[0] == '* REASON: ' + S.class_name(self.exc_info[0]))")],
         props=["C09"],
         opts={"native": False,
               "use": {"xdoctest.doctest_example:DocTest.format_parts": "xdoctest.doctest_example:DocTest.format_parts#list"},
               "region": {"from": "if self.exc_info is None:", "drop": ["for partx, (part, part_text) in enumerate("]},
               "assume_after": {"tblines = traceback.format_exception(": [
                   "implies(self.failed_part == '<IMPORT>', all(not (self._partfilename in line) for line in tblines))",
                   "all(implies(self._partfilename in line, len(" + _LOCL + ") >= 2 and S.is_int_literal(" + _LOCL + "[1])) for line in tblines)"]}},
         note="region: the whole body except the loop that sorts the formatted parts into passed / failed / remaining (dropped: it only "
              "moves already formatted text between three lists).  Assumed about CPython's traceback.format_exception, stated at the "
              "call: a line that contains the doctest's pseudo file name is a location line, and an import failure has no frame in it",
         sentinel=("always-empty", "len(result) == 0"))
