"""Contracts for xdoctest/doctest_example.py."""
from pyvc.contracts import contract, lemma, record, LoopSpec
import contracts.doctest_part  # noqa: DoctestPart record, callee contracts

# The fields of a DocTest that the functions under contract read or write.
record("DocTest",
       lineno="int",
       exc_info="Optional[tuple[Val,Exc[BaseException],Val]]",
       failed_part="DoctestPart|'<IMPORT>'",
       failed_tb_lineno="Optional[int]")

_Q = "xdoctest.doctest_example:DocTest."
_E = "self.exc_info[1]"
_ISREPR = "isinstance(" + _E + ", (checker.ExtractGotReprException, exceptions.ExistingEventLoopError))"
_ISGW = "isinstance(" + _E + ", checker.GotWantException)"

# ------------------------------------------------------------------------ C08.fail
contract(_Q + "failed_line_offset",
         params={"self": "DocTest"}, returns="Optional[int]",
         requires=[("tb-line-known", "implies(self.exc_info is not None and self.failed_part != '<IMPORT>' and not " + _ISREPR +
                    " and not " + _ISGW + ", self.failed_tb_lineno is not None)")],
         modifies=[],
         ensures=[("none-iff-no-failure", "(result is None) == (self.exc_info is None)"),
                  ("import-failure", "implies(self.exc_info is not None and self.failed_part == '<IMPORT>', result == 0)"),
                  ("want-line", "implies(self.exc_info is not None and self.failed_part != '<IMPORT>' and " + _ISGW + " and not " + _ISREPR + ", "
                                "result == self.failed_part.line_offset + len(self.failed_part.exec_lines))"),
                  ("got-line", "implies(self.exc_info is not None and self.failed_part != '<IMPORT>' and " + _ISREPR + ", "
                               "result == self.failed_part.line_offset + len(self.failed_part.exec_lines) - 1)"),
                  ("raising-line", "implies(self.exc_info is not None and self.failed_part != '<IMPORT>' and not " + _ISGW + " and not " + _ISREPR + ", "
                                   "result == self.failed_part.line_offset + self.failed_tb_lineno - 1)")],
         props=["C08", "C09"], gen="doctest_failures",
         sentinel=("want-line-off-by-one", "implies(self.exc_info is not None and self.failed_part != '<IMPORT>' and " + _ISGW + ", "
                                           "result == self.failed_part.line_offset + len(self.failed_part.exec_lines) + 1)"))

contract(_Q + "failed_lineno",
         params={"self": "DocTest"}, returns="Optional[int]",
         requires=[("tb-line-known", "implies(self.exc_info is not None and self.failed_part != '<IMPORT>' and not " + _ISREPR +
                    " and not " + _ISGW + ", self.failed_tb_lineno is not None)")],
         modifies=[],
         ensures=[("none-iff-no-failure", "(result is None) == (self.exc_info is None)"),
                  ("import-failure", "implies(self.exc_info is not None and self.failed_part == '<IMPORT>', result == self.lineno)"),
                  ("want-line", "implies(self.exc_info is not None and self.failed_part != '<IMPORT>' and " + _ISGW + " and not " + _ISREPR + ", "
                                "result == self.lineno + self.failed_part.line_offset + len(self.failed_part.exec_lines))"),
                  ("raising-line", "implies(self.exc_info is not None and self.failed_part != '<IMPORT>' and not " + _ISGW + " and not " + _ISREPR + ", "
                                   "result == self.lineno + self.failed_part.line_offset + self.failed_tb_lineno - 1)")],
         props=["C08", "C09"], gen="doctest_failures",
         sentinel=("relative-not-absolute", "implies(self.exc_info is not None and self.failed_part == '<IMPORT>', result == 0)"))
