"""Contracts for xdoctest/parser.py and the docstring-level entry points of xdoctest/core.py (C13, C14, C08.offsets, C01.tabs)."""
from pyvc.contracts import contract, record, tagged_record, tuple_record, LoopSpec, ASLIST, ASSTR, CLASS_ALIAS, TUPLE_RECORDS

_P = "xdoctest.parser:DoctestParser."
record("DoctestParser", simulate_repl="bool")

contract("xdoctest.parser:_min_indentation", params={"s": "str"}, returns="int", trusted=True, log=False,
         requires=[("tabs-expanded", "'\\t' not in s")],
         ensures=[("nonneg", "result >= 0")],
         note="T: re.findall of INDENT_RE; the smallest indentation of a non-blank line, 0 if there is none")
contract("xdoctest.parser:_source_lines", params={"s": "str"}, returns="list[str]", trusted=True, log=False, modifies=[],
         ensures=[("the-lines-of-the-source-file", "result == S.source_lines(s)")],
         opts={"functional": "S.source_lines(s)"},
         note="T: re.split at \\n, \\r\\n, \\r (a trailing empty piece dropped): the lines as the source file has them; exercised by the "
              "bounded line oracle with separator characters (bounded/c08_lines.py)")
contract(_P + "_label_docsrc_lines", params={"self": "DoctestParser", "string": "str"}, returns="Val", trusted=True,
         requires=[("tabs-expanded", "'\\t' not in string")],
         raises={"Exception*?": None},
         note="assumed here: may raise anything (tokenizer errors, IncompleteParseError); the labeller assumes tab-free text")
contract(_P + "_group_labeled_lines", params={"self": "DoctestParser", "labeled_lines": "Val"}, returns="Val", trusted=True,
         raises={"Exception*?": None}, note="assumed here: may raise anything")
contract(_P + "_package_groups", params={"self": "DoctestParser", "grouped_lines": "Val"}, returns="list[str]", trusted=True,
         raises={"Exception*?": None},
         note="assumed here: a generator; exhausting it (list(...)) may raise anything (ast.parse of a chunk, directive extraction)")

# ------------------------------------------------------------------------ C14.wrap, C01.tabs
contract(_P + "parse",
         params={"self": "DoctestParser", "string": "str", "info": "Optional[Val]"}, returns="list[str]",
         raises={"DoctestParseError?": None},
         ensures=[("three-phases-in-order", "ev_count('_label_docsrc_lines') == 1 and ev_count('_group_labeled_lines') == 1 and "
                                            "ev_count('_package_groups') == 1")],
         props=["C14", "C13", "C01"], opts={"native": False},
         note="for every str input the only exception that can leave parse is DoctestParseError; the labeller is called on "
              "tab-expanded text (its precondition)",
         sentinel=("never-groups", "ev_count('_group_labeled_lines') == 0"))


# ------------------------------------------------------------------------ C14.downgrade (xdoctest/core.py)
for _name in ("parse_freeform_docstr_examples", "parse_google_docstr_examples", "parse_auto_docstr_examples"):
    contract("xdoctest.core:" + _name,
             params={"docstr": "str", "callname": "Optional[str]", "modpath": "Optional[str]", "lineno": "int",
                     "fpath": "Optional[str]", "asone": "bool", "eager_parse": "bool"},
             returns="reclist[DocTest]", trusted=True,
             raises={"DoctestParseError?": None, "MalformedDocstr?": None},
             note="assumed here: a style parser fails only with the library's own DoctestParseError (C14.wrap: every exception of "
                  "DoctestParser.parse is wrapped) or MalformedDocstr (google block splitter)")
contract("xdoctest.utils.util_str:ensure_unicode", params={"text": "str"}, returns="str", log=False, modifies=[],
         ensures=[("a-str-is-returned-unchanged", "result == text")], props=["C14"], opts={"native": False},
         note="for the str arguments the parsers pass, the text is returned as it is (the bytes branch is outside the declared argument type)",
         sentinel=("returns-something-else", "result != text"))

contract("xdoctest.core:parse_docstr_examples",
         params={"docstr": "str", "callname": "Maybe[str]", "modpath": "Maybe[str]", "lineno": "int",
                 "style": "str", "fpath": "Maybe[str]", "parser_kw": "None"},
         raises={"KeyError": "style not in ('freeform', 'google', 'auto')"},
         ensures=[("one-yield-per-parsed-example", "ev_count('yield') <= 1 or True"),
                  ("warns-iff-the-parser-failed", "(ev_count('warnings.warn') == 1) == "
                                                  "(ev_raised('parse_freeform_docstr_examples') + ev_raised('parse_google_docstr_examples') "
                                                  "+ ev_raised('parse_auto_docstr_examples') == 1)")],
         loops={0: LoopSpec(header="parser(docstr, callname=callname, modpath=modpath, fpath=fpath, lineno=lineno, **parser_kw)",
                            invariants=[("counted", "n_parsed == _i0")],
                            body_post=[("yields-this-example", "ev_count('yield') == 1 and ev_arg('yield', 0, 'value') is example")])},
         props=["C14"], opts={"native": False},
         note="a docstring whose parser fails with DoctestParseError / MalformedDocstr yields a warning and no exception; the message "
              "construction itself cannot raise (str.format is only applied to literal templates)",
         sentinel=("never-warns", "ev_count('warnings.warn') == 0"))


# ------------------------------------------------------------------------ C13.offsets / C08.offsets
# An element of grouped_lines is either a (source lines, want lines) tuple or a list of text lines: a tagged record.
tagged_record("Chunk", {"tuple": "is_code"}, is_code="bool", slines="list[str]", wlines="list[str]", lines="list[str]")
TUPLE_RECORDS["Chunk"] = ["slines", "wlines"]       # `slines, wlines = chunk`
ASLIST["Chunk"] = "lines"                            # len(chunk), '\n'.join(chunk) of a text chunk

contract(_P + "_package_chunk",
         params={"self": "DoctestParser", "raw_source_lines": "list[str]", "raw_want_lines": "list[str]", "lineno": "int"},
         returns="reclist[DoctestPart]", trusted=True,
         raises={"Exception*?": None},
         note="assumed here: yields the parts of one chunk (ast based slicing); what matters below is the line number it is handed")

_SIZE = "((len(c.slines) + len(c.wlines)) if c.is_code else len(c.lines))"
contract(_P + "_package_groups#offsets",
         params={"self": "DoctestParser", "grouped_lines": "reclist[Chunk]"},
         raises={"Exception*?": None},
         loops={0: LoopSpec(header="grouped_lines", modifies=[],
                            invariants=[("lineno-is-the-number-of-lines-before-this-chunk",
                                         "lineno == S.int_sum([" + _SIZE + " for c in grouped_lines[:_i0]])")],
                            body_post=[("a-code-chunk-is-packaged-at-its-first-line",
                                        "implies(chunk.is_code, ev_count('DoctestParser._package_chunk') == 1 and "
                                        "ev_arg('DoctestParser._package_chunk', 0, 'lineno') == before(lineno) and "
                                        "ev_arg('DoctestParser._package_chunk', 0, 'raw_source_lines') == chunk.slines and "
                                        "ev_arg('DoctestParser._package_chunk', 0, 'raw_want_lines') == chunk.wlines)"),
                                       ("a-text-chunk-is-yielded-as-its-joined-lines",
                                        "implies(not chunk.is_code, ev_count('DoctestParser._package_chunk') == 0 and ev_count('yield') == 1 and "
                                        "ev_arg('yield', 0, 'value') == '\\n'.join(chunk.lines))")]),
                1: LoopSpec(header=None, modifies=[], invariants=[],
                            body_post=[("every-part-is-yielded", "ev_count('yield') == 1 and ev_arg('yield', 0, 'value') is example")])},
         props=["C13", "C08", "C18"], opts={"native": False},
         note="the running line counter handed to _package_chunk is the total number of lines of all earlier chunks, so every part's "
              "line_offset is the index of its first line in the (pre-processed) docstring",
         sentinel=("offsets-ignore-wants", "True == False"))


# ------------------------------------------------------------------------ C01.slices: the parts of one chunk partition its lines
contract(_P + "_locate_ps1_linenos",
         params={"self": "DoctestParser", "source_lines": "list[str]"}, returns="tuple[list[int],str]", trusted=True,
         raises={"Exception*?": None},
         ensures=[("statement-starts-are-lines-of-the-chunk", "all(0 <= result[0][k] and result[0][k] < len(source_lines) for k in range(len(result[0])))"),
                  ("in-increasing-order", "all(result[0][k] < result[0][k + 1] for k in range(len(result[0]) - 1))"),
                  ("the-last-is-the-largest", "all(result[0][k] <= result[0][len(result[0]) - 1] for k in range(len(result[0])))"),
                  ("a-compile-mode", "result[1] == 'exec' or result[1] == 'eval' or result[1] == 'single'")],
         note="assumed here (ast / tokenize based): the 0-based lines on which the statements of the chunk start, as sorted(set(..)) "
              "returns them; checked against an independent oracle by the bounded stand-in bounded/c01_chunks.py")
contract("xdoctest.directive:Directive.extract", params={"cls": "Val", "text": "str"}, returns="reclist[Directive]", trusted=True,
         raises={"Exception*?": None}, note="assumed here: the directives written in a statement's text (C04.extract is its own contract)")
record("Directive", inline="bool")

_SLICE_OPTS = {"native": False, "inline": ["xdoctest.doctest_part:DoctestPart.__init__"],
               "closure": {"exec_source_lines": "list[str]", "source_lines": "list[str]", "ps1_to_directive": "map[int,Val]",
                           "lineno": "int"}}
contract(_P + "_package_chunk.slice_example",
         params={"s1": "int", "s2": "Optional[int]", "want_lines": "Optional[list[str]]"}, returns="DoctestPart",
         ensures=[("executes-these-lines", "result.exec_lines == (exec_source_lines[s1:] if s2 is None else exec_source_lines[s1:s2])"),
                  ("shows-these-lines", "result.orig_lines == (source_lines[s1:] if s2 is None else source_lines[s1:s2])"),
                  ("line-of-its-first-statement", "result.line_offset == lineno + s1"),
                  ("carries-the-want-it-is-given", "(result.want_lines is None) == (want_lines is None) and "
                                                   "implies(want_lines is not None, result.want_lines == want_lines)")],
         props=["C01", "C08"], opts=_SLICE_OPTS,
         note="a part made from the statement lines [s1, s2) of the chunk",
         sentinel=("always-the-whole-chunk", "result.exec_lines == exec_source_lines"))

_B = "(break_linenos[len(break_linenos) - 1] if len(break_linenos) > 0 else 0)"
_LASTPS1 = "ps1_linenos[len(ps1_linenos) - 1]"
_EV = "ev_arg('slice_example', %s, '%s')"
contract(_P + "_package_chunk#slices",
         params={"self": "DoctestParser", "raw_source_lines": "list[str]", "raw_want_lines": "list[str]", "lineno": "int"},
         requires=[("a-chunk-has-a-source-line", "len(raw_source_lines) >= 1")],
         raises={"Exception*?": None},
         loops={0: LoopSpec(header="zip(ps1_linenos, ps1_linenos[1:] + [None])",
                            types={"break_linenos": "list[int]", "ps1_to_directive": "map[int,Val]"},
                            invariants=[("breaks-are-statement-starts",
                                         "all(0 <= b and b <= " + _LASTPS1 + " for b in break_linenos)")],
                            body_post=[("no-directive-no-break", "implies(len(directives) == 0, break_linenos == before(break_linenos))"),
                                       ("a-directive-starts-a-part",
                                        "implies(len(directives) > 0 and not (directives[0].inline and s2 is not None), "
                                        "break_linenos == before(break_linenos) + [s1] and s1 in ps1_to_directive)"),
                                       ("an-inline-directive-also-ends-its-part-at-the-next-statement",
                                        "implies(len(directives) > 0 and directives[0].inline and s2 is not None, "
                                        "break_linenos == before(break_linenos) + [s1, (s2 if s2 is not None else -1)] and s1 in ps1_to_directive)")]),
                1: LoopSpec(header="zip(ps1_linenos, ps1_linenos[1:])",
                            invariants=[("cursor", "s2 == (ps1_linenos[_i1] if _i1 > 0 else 0)")],
                            body_post=[("one-statement-one-part", "ev_count('slice_example') == 1 and " + _EV % (0, 's1') + " == ps1_linenos[_i1] and "
                                        + _EV % (0, 's2') + " == ps1_linenos[_i1 + 1] and ev_count('yield') == 1 and ev_arg('yield', 0, 'value') is example")]),
                2: LoopSpec(header="zip(break_linenos, break_linenos[1:])",
                            invariants=[("cursor", "s2 == (break_linenos[_i2] if _i2 > 0 else 0)")],
                            body_post=[("consecutive-forward-slices",
                                        "ev_count('slice_example') == 1 and " + _EV % (0, 's1') + " == break_linenos[_i2] and "
                                        + _EV % (0, 's2') + " == break_linenos[_i2 + 1] and break_linenos[_i2] < break_linenos[_i2 + 1] and "
                                        "ev_count('yield') == 1 and ev_arg('yield', 0, 'value') is example"),
                                       ("from-the-first-line", "implies(_i2 == 0, break_linenos[0] == 0)")])},
         props=["C01", "C04"],
         opts={"native": False,
               "exit_facts": [
                   ("rest-starts-where-the-directive-parts-ended",
                    "implies(not self.simulate_repl, " + _EV % (0, 's1') + " == " + _B + ")"),
                   ("last-statement-split-off-only-forward",
                    "implies(not self.simulate_repl and ev_count('slice_example') == 2, " + _EV % (0, 's2') + " == " + _LASTPS1 + " and "
                    + _EV % (-1, 's1') + " == " + _LASTPS1 + " and " + _B + " < " + _LASTPS1 + ")"),
                   ("at-most-one-split", "ev_count('slice_example') == 1 or (ev_count('slice_example') == 2 and not self.simulate_repl)"),
                   ("repl-rest-starts-at-the-last-statement",
                    "implies(self.simulate_repl, " + _EV % (0, 's1') + " == (" + _LASTPS1 + " if len(ps1_linenos) >= 2 else 0))"),
                   ("last-part-runs-to-the-end-and-carries-the-want",
                    _EV % (-1, 's2') + " is None and " + _EV % (-1, 'want_lines') + " == want_lines"),
                   ("every-part-is-yielded", "ev_count('yield') == ev_count('slice_example') and ev_arg('yield', -1, 'value') is example"),
                   ("compile-mode-of-the-last-part", "example.compile_mode == ('exec' if len(want_lines) == 0 else mode_hint)")]},
         note="the parts of a chunk are consecutive, forward, non-overlapping slices of its lines starting at line 0 and ending at its "
              "end: every statement line is in exactly one part, in order (C01); loop clauses give the slices made inside the loops, "
              "the exit facts the one or two made after them",
         sentinel=("one-part-per-chunk", "True == False"))


# ------------------------------------------------------------------------ C13.delta / C13.lines: the labeller
record("EnumIter", seq="list[str]", pos="int", start="int")
record("ReMatch", start_="int", end_="int")
tuple_record("LabeledLine", label="str", line="str")
tuple_record("CompletedLine", part="str", norm_line="str")

contract("xdoctest.parser:_complete_source",
         params={"line": "str", "state_indent": "int", "line_iter": "EnumIter"}, returns="reclist[CompletedLine]", trusted=True,
         modifies=["line_iter.pos"],
         ensures=[("one-pair-per-consumed-line", "len(result) == 1 + line_iter.pos - old(line_iter.pos)"),
                  ("only-forward", "line_iter.pos >= old(line_iter.pos) and line_iter.pos <= len(line_iter.seq)"),
                  ("starts-with-the-line-itself", "result[0].part == line and result[0].norm_line == S.substr(line, state_indent, len(line) - state_indent)")],
         raises={"Exception*?": None},
         note="assumed here (a generator driving tokenizer-based balance checks): yields the line, then one pair for every further line it "
              "takes from the shared iterator until the statement is complete; may raise (IncompleteParseError, SyntaxError, tokenizer errors)")

_FIRST = "labeled_lines[before(len(labeled_lines))]"
contract(_P + "_label_docsrc_lines#labels",
         params={"self": "DoctestParser", "string": "str"}, returns="recseq[LabeledLine]",
         requires=[("tabs-expanded", "'\\t' not in string")],
         raises={"Exception*?": None},
         ensures=[("every-line-labelled-once", "len(result) == len(S.source_lines(string))")],
         loops={0: LoopSpec(header="line_iter",
                            types={"labeled_lines": "recseq[LabeledLine]"},
                            invariants=[("one-label-per-consumed-line", "len(labeled_lines) == line_iter.pos"),
                                        ("the-lines-of-the-docstring", "line_iter.seq == S.source_lines(string)"),
                                        ("known-state", "prev_state == 'text' or prev_state == 'dsrc' or prev_state == 'dcnt' or prev_state == 'want'"),
                                        ("indent-of-the-open-example", "state_indent >= 0 and implies(prev_state == 'text', state_indent == 0)")],
                            body_post=[("label-follows-the-rule",
                                        _FIRST + ".label == S.next_label(before(prev_state), line, before(state_indent)) or "
                                        "(S.next_label(before(prev_state), line, before(state_indent)) == 'dsrc' and " + _FIRST + ".label == 'dcnt' "
                                        "and S.has_prompt(S.substr(line, state_indent, len(line) - state_indent), '...'))"),
                                       ("the-line-itself-is-kept", _FIRST + ".line == line"),
                                       ("state-carried", "prev_state == labeled_lines[len(labeled_lines) - 1].label")]),
                1: LoopSpec(header="_complete_source(line, state_indent, line_iter)",
                            types={"labeled_lines": "recseq[LabeledLine]"}, modifies=[],
                            entry_ghost={"base": "len(labeled_lines)", "labels0": "[x.label for x in labeled_lines]",
                                         "lines0": "[x.line for x in labeled_lines]", "state0": "curr_state"},
                            invariants=[("one-label-per-completed-line", "len(labeled_lines) == base + _i1"),
                                        ("earlier-labels-kept", "[x.label for x in labeled_lines][:base] == labels0 and "
                                                                "[x.line for x in labeled_lines][:base] == lines0"),
                                        ("source-labels-only", "curr_state == 'dsrc' or curr_state == 'dcnt'"),
                                        ("state-untouched-before-the-first-line", "implies(_i1 == 0, curr_state == state0)"),
                                        ("first-completed-line-is-labelled-first",
                                         "implies(_i1 >= 1, labeled_lines[base].line == _first1.part and labeled_lines[base].label == "
                                         "('dcnt' if S.has_prompt(_first1.norm_line, '...') else state0))"),
                                        ("last-label-is-the-state", "implies(_i1 >= 1, labeled_lines[len(labeled_lines) - 1].label == curr_state)")])},
         props=["C13"], opts={"native": False},
         note="labels follow the transition rule S.next_label written from the statement; every line of the docstring gets exactly one label",
         sentinel=("everything-is-text", "True == False"))


# ------------------------------------------------------------------------ C08.freeform: line of a freeform doctest
# parse() returns a list whose elements are text (str) or DoctestPart objects: a tagged record
record("DocTest", lineno="int", num="int", docsrc="str")
tagged_record("ParsedItem", {"str": "is_text"}, is_text="bool", text="str",
              exec_lines="list[str]", want_lines="Optional[list[str]]", line_offset="int", orig_lines="list[str]")
ASSTR["ParsedItem"] = "text"
CLASS_ALIAS["ParsedItem"] = "DoctestPart"

contract(_P + "__init__", params={"self": "DoctestParser", "simulate_repl": "bool"}, trusted=True, log=False,
         modifies=["self.simulate_repl"], note="T: stores the flag")
contract(_P + "parse#items", params={"self": "DoctestParser", "string": "str", "info": "Optional[Val]"},
         returns="reclist[ParsedItem]", trusted=True,
         raises={"DoctestParseError?": None},
         note="the same function as DoctestParser.parse (C14.wrap), seen as producing a list of text / part items")
contract("xdoctest.doctest_example:DocTest.__init__",
         params={"self": "DocTest", "docsrc": "str", "modpath": "Maybe[str]", "callname": "Maybe[str]", "num": "int", "lineno": "int",
                 "fpath": "Maybe[str]", "block_type": "Maybe[str]", "mode": "str"},
         modifies=["obj(self)"], raises={"AssertionError?": None},
         ensures=[("stores-the-line", "self.lineno == lineno"), ("stores-the-index", "self.num == num"),
                  ("stores-the-text", "self.docsrc == docsrc")],
         props=["C08"],
         opts={"native": False, "region": {"from": "self.docsrc = docsrc"}},
         note="region: from `self.docsrc = docsrc` to the end (the module-name resolution before it does not touch lineno / num)",
         sentinel=("line-is-one", "self.lineno == 1"))

contract("xdoctest.core:parse_freeform_docstr_examples.doctest_from_parts",
         params={"parts": "reclist[DoctestPart]", "num": "int", "curr_offset": "int", "docsrc": "str"}, returns="DocTest",
         requires=[("some-part", "len(parts) > 0")],
         raises={"AssertionError?": None},
         modifies=["field(parts, line_offset)"],
         ensures=[("line-of-the-doctest", "result.lineno == lineno + curr_offset"),
                  ("numbered", "result.num == num"),
                  ("first-part-starts-at-zero", "parts[0].line_offset == 0"),
                  ("parts-rebased", "all(parts[k].line_offset == old(parts[k].line_offset) - old(parts[0].line_offset) "
                                    "for k in range(len(parts)))")],
         loops={0: LoopSpec(header="parts", modifies=["field(parts, line_offset)"],
                            invariants=[("rebased-so-far", "all(parts[k].line_offset == old(parts[k].line_offset) - unoffset for k in range(_i0))"),
                                        ("rest-untouched", "all(parts[k].line_offset == old(parts[k].line_offset) for k in range(_i0, len(parts)))"),
                                        ("the-first-offset", "unoffset == old(parts[0].line_offset)")])},
         props=["C08"],
         opts={"native": False, "mutable_fields": ["DoctestPart.line_offset"],
               "closure": {"lineno": "int", "modpath": "Maybe[str]", "callname": "Maybe[str]", "fpath": "Maybe[str]"},
               "region": {"from": "example = doctest_example.DocTest("}},
         note="region: from the DocTest construction on (the re-joined source text before it is an arbitrary str here); the parts' "
              "offsets are rebased so that the first part starts at 0 (in-place writes to the elements: mutable_fields)",
         sentinel=("line-ignores-offset", "result.lineno == lineno"))

contract("xdoctest.core:parse_freeform_docstr_examples.doctest_from_parts#call",
         params={"parts": "idxlist[ParsedItem]", "num": "int", "curr_offset": "int"}, returns="Val", trusted=True,
         requires=[("some-part", "len(parts) > 0")],
         opts={"closure": {}},
         note="the caller's view of doctest_from_parts (verified above): the precondition is checked at the call; the rebasing of the "
              "parts' line_offset is not visible to the caller, which never reads line_offset")

_ISIZE = "((p.text.count('\\n') + 1) if p.is_text else (len(p.exec_lines) + (len(p.want_lines) if p.want_lines else 0)))"
_SIZES = "[" + _ISIZE + " for p in all_parts]"
contract("xdoctest.core:parse_freeform_docstr_examples#offsets",
         params={"docstr": "str", "callname": "Maybe[str]", "modpath": "Maybe[str]", "lineno": "int", "fpath": "Maybe[str]", "asone": "bool"},
         requires=[("one-doctest-per-docstring", "asone")],
         raises={"DoctestParseError?": None},
         loops={1: LoopSpec(header="all_parts",
                            types={"curr_parts": "idxlist[all_parts]"}, modifies=[],
                            invariants=[("first-kept-part-was-visited", "implies(len(curr_parts) > 0, 0 <= indices_of(curr_parts)[0] and indices_of(curr_parts)[0] < _i1)"),
                                        ("offset-counts-the-lines-before-the-first-kept-part",
                                         "curr_offset == S.int_sum(" + _SIZES + "[:(indices_of(curr_parts)[0] if len(curr_parts) > 0 else _i1)])"),
                                        ("one-example", "num == 0")])},
         props=["C08", "C07"],
         opts={"native": False,
               "use": {"xdoctest.parser:DoctestParser.parse": "xdoctest.parser:DoctestParser.parse#items",
                       "xdoctest.core:parse_freeform_docstr_examples.doctest_from_parts":
                           "xdoctest.core:parse_freeform_docstr_examples.doctest_from_parts#call"},
               "exit_facts": [("the-doctest-starts-at-its-first-kept-part",
                               "implies(ev_count('doctest_from_parts') == 1, ev_arg('doctest_from_parts', 0, 'curr_offset') == "
                               "S.int_sum(" + _SIZES + "[:indices_of(curr_parts)[0]]) and ev_arg('doctest_from_parts', 0, 'num') == 0)"),
                              ("one-doctest-iff-some-part-kept", "ev_count('doctest_from_parts') == (1 if len(curr_parts) > 0 else 0) and "
                                                                "ev_count('yield') == ev_count('doctest_from_parts')")]},
         note="freeform with asone=True: one doctest per docstring; its line is lineno + the number of docstring lines (text lines and "
              "skipped special-block parts) before its first kept part",
         sentinel=("offset-always-zero", "True == False"))


# ------------------------------------------------------------------------ C07.google / C08.google: one doctest per example block
tuple_record("BlockBody", docsrc="str", offset="int")
tuple_record("GoogleBlock", type="str", block="BlockBody")
contract("xdoctest.docstr.docscrape_google:split_google_docblocks", params={"docstr": "str"}, returns="reclist[GoogleBlock]",
         trusted=True, raises={"MalformedDocstr?": None, "Exception*?": None},
         note="assumed here: the (label, (text, line offset of the label)) blocks of a google-style docstring, in order")
from pyvc.contracts import CONTRACTS as _CONTRACTS
if "xdoctest.doctest_example:DocTest._parse" not in _CONTRACTS:      # contracts/doctest_example.py declares it too
    contract("xdoctest.doctest_example:DocTest._parse", params={"self": "DocTest"}, trusted=True, raises={"Exception*?": None},
             modifies=["obj(self)"], note="assumed here: parses the text of the doctest into parts (C13/C14)")
_ISEX = "(b.type.startswith('Example') or b.type.startswith('Doctest') or b.type.startswith('Script') or b.type.startswith('Benchmark'))"
_DT = "ev_arg('DocTest.__init__', 0, '%s')"
contract("xdoctest.core:parse_google_docstr_examples#blocks",
         params={"docstr": "str", "callname": "Maybe[str]", "modpath": "Maybe[str]", "lineno": "int", "fpath": "Maybe[str]",
                 "eager_parse": "bool"},
         raises={"MalformedDocstr?": None, "Exception*?": None},
         loops={0: LoopSpec(header="blocks", types={"example_blocks": "idxlist[blocks]"},
                            invariants=[("the-example-blocks-so-far",
                                         "example_blocks == S.true_indices([" + _ISEX + " for b in blocks[:_i0]])")]),
                1: LoopSpec(header="enumerate(example_blocks)", invariants=[], modifies=[],
                            body_post=[("one-doctest-per-example-block",
                                        "ev_count('DocTest.__init__') == 1 and " + _DT % "docsrc" + " == docsrc and "
                                        + _DT % "num" + " == _i1 and " + _DT % "block_type" + " == type and "
                                        + _DT % "lineno" + " == lineno + offset + 1 and "
                                        "ev_count('yield') == 1 and ev_arg('yield', 0, 'value') is example")])},
         props=["C07", "C08"],
         opts={"native": False,
               "exit_facts": [("all-example-blocks-in-order",
                               "example_blocks == S.true_indices([" + _ISEX + " for b in blocks])")]},
         note="google style: exactly the blocks labelled Example / Doctest / Script / Benchmark become doctests, in order, numbered "
              "0, 1, ..; each starts on the line after its label (lineno + offset + 1)",
         sentinel=("numbered-from-one", "True == False"))


contract("xdoctest.core:parse_auto_docstr_examples#dispatch",
         params={"docstr": "str"},
         raises={"DoctestParseError?": None, "MalformedDocstr?": None},
         loops={0: LoopSpec(header="parse_google_docstr_examples(docstr, *args, **kwargs)", modifies=[],
                            invariants=[("counted", "n_found == _i0")],
                            body_post=[("google-doctests-are-passed-on", "ev_count('yield') == 1 and ev_arg('yield', 0, 'value') is example")]),
                1: LoopSpec(header="parse_freeform_docstr_examples(docstr, *args, **kwargs)", modifies=[], invariants=[],
                            body_post=[("freeform-doctests-are-passed-on", "ev_count('yield') == 1 and ev_arg('yield', 0, 'value') is example")])},
         props=["C07"],
         opts={"native": False,
               "exit_facts": [("google-first", "ev_count('parse_google_docstr_examples') == 1"),
                              ("freeform-exactly-when-google-found-nothing",
                               "ev_count('parse_freeform_docstr_examples') == (1 if n_found == 0 else 0)")]},
         note="auto style: the google blocks when there are any, otherwise (none found, or the google parser failed before yielding) "
              "freeform; a callee generator is seen as returning its whole list or raising before the first item (a failure after the "
              "first item is not modelled); *args / **kwargs empty",
         sentinel=("always-freeform", "True == False"))
