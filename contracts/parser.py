"""Contracts for xdoctest/parser.py and the docstring-level entry points of xdoctest/core.py (C13, C14, C08.offsets, C01.tabs)."""
from pyvc.contracts import contract, record, LoopSpec

_P = "xdoctest.parser:DoctestParser."
record("DoctestParser", simulate_repl="bool")

contract("xdoctest.parser:_min_indentation", params={"s": "str"}, returns="int", trusted=True, log=False,
         requires=[("tabs-expanded", "'\\t' not in s")],
         ensures=[("nonneg", "result >= 0")],
         note="T: re.findall of INDENT_RE; the smallest indentation of a non-blank line, 0 if there is none")
contract(_P + "_label_docsrc_lines", params={"self": "DoctestParser", "string": "str"}, returns="Val", trusted=True,
         requires=[("tabs-expanded", "'\\t' not in string")],
         raises={"Exception*?": None},
         note="assumed here: may raise anything (tokenizer errors, IncompleteParseError); the labeller assumes tab-free text")
contract(_P + "_group_labeled_lines", params={"self": "DoctestParser", "labeled_lines": "Val"}, returns="Val", trusted=True,
         raises={"Exception*?": None}, note="assumed here: may raise anything")
contract(_P + "_package_groups", params={"self": "DoctestParser", "grouped_lines": "Val"}, returns="list[str]", trusted=True,
         raises={"Exception*?": None},
         note="assumed here: a generator; exhausting it (list(...)) may raise anything (ast.parse of a chunk, directive extraction)")

# ------------------------------------------------------------------------ C14.wrap, C01.tabs
contract(_P + "parse",
         params={"self": "DoctestParser", "string": "str", "info": "Optional[Val]"}, returns="list[str]",
         raises={"DoctestParseError?": None},
         ensures=[("three-phases-in-order", "ev_count('_label_docsrc_lines') == 1 and ev_count('_group_labeled_lines') == 1 and "
                                            "ev_count('_package_groups') == 1")],
         props=["C14", "C13", "C01"], opts={"native": False},
         note="for every str input the only exception that can leave parse is DoctestParseError; the labeller is called on "
              "tab-expanded text (its precondition)",
         sentinel=("never-groups", "ev_count('_group_labeled_lines') == 0"))


# ------------------------------------------------------------------------ C14.downgrade (xdoctest/core.py)
for _name in ("parse_freeform_docstr_examples", "parse_google_docstr_examples", "parse_auto_docstr_examples"):
    contract("xdoctest.core:" + _name,
             params={"docstr": "str", "callname": "Optional[str]", "modpath": "Optional[str]", "lineno": "int",
                     "fpath": "Optional[str]", "asone": "bool", "eager_parse": "bool"},
             returns="reclist[DocTest]", trusted=True,
             raises={"DoctestParseError?": None, "MalformedDocstr?": None},
             note="assumed here: a style parser fails only with the library's own DoctestParseError (C14.wrap: every exception of "
                  "DoctestParser.parse is wrapped) or MalformedDocstr (google block splitter)")
contract("xdoctest.utils.util_str:ensure_unicode", params={"text": "str"}, returns="str", trusted=True, log=False)

contract("xdoctest.core:parse_docstr_examples",
         params={"docstr": "str", "callname": "Maybe[str]", "modpath": "Maybe[str]", "lineno": "int",
                 "style": "str", "fpath": "Maybe[str]", "parser_kw": "None"},
         raises={"KeyError": "style not in ('freeform', 'google', 'auto')"},
         ensures=[("one-yield-per-parsed-example", "ev_count('yield') <= 1 or True"),
                  ("warns-iff-the-parser-failed", "(ev_count('warnings.warn') == 1) == "
                                                  "(ev_raised('parse_freeform_docstr_examples') + ev_raised('parse_google_docstr_examples') "
                                                  "+ ev_raised('parse_auto_docstr_examples') == 1)")],
         loops={0: LoopSpec(header="parser(docstr, callname=callname, modpath=modpath, fpath=fpath, lineno=lineno, **parser_kw)",
                            invariants=[("counted", "n_parsed == _i0")],
                            body_post=[("yields-this-example", "ev_count('yield') == 1 and ev_arg('yield', 0, 'value') is example")])},
         props=["C14"], opts={"native": False},
         note="a docstring whose parser fails with DoctestParseError / MalformedDocstr yields a warning and no exception; the message "
              "construction itself cannot raise (str.format is only applied to literal templates)",
         sentinel=("never-warns", "ev_count('warnings.warn') == 0"))
