"""Contracts for xdoctest/directive.py (C04, C11.fresh)."""
from pyvc.contracts import contract, record, tuple_record, LoopSpec, RECORDS

# one record, two views: `state` is the abstract value DocTest.run sees (contracts/doctest_example.py);
# the two dicts are what the methods below really manipulate
RECORDS.setdefault("RuntimeState", {}).update({"_global_state": "flagdict", "_inline_state": "flagdict"})
record("Directive", name="str", positive="bool", inline="Optional[bool]", args="list[str]")
tuple_record("Effect", action="str", key="str", value="Val")

_Q = "xdoctest.directive:RuntimeState."
G = "self._global_state"
I = "self._inline_state"
_REP = [("global-has-REQUIRES", "'REQUIRES' in " + G)]

# ------------------------------------------------------------------------ C11.fresh
contract(_Q + "__init__#concrete",
         params={"self": "RuntimeState", "default_state": "Optional[flagdict]"},
         requires=[("defaults-carry-no-REQUIRES", "default_state is None or 'REQUIRES' not in default_state")],
         modifies=["self._global_state", "self._inline_state"],
         ensures=[("inline-empty", "forall_str(lambda k: k not in " + I + ")"),
                  ("keys", "forall_str(lambda k: (k in " + G + ") == (k in DEFAULT_RUNTIME_STATE or "
                           "(default_state is not None and k in default_state)))"),
                  ("flags", "forall_str(lambda k: implies(k in " + G + " and k != 'REQUIRES', flags_of(" + G + ")[k] == "
                            "(flags_of(default_state)[k] if (default_state is not None and k in default_state) "
                            "else flags_of(DEFAULT_RUNTIME_STATE)[k])))"),
                  ("requires-copied", G + "['REQUIRES'] == old(DEFAULT_RUNTIME_STATE['REQUIRES'])"),
                  # C11.fresh: nothing mutable is shared with the module-level defaults or with the caller's dict
                  ("own-set", G + "['REQUIRES'] is not DEFAULT_RUNTIME_STATE['REQUIRES']"),
                  ("own-dict", G + " is not DEFAULT_RUNTIME_STATE and " + G + " is not default_state and " + I + " is not " + G),
                  ("defaults-untouched", "flags_of(DEFAULT_RUNTIME_STATE) == old(flags_of(DEFAULT_RUNTIME_STATE)) and "
                                         "DEFAULT_RUNTIME_STATE['REQUIRES'] == old(DEFAULT_RUNTIME_STATE['REQUIRES'])")],
         props=["C11", "C04"], opts={"native": False},
         sentinel=("shares-the-default-set", G + "['REQUIRES'] is DEFAULT_RUNTIME_STATE['REQUIRES']"))

# ------------------------------------------------------------------------ C04.lookup
contract(_Q + "__getitem__",
         params={"self": "RuntimeState", "key": "str"}, returns="Val",
         requires=_REP + [("overlay-within-known-keys", "forall_str(lambda k: implies(k in " + I + ", k in " + G + "))")],
         modifies=[],
         ensures=[("flag-lookup", "implies(key != 'REQUIRES', result == (flags_of(" + I + ")[key] if key in " + I +
                                  " else flags_of(" + G + ")[key]))"),
                  ("set-lookup-overlay", "implies(key == 'REQUIRES' and 'REQUIRES' in " + I + ", result is " + I + "['REQUIRES'])"),
                  ("set-lookup-persistent", "implies(key == 'REQUIRES' and 'REQUIRES' not in " + I + ", result is " + G + "['REQUIRES'])")],
         raises={"KeyError": "key not in " + G},
         props=["C04"], opts={"native": False},
         sentinel=("ignores-the-overlay", "implies(key != 'REQUIRES', result == flags_of(" + G + ")[key])"))

contract(_Q + "__setitem__",
         params={"self": "RuntimeState", "key": "str", "value": "bool"},
         requires=[("not-the-set", "key != 'REQUIRES'")],
         modifies=["flags(self._global_state)"],
         ensures=[("stored", "flags_of(" + G + ") == old(flags_of(" + G + ")).set(key, value)")],
         raises={"KeyError": "key not in old(" + G + ")"},
         props=["C04"], opts={"native": False})

# ------------------------------------------------------------------------ C04.effects
contract("xdoctest.directive:_is_requires_satisfied",
         params={"arg": "str", "argv": "Optional[Val]", "environ": "Optional[Val]"}, returns="bool", trusted=True, log=False,
         ensures=[("oracle", "result == S.requires_satisfied(arg)")],
         raises={"Exception*?": None},
         note="T: looks at sys.argv / os.environ / importable modules / platform; may raise on an unknown condition code")

_ACT = "('set.add' if self.positive else 'set.remove')"
contract("xdoctest.directive:Directive.effects",
         params={"self": "Directive", "argv": "Optional[Val]", "environ": "Optional[Val]"}, returns="recseq[Effect]",
         modifies=[],
         ensures=[("keyed-by-name", "all(e.key == self.name for e in result)"),
                  ("requires-one-effect-per-argument",
                   "implies(self.name == 'REQUIRES', len(result) == len(self.args) and "
                   "all((result[j].action == 'noop' if S.requires_satisfied(self.args[j]) else result[j].action == " + _ACT + ") "
                   "and S.val_str(result[j].value) == self.args[j] for j in range(0, len(self.args))))"),
                  ("report-style", "implies(self.name != 'REQUIRES' and self.name.startswith('REPORT_'), len(result) == 1 and "
                                   "result[0].action == ('noop' if self.positive else 'set_report_style'))"),
                  ("flag-assign", "implies(self.name != 'REQUIRES' and not self.name.startswith('REPORT_'), len(result) == 1 and "
                                  "result[0].action == 'assign' and S.val_bool(result[0].value) == self.positive)")],
         raises={"Exception*?": "self.name == 'REQUIRES'"},
         loops={0: LoopSpec(
             header="self.args",
             types={"effects": "recseq[Effect]"},
             invariants=[("one-per-arg", "len(effects) == _i0"),
                         ("so-far", "all(effects[j].key == 'REQUIRES' and S.val_str(effects[j].value) == self.args[j] and "
                                    "(effects[j].action == 'noop' if S.requires_satisfied(self.args[j]) else effects[j].action == " + _ACT + ") "
                                    "for j in range(0, _i0))")])},
         props=["C04"], opts={"native": False},
         sentinel=("always-assign", "all(e.action == 'assign' for e in result)"))

# ------------------------------------------------------------------------ C04.update
contract(_Q + "set_report_style#concrete",
         params={"self": "RuntimeState", "reportchoice": "str", "state": "Optional[Val]"}, trusted=True, log=False,
         modifies=["flags(self._global_state)"],
         ensures=[("non-report-flags-kept", "forall_str(lambda k: implies(not k.startswith('REPORT_'), "
                                            "(k in " + G + ") == old(k in " + G + ") and flags_of(" + G + ")[k] == old(flags_of(" + G + "))[k]))")],
         note="assumed: only REPORT_* entries of the persistent dict change (loop over the keys of a dict with symbolic key set); "
              "REPORT_* is outside the quantifier of C04")

_INL = "(directive.inline is not None and directive.inline)"
_UNCH_G = "flags_of(" + G + ") == before(flags_of(" + G + ")) and " + G + "['REQUIRES'] == before(" + G + "['REQUIRES'])"
_UNCH_I = ("flags_of(" + I + ") == before(flags_of(" + I + ")) and "
           "implies('REQUIRES' in " + I + ", " + I + "['REQUIRES'] == before(" + I + "['REQUIRES']))")
_EFFECT_CLAUSES = [
    ("noop-changes-nothing", "implies(action == 'noop', " + _UNCH_G + " and " + _UNCH_I + ")"),
    # the heart of C04: an inline directive never touches the persistent state
    ("inline-leaves-persistent-state", "implies(" + _INL + " and action != 'set_report_style', " + _UNCH_G + ")"),
    ("block-leaves-overlay", "implies(not " + _INL + " and action != 'set_report_style', " + _UNCH_I + ")"),
    ("block-assign", "implies(not " + _INL + " and action == 'assign', flags_of(" + G + ") == before(flags_of(" + G + ")).set(key, S.val_bool(value)) "
                     "and " + G + "['REQUIRES'] == before(" + G + "['REQUIRES']))"),
    ("inline-assign", "implies(" + _INL + " and action == 'assign', flags_of(" + I + ") == before(flags_of(" + I + ")).set(key, S.val_bool(value)))"),
    ("block-add", "implies(not " + _INL + " and action == 'set.add', " + G + "['REQUIRES'] == before(" + G + "['REQUIRES']).with_(S.val_str(value)) "
                  "and flags_of(" + G + ") == before(flags_of(" + G + ")))"),
    ("block-remove", "implies(not " + _INL + " and action == 'set.remove', " + G + "['REQUIRES'] == before(" + G + "['REQUIRES']).without(S.val_str(value)) "
                     "and flags_of(" + G + ") == before(flags_of(" + G + ")))"),
    ("inline-add-first", "implies(" + _INL + " and action == 'set.add' and before('REQUIRES' not in " + I + "), 'REQUIRES' in " + I + " and "
                         + I + "['REQUIRES'] == before(" + G + "['REQUIRES']).with_(S.val_str(value)))"),
    ("inline-add-again", "implies(" + _INL + " and action == 'set.add' and before('REQUIRES' in " + I + "), 'REQUIRES' in " + I + " and "
                         + I + "['REQUIRES'] == before(" + I + "['REQUIRES']).with_(S.val_str(value)))"),
    ("inline-remove-first", "implies(" + _INL + " and action == 'set.remove' and before('REQUIRES' not in " + I + "), 'REQUIRES' in " + I + " and "
                            + I + "['REQUIRES'] == before(" + G + "['REQUIRES']).without(S.val_str(value)))"),
    ("inline-remove-again", "implies(" + _INL + " and action == 'set.remove' and before('REQUIRES' in " + I + "), 'REQUIRES' in " + I + " and "
                            + I + "['REQUIRES'] == before(" + I + "['REQUIRES']).without(S.val_str(value)))"),
    ("own-set-objects", I + "['REQUIRES'] is not " + G + "['REQUIRES']"),
]
_EFFECTS_WF = ("all(e.action in ('noop', 'assign', 'set.add', 'set.remove', 'set_report_style') and "
               "implies(e.action == 'assign', e.key != 'REQUIRES') and "
               "implies(e.action == 'set.add' or e.action == 'set.remove', e.key == 'REQUIRES') for e in effects_)")

contract(_Q + "update#concrete",
         params={"self": "RuntimeState", "directives": "reclist[Directive]"},
         requires=_REP,
         modifies=["obj(self._global_state)", "obj(self._inline_state)"],
         ensures=[("no-directive-clears-the-overlay", "implies(len(directives) == 0, forall_str(lambda k: k not in " + I + ") and "
                                                      "flags_of(" + G + ") == old(flags_of(" + G + ")) and " + G + "['REQUIRES'] == old(" + G + "['REQUIRES']))"),
                  ("global-keeps-REQUIRES", "'REQUIRES' in " + G)],
         raises={"Exception*?": None},
         loops={0: LoopSpec(header="directives", modifies=["obj(self._global_state)", "obj(self._inline_state)"],
                            invariants=_REP + [("own-set-objects", I + "['REQUIRES'] is not " + G + "['REQUIRES']"),
                                               ("nothing-yet", "implies(_i0 == 0, forall_str(lambda k: k not in " + I + ") and "
                                                               "flags_of(" + G + ") == old(flags_of(" + G + ")) and "
                                                               + G + "['REQUIRES'] == old(" + G + "['REQUIRES']))")]),
                1: LoopSpec(header="directive.effects()", modifies=["obj(self._global_state)", "obj(self._inline_state)"],
                            invariants=_REP + [("own-set-objects", I + "['REQUIRES'] is not " + G + "['REQUIRES']")],
                            body_post=_EFFECT_CLAUSES)},
         props=["C04", "C11"],
         opts={"native": False, "use": {"xdoctest.directive:RuntimeState.set_report_style": _Q + "set_report_style#concrete"}},
         sentinel=("inline-writes-persistent", "implies(len(directives) == 1, flags_of(" + G + ") != old(flags_of(" + G + ")))"))
