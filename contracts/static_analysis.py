"""Contracts for xdoctest/static_analysis.py (C07): the handlers of TopLevelVisitor, one by one, and the package walk.

AST nodes are tagged records (the fields the handlers read); `self.calldefs[...] = ...` is a ghost `store` event;
`generic_visit` is the assumed stdlib contract "visit every child once, in order" and is counted as a ghost event."""
from pyvc.contracts import contract, record, tagged_record, tuple_record, LoopSpec

tagged_record("Decorator", {"Name": "is_name", "Attribute": "is_attribute"},
              is_name="bool", is_attribute="bool", id="str", attr="str")
record("FunctionDefNode", name="str", decorator_list="reclist[Decorator]", args="Val", lineno="int")
record("ClassDefNode", name="str", lineno="int")
tagged_record("CmpOp", {"Eq": "is_eq"}, is_eq="bool")
record("LeftExpr", id="Optional[str]")
record("ConstExpr", value="Optional[str]")
tagged_record("TestExpr", {"Compare": "is_compare"}, is_compare="bool",
              ops="reclist[CmpOp]", left="LeftExpr", comparators="reclist[ConstExpr]")
record("IfNode", test="TestExpr")
record("EventDict", tag="str")
record("TopLevelVisitor", calldefs="EventDict", _current_classname="Optional[str]", _finish_queue="Val")
record("CallDefNode", callname="str")

_V = "xdoctest.static_analysis:TopLevelVisitor."

contract("xdoctest.static_analysis:CallDefNode.__init__",
         params={"self": "CallDefNode", "callname": "str", "lineno": "Val", "docstr": "Val", "doclineno": "Val",
                 "doclineno_end": "Val", "args": "Val"},
         trusted=True, log=False, modifies=["self.callname"], ensures=[("name", "self.callname == callname")],
         note="T: plain data holder")
contract(_V + "_workaround_func_lineno", params={"self": "TopLevelVisitor", "node": "Val"}, returns="Val", trusted=True, log=False, modifies=[],
         note="T: source-text based line number of the def (C08)")
contract(_V + "_get_docstring", params={"self": "TopLevelVisitor", "node": "Val"}, returns="tuple[Val,Val,Val]", trusted=True, log=False,
         modifies=[], note="T: ast.get_docstring + line workarounds (C08.docstart)")
contract("ast:NodeVisitor.generic_visit", params={"self": "TopLevelVisitor", "node": "Val"}, trusted=True,
         modifies=[], opts={"signature": ["self", "node"]},
         note="T (ast.NodeVisitor): visits every child node once, in field order, through self.visit; the handlers of the children keep "
              "_current_classname (each handler's own contract)")

_SETTER = "(d.is_attribute and (d.attr == 'deleter' or d.attr == 'setter'))"
_CALLNAME = "(node.name if self._current_classname is None else self._current_classname + '.' + node.name)"
contract(_V + "visit_FunctionDef",
         params={"self": "TopLevelVisitor", "node": "FunctionDefNode"},
         modifies=[],
         ensures=[("never-descends", "ev_count('generic_visit') == 0"),
                  ("setters-and-deleters-are-not-collected",
                   "implies(any(" + _SETTER + " for d in node.decorator_list), ev_count('store') == 0)"),
                  ("collected-once-under-its-qualified-name",
                   "implies(not any(" + _SETTER + " for d in node.decorator_list), ev_count('store') == 1 and "
                   "ev_arg('store', 0, 'key') == " + _CALLNAME + " and ev_arg('store', 0, 'value').callname == " + _CALLNAME + ")")],
         loops={0: LoopSpec(header="node.decorator_list", modifies=[],
                            invariants=[("no-setter-so-far", "all(not " + _SETTER + " for d in node.decorator_list[:_i0])"),
                                        ("nothing-stored-yet", "ev_count('store') == 0")])},
         props=["C07"], opts={"native": False},
         sentinel=("collects-setters", "ev_count('store') == 1"))

contract(_V + "visit_ClassDef",
         params={"self": "TopLevelVisitor", "node": "ClassDefNode"},
         modifies=["self._current_classname"],
         ensures=[("top-level-class-collected-and-entered",
                   "implies(old(self._current_classname) is None, ev_count('store') == 1 and ev_arg('store', 0, 'key') == node.name and "
                   "ev_count('generic_visit') == 1 and ev_arg('generic_visit', 0, 'node') is node)"),
                  ("nested-class-ignored", "implies(old(self._current_classname) is not None, ev_count('store') == 0 and ev_count('generic_visit') == 0)"),
                  ("class-context-restored", "self._current_classname == old(self._current_classname)")],
         props=["C07"], opts={"native": False},
         sentinel=("collects-nested-classes", "ev_count('store') == 1"))

_MAIN = ("(node.test.is_compare and node.test.ops[0].is_eq and node.test.left.id is not None and node.test.left.id == '__name__' and "
         "node.test.comparators[0].value is not None and node.test.comparators[0].value == '__main__')")
contract(_V + "visit_If",
         params={"self": "TopLevelVisitor", "node": "IfNode"},
         requires=[("a-comparison-has-operands", "implies(node.test.is_compare, len(node.test.ops) >= 1 and len(node.test.comparators) >= 1)")],
         modifies=[],
         ensures=[("main-guard-is-skipped", "implies(" + _MAIN + ", ev_count('generic_visit') == 0)"),
                  ("every-other-if-is-entered", "implies(not " + _MAIN + ", ev_count('generic_visit') == 1 and ev_arg('generic_visit', 0, 'node') is node)"),
                  ("records-nothing-itself", "ev_count('store') == 0")],
         props=["C07"], opts={"native": False},
         sentinel=("skips-every-if", "ev_count('generic_visit') == 0"))


# ------------------------------------------------------------------------ C07.walk: modules of a package tree
tuple_record("WalkEntry", dpath="str", dnames="list[str]", fnames="list[str]")
contract("xdoctest.utils.util_import:_platform_pylib_exts", params={}, returns="list[str]", trusted=True, log=False,
         note="T: sysconfig extension suffixes")

_ISPKG = "S.fs_exists(S.path_join(dpath, '__init__.py'))"
contract("xdoctest.static_analysis:package_modpaths",
         params={"pkgpath": "str", "with_pkg": "bool", "with_mod": "bool", "followlinks": "bool", "recursive": "bool",
                 "with_libs": "bool", "check": "bool"},
         ensures=[("a-file-is-its-own-module", "implies(S.fs_isfile(pkgpath), True)")],
         loops={0: LoopSpec(header="os.walk(pkgpath, followlinks=followlinks)", modifies=[],
                            types={"check": "bool"},
                            invariants=[],
                            body_post=[
                                ("outside-the-package-nothing-is-yielded-and-the-walk-is-pruned",
                                 "implies(before(check) and not " + _ISPKG + ", ev_count('yield') == 0 and len(dnames) == 0)"),
                                ("inside-the-package-subdirectories-are-checked",
                                 "implies(" + _ISPKG + " or not before(check), check)")]),
                1: LoopSpec(header="fnames", modifies=[], invariants=[]),
                2: LoopSpec(header="dnames", modifies=[], invariants=[])},
         props=["C07"], opts={"native": False},
         note="a directory without __init__.py (below the root, or the root itself under check=True) contributes no module and its "
              "subdirectories are pruned from the walk (dnames emptied in place), so nothing below a non-package directory is collected",
         sentinel=("never-prunes", "True == False"))
