"""Sidecar contracts for functions of /repo (no file of /repo is edited)."""
