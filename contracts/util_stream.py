"""Contracts for xdoctest/utils/util_stream.py (C01.stdout, C12.stdout)."""
from pyvc.contracts import contract, record

record("TeeStringIO", buf="str", pos="int")
record("CaptureStdout", enabled="bool", suppress="bool", orig_stdout="Val", cap_stdout="TeeStringIO",
       text="Optional[str]", _pos="int", parts="list[str]", started="bool")

G = {"sys.stdout": "Val"}
Q = "xdoctest.utils.util_stream:CaptureStdout."

contract(Q + "start",
         params={"self": "CaptureStdout"}, globals=G,
         modifies=["self.text", "self.started", "sys.stdout"],
         ensures=[("redirected", "implies(self.enabled, sys.stdout is self.cap_stdout and self.text == '' and self.started)"),
                  ("disabled-noop", "implies(not self.enabled, sys.stdout is old(sys.stdout) and self.text == old(self.text) "
                                    "and self.started == old(self.started))")],
         props=["C12", "C01"], opts={"native": False, "global_alias": {"sys.stdout": [("self.enabled", "self.cap_stdout"), ("not self.enabled", "old(sys.stdout)")]}})

contract(Q + "stop",
         params={"self": "CaptureStdout"}, globals=G,
         modifies=["self.started", "sys.stdout"],
         ensures=[("restored", "implies(self.enabled, sys.stdout is self.orig_stdout and not self.started)"),
                  ("disabled-noop", "implies(not self.enabled, sys.stdout is old(sys.stdout) and self.started == old(self.started))")],
         props=["C12"], opts={"native": False, "global_alias": {"sys.stdout": [("self.enabled", "self.orig_stdout"), ("not self.enabled", "old(sys.stdout)")]}},
         sentinel=("keeps-capture-stream", "sys.stdout is self.cap_stdout"))

contract(Q + "log_part",
         params={"self": "CaptureStdout"}, globals=G,
         requires=[("pos-in-buffer", "0 <= self._pos and self._pos <= len(self.cap_stdout.buf)")],
         modifies=["self.cap_stdout.pos", "self._pos", "self.parts", "self.text"],
         ensures=[("text", "self.text == S.substr(self.cap_stdout.buf, old(self._pos), len(self.cap_stdout.buf) - old(self._pos))"),
                  ("pos", "self._pos == len(self.cap_stdout.buf)"),
                  ("parts", "self.parts == old(self.parts) + [self.text]")],
         props=["C01"], opts={"native": False})

contract(Q + "__enter__",
         params={"self": "CaptureStdout"}, returns="CaptureStdout", globals=G,
         modifies=["self.text", "self.started", "sys.stdout"],
         ensures=[("self", "result is self"),
                  ("redirected", "implies(self.enabled, sys.stdout is self.cap_stdout and self.text == '')"),
                  ("disabled-noop", "implies(not self.enabled, sys.stdout is old(sys.stdout) and self.text == old(self.text))")],
         props=["C12", "C01"], opts={"native": False, "result_alias": {None: "self"}, "global_alias": {"sys.stdout": [("self.enabled", "self.cap_stdout"), ("not self.enabled", "old(sys.stdout)")]}})

contract(Q + "__exit__",
         params={"self": "CaptureStdout", "type_": "Optional[Val]", "value": "Optional[Val]", "trace": "Optional[Val]"},
         returns="Optional[bool]", globals=G,
         requires=[("pos-in-buffer", "0 <= self._pos and self._pos <= len(self.cap_stdout.buf)")],
         modifies=["self.cap_stdout.pos", "self._pos", "self.parts", "self.text", "self.started", "sys.stdout"],
         ensures=[("never-swallows", "not result"),
                  ("restored", "implies(self.enabled, sys.stdout is self.orig_stdout)"),
                  ("text", "implies(self.enabled, self.text == S.substr(self.cap_stdout.buf, old(self._pos), "
                           "len(self.cap_stdout.buf) - old(self._pos)) and self._pos == len(self.cap_stdout.buf))"),
                  ("disabled-noop", "implies(not self.enabled, sys.stdout is old(sys.stdout) and self.text == old(self.text))")],
         props=["C12", "C01"], opts={"native": False, "global_alias": {"sys.stdout": [("self.enabled", "self.orig_stdout"), ("not self.enabled", "old(sys.stdout)")]}},
         sentinel=("leaves-capture-installed", "implies(self.enabled, sys.stdout is self.cap_stdout)"))


contract("xdoctest.utils.util_stream:TeeStringIO.__init__",
         params={"self": "TeeStringIO", "redirect": "Optional[Val]"}, trusted=True, log=False,
         modifies=["self.buf", "self.pos"],
         ensures=[("empty", "self.buf == '' and self.pos == 0")],
         note="T: io.StringIO() starts empty at position 0")

contract(Q + "__init__",
         params={"self": "CaptureStdout", "suppress": "bool", "enabled": "bool"}, globals=G, log=False,
         modifies=["self.enabled", "self.suppress", "self.orig_stdout", "self.cap_stdout", "self.text", "self._pos",
                   "self.parts", "self.started"],
         ensures=[("remembers-current-stdout", "self.orig_stdout is sys.stdout"),
                  ("flags", "self.enabled == enabled and self.suppress == suppress and not self.started"),
                  ("nothing-logged", "self._pos == 0 and self.cap_stdout.buf == '' and self.text is None"),
                  ("stdout-untouched", "sys.stdout is old(sys.stdout)")],
         props=["C12", "C01"], opts={"native": False})
