"""Contracts for xdoctest/utils/util_import.py (C12.syspath, C17)."""
from pyvc.contracts import contract, record

record("PythonPathContext", dpath="str", index="int")

GP = {"sys.path": "list[str]"}
Q = "xdoctest.utils.util_import:PythonPathContext."

contract(Q + "__enter__",
         params={"self": "PythonPathContext"}, globals=GP,
         modifies=["self.index", "sys.path"],
         ensures=[("index-normalised", "self.index == (old(self.index) if old(self.index) >= 0 else len(old(sys.path)) + old(self.index) + 1)"),
                  ("inserted", "sys.path == old(sys.path)[:self.index] + [self.dpath] + old(sys.path)[self.index:]"),
                  ("append-for-minus-one", "implies(old(self.index) == -1, sys.path == old(sys.path) + [self.dpath])"),
                  ("front-for-zero", "implies(old(self.index) == 0, sys.path == [self.dpath] + old(sys.path))")],
         props=["C12", "C17"], opts={"native": False})

contract(Q + "__exit__",
         params={"self": "PythonPathContext", "ex_type": "Val", "ex_value": "Val", "ex_traceback": "Val"},
         returns="None", globals=GP,
         requires=[("index-normalised", "0 <= self.index")],
         modifies=["sys.path"],
         ensures=[("in-place", "implies(self.index < len(old(sys.path)) and old(sys.path)[self.index] == self.dpath, "
                               "sys.path == old(sys.path)[:self.index] + old(sys.path)[self.index + 1:])"),
                  ("recovered", "implies(not (self.index < len(old(sys.path)) and old(sys.path)[self.index] == self.dpath), "
                                "sys.path == old(sys.path)[:S.first_index(old(sys.path), self.dpath)] + "
                                "old(sys.path)[S.first_index(old(sys.path), self.dpath) + 1:])"),
                  ("one-shorter", "len(sys.path) == len(old(sys.path)) - 1")],
         raises={"RuntimeError": "self.dpath not in old(sys.path)"},
         props=["C12", "C17"], opts={"native": False},
         sentinel=("pops-last", "sys.path == old(sys.path)[:len(old(sys.path)) - 1]"))

contract("xdoctest.utils.util_import:PythonPathContext.__init__",
         params={"self": "PythonPathContext", "dpath": "str", "index": "int"},
         modifies=["self.dpath", "self.index"],
         ensures=[("fields", "self.dpath == dpath and self.index == index")],
         props=["C12"], opts={"native": False})

contract("xdoctest.utils.util_import:split_modpath",
         params={"modpath": "str", "check": "bool"}, returns="tuple[str,str]", trusted=True,
         raises={"ValueError?": None},
         note="T here (file system); its own contract is part of C17")

contract("xdoctest.utils.util_import:modpath_to_modname",
         params={"modpath": "str", "hide_init": "bool", "hide_main": "bool", "check": "bool", "relativeto": "Optional[str]"},
         returns="str", trusted=True, raises={"ValueError?": None},
         note="T here (file system); C17")

contract("xdoctest.utils.util_import:import_module_from_name",
         params={"modname": "str"}, returns="Val", trusted=True,
         raises={"Exception*?": None},
         note="T: importlib; assumed to leave sys.path as it found it (the quantifier's module bodies)")

contract("xdoctest.utils.util_import:_custom_import_modpath",
         params={"modpath": "str", "index": "int"}, returns="Val", globals=GP,
         requires=[("index-in-range", "-len(sys.path) - 1 <= index and index <= len(sys.path)")],
         modifies=["sys.path"],
         ensures=[("restored", "sys.path == old(sys.path)")],
         raises={"RuntimeError?": "sys.path == old(sys.path)", "ValueError?": "sys.path == old(sys.path)"},
         props=["C12", "C17"], opts={"native": False},
         sentinel=("leaks-dpath", "len(sys.path) == len(old(sys.path)) + 1"))
