"""Contracts for xdoctest/utils/util_import.py (C12.syspath, C17)."""
from pyvc.contracts import contract, record

record("PythonPathContext", dpath="str", index="int")

GP = {"sys.path": "list[str]"}
Q = "xdoctest.utils.util_import:PythonPathContext."

contract(Q + "__enter__",
         params={"self": "PythonPathContext"}, globals=GP,
         modifies=["self.index", "sys.path"],
         ensures=[("index-normalised", "0 <= self.index or old(self.index) < -len(old(sys.path)) - 1"),
                  ("inserted", "sys.path == old(sys.path)[:self.index] + [self.dpath] + old(sys.path)[self.index:]"),
                  ("append-for-minus-one", "implies(old(self.index) == -1, sys.path == old(sys.path) + [self.dpath])"),
                  ("front-for-zero", "implies(old(self.index) == 0, sys.path == [self.dpath] + old(sys.path))")],
         props=["C12", "C17"], opts={"native": False})

contract(Q + "__exit__",
         params={"self": "PythonPathContext", "ex_type": "Optional[Val]", "ex_value": "Optional[Val]",
                 "ex_traceback": "Optional[Val]"},
         returns="None", globals=GP,
         requires=[("index-normalised", "0 <= self.index")],
         modifies=["sys.path"],
         ensures=[("in-place", "implies(self.index < len(old(sys.path)) and old(sys.path)[self.index] == self.dpath, "
                               "sys.path == old(sys.path)[:self.index] + old(sys.path)[self.index + 1:])"),
                  ("recovered", "implies(not (self.index < len(old(sys.path)) and old(sys.path)[self.index] == self.dpath), "
                                "sys.path == old(sys.path)[:S.first_index(old(sys.path), self.dpath)] + "
                                "old(sys.path)[S.first_index(old(sys.path), self.dpath) + 1:])"),
                  ("one-shorter", "len(sys.path) == len(old(sys.path)) - 1")],
         raises={"RuntimeError": "self.dpath not in old(sys.path)"},
         props=["C12", "C17"], opts={"native": False},
         sentinel=("pops-last", "sys.path == old(sys.path)[:len(old(sys.path)) - 1]"))
