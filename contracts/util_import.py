"""Contracts for xdoctest/utils/util_import.py (C12.syspath, C17)."""
from pyvc.contracts import contract, record, LoopSpec

record("PythonPathContext", dpath="str", index="int")

GP = {"sys.path": "list[str]"}
Q = "xdoctest.utils.util_import:PythonPathContext."

contract(Q + "__enter__",
         params={"self": "PythonPathContext"}, globals=GP,
         modifies=["self.index", "sys.path"],
         ensures=[("index-normalised", "self.index == (old(self.index) if old(self.index) >= 0 else len(old(sys.path)) + old(self.index) + 1)"),
                  ("inserted", "sys.path == old(sys.path)[:self.index] + [self.dpath] + old(sys.path)[self.index:]"),
                  ("append-for-minus-one", "implies(old(self.index) == -1, sys.path == old(sys.path) + [self.dpath])"),
                  ("front-for-zero", "implies(old(self.index) == 0, sys.path == [self.dpath] + old(sys.path))")],
         props=["C12", "C17"], opts={"native": False})

contract(Q + "__exit__",
         params={"self": "PythonPathContext", "ex_type": "Val", "ex_value": "Val", "ex_traceback": "Val"},
         returns="None", globals=GP,
         requires=[("index-normalised", "0 <= self.index")],
         modifies=["sys.path"],
         ensures=[("in-place", "implies(self.index < len(old(sys.path)) and old(sys.path)[self.index] == self.dpath, "
                               "sys.path == old(sys.path)[:self.index] + old(sys.path)[self.index + 1:])"),
                  ("recovered", "implies(not (self.index < len(old(sys.path)) and old(sys.path)[self.index] == self.dpath), "
                                "sys.path == old(sys.path)[:S.first_index(old(sys.path), self.dpath)] + "
                                "old(sys.path)[S.first_index(old(sys.path), self.dpath) + 1:])"),
                  ("one-shorter", "len(sys.path) == len(old(sys.path)) - 1")],
         raises={"RuntimeError": "self.dpath not in old(sys.path)"},
         props=["C12", "C17"], opts={"native": False},
         sentinel=("pops-last", "sys.path == old(sys.path)[:len(old(sys.path)) - 1]"))

contract("xdoctest.utils.util_import:PythonPathContext.__init__",
         params={"self": "PythonPathContext", "dpath": "str", "index": "int"},
         modifies=["self.dpath", "self.index"],
         ensures=[("fields", "self.dpath == dpath and self.index == index")],
         props=["C12"], opts={"native": False})

contract("xdoctest.utils.util_import:split_modpath",
         params={"modpath": "str", "check": "bool"}, returns="tuple[str,str]", modifies=[],
         ensures=[("search-path-directory-is-not-a-package", "not S.fs_exists(S.path_join(result[0], '__init__.py'))")],
         raises={"ValueError?": "check"},
         loops={0: LoopSpec(header="exists(join(dpath, '__init__.py'))", types={"_relmod_parts": "list[str]"},
                            invariants=[("at-least-the-file-name", "len(_relmod_parts) >= 1")],
                            decreases="S.path_depth(dpath)")},
         props=["C17"], opts={"native": False},
         note="the directory returned is the first ancestor that holds no __init__.py: every directory between it and the module does "
              "(the loop only continues through directories with __init__.py); terminates under the path_depth assumption")

contract("xdoctest.utils.util_import:modpath_to_modname",
         params={"modpath": "str", "hide_init": "bool", "hide_main": "bool", "check": "bool", "relativeto": "Optional[str]"},
         returns="str", trusted=True, raises={"ValueError?": None},
         note="T here (file system); C17")

contract("xdoctest.utils.util_import:import_module_from_name",
         params={"modname": "str"}, returns="Val", trusted=True,
         raises={"Exception*?": None},
         note="T: importlib; assumed to leave sys.path as it found it (the quantifier's module bodies)")

contract("xdoctest.utils.util_import:_custom_import_modpath",
         params={"modpath": "str", "index": "int"}, returns="Val", globals=GP,
         requires=[("index-in-range", "-len(sys.path) - 1 <= index and index <= len(sys.path)")],
         modifies=["sys.path"],
         ensures=[("restored", "sys.path == old(sys.path)")],
         raises={"RuntimeError?": "sys.path == old(sys.path)", "ValueError?": "sys.path == old(sys.path)"},
         props=["C12", "C17"], opts={"native": False},
         sentinel=("leaks-dpath", "len(sys.path) == len(old(sys.path)) + 1"))


# ------------------------------------------------------------------------ C17: name <-> path resolution
from pyvc.contracts import LoopSpec

contract("xdoctest.utils.util_import:normalize_modpath",
         params={"modpath": "str", "hide_init": "bool", "hide_main": "bool"}, returns="str", modifies=[],
         ensures=[("init-main-normalisation", "result == S.normalize_modpath_spec(modpath, hide_init, hide_main)")],
         props=["C17"], opts={"native": False},
         sentinel=("identity", "result == modpath"))

_S = "xdoctest.utils.util_import:_syspath_modname_to_modpath."
contract(_S + "_isvalid",
         params={"modpath": "str", "base": "str"}, returns="bool", modifies=[],
         ensures=[("init-chain", "result == S.init_chain(S.path_dirname(modpath), base)")],
         loops={0: LoopSpec(header="subdir and subdir != base",
                            invariants=[("chain-so-far", "S.init_chain(S.path_dirname(modpath), base) == S.init_chain(subdir, base)")],
                            decreases="S.path_depth(subdir)")},
         props=["C17"], opts={"native": False, "closure": {}, "fuel": 2},
         sentinel=("always-valid", "result"))

_PKG = "S.path_join(dpath, _fname_we)"
_ISPKG = ("(S.fs_exists(" + _PKG + ") and S.fs_isfile(S.path_join(" + _PKG + ", '__init__.py')) and "
          "S.init_chain(S.path_dirname(" + _PKG + "), dpath))")
_OKJ = ("(S.fs_isfile(S.path_join(dpath, candidate_fnames[j])) and "
        "S.init_chain(S.path_dirname(S.path_join(dpath, candidate_fnames[j])), dpath))")
_OKK = _OKJ.replace('[j]', '[k]')
contract(_S + "check_dpath",
         params={"dpath": "str", "_fname_we": "str", "candidate_fnames": "list[str]"}, returns="Optional[str]", modifies=[],
         ensures=[("package-directory-first", "implies(" + _ISPKG + ", result == " + _PKG + ")"),
                  ("no-candidate-no-result", "implies(not " + _ISPKG + " and all(not " + _OKJ + " for j in range(0, len(candidate_fnames))), result is None)"),
                  ("else-first-valid-file", "implies(not " + _ISPKG + " and result is not None, "
                                            "exists(lambda k: 0 <= k and k < len(candidate_fnames) and result == S.path_join(dpath, candidate_fnames[k]) "
                                            "and " + _OKK + " and all(not " + _OKJ + " for j in range(0, k))))"),
                  ("some-candidate-some-result", "implies(not " + _ISPKG + " and not all(not " + _OKJ + " for j in range(0, len(candidate_fnames))), "
                                                 "result is not None)")],
         loops={0: LoopSpec(header="candidate_fnames",
                            invariants=[("earlier-candidates-fail", "all(not " + _OKJ + " for j in range(0, _i0))")])},
         props=["C17"], opts={"native": False, "closure": {"_fname_we": "str", "candidate_fnames": "list[str]"}, "fuel": 1},
         note="one search-path entry: the package directory (with __init__.py and an unbroken __init__ chain) wins; otherwise the first "
              "candidate file name, in order, that is a file with an unbroken chain; otherwise nothing",
         sentinel=("files-before-packages", "implies(S.fs_isfile(S.path_join(dpath, candidate_fnames[0])), result == S.path_join(dpath, candidate_fnames[0]))"))


# ------------------------------------------------------------------------ C17: the search-path loop (first entry that matches wins)
def _at(txt, d):
    return txt.replace('dpath', d)


_NOMATCH = "(not " + _ISPKG + " and all(not " + _OKJ + " for j in range(0, len(candidate_fnames))))"
contract("xdoctest.utils.util_import:_syspath_modname_to_modpath#search",
         params={"candidate_dpaths": "list[str]", "_fname_we": "str", "candidate_fnames": "list[str]", "_pkg_name": "str"},
         returns="Optional[str]",
         requires=[("file-names-are-not-empty", "all(len(c) > 0 for c in candidate_fnames) and len(_fname_we) > 0")],
         ensures=[("nothing-found-means-no-entry-matches",
                   "implies(result is None, all(" + _at(_NOMATCH, "candidate_dpaths[i]") + " for i in range(0, len(candidate_dpaths))))")],
         loops={2: LoopSpec(header="candidate_dpaths",
                            invariants=[("nothing-found-yet", "found_modpath is None"),
                                        ("earlier-entries-do-not-match",
                                         "all(" + _at(_NOMATCH, "candidate_dpaths[i]") + " for i in range(0, _i2))")],
                            exit_post=[("found-is-the-match-of-the-first-entry-that-has-one",
                                        "(found_modpath is None and all(" + _at(_NOMATCH, "candidate_dpaths[i]") + " for i in range(0, len(candidate_dpaths)))) or "
                                        "(found_modpath is not None and exists(lambda m: 0 <= m and m < len(candidate_dpaths) and "
                                        "all(" + _at(_NOMATCH, "candidate_dpaths[i]") + " for i in range(0, m)) and not "
                                        + _at(_NOMATCH, "candidate_dpaths[m]") + "))")])},
         props=["C17"],
         opts={"native": False,
               "region": {"from": "found_modpath = None",
                          "drop": ["new_editable_finder_paths = ", "if new_editable_finder_paths:", "new_editable_pth_paths = ",
                                   "if new_editable_pth_paths:", "linkpath1 = ", "linkpath2 = ", "linkpath = None",
                                   "if isfile(linkpath1):", "if linkpath is not None:"]}},
         note="region: the search loop, for search paths WITHOUT editable-install finders / __editable__ .pth files / egg-links (those "
              "fallbacks are dropped and named here): the entries are tried in order and the first one for which check_dpath finds a "
              "match decides; None exactly when no entry has a match",
         sentinel=("last-entry-wins", "True == False"))
