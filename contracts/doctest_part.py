"""Contracts for xdoctest/doctest_part.py."""
from pyvc.contracts import contract, lemma, record, LoopSpec
import contracts.checker  # noqa: callee contracts

record("DoctestPart", _directives="Optional[Val]",
       exec_lines="list[str]", want_lines="Optional[list[str]]", line_offset="int",
       orig_lines="list[str]", compile_mode="str", partno="int")

_WANT = "'\\n'.join(part.want_lines)"
_TG = "(unmatched + [got_stdout])"
_V = "S.V(" + _WANT + ", S.suffix_join(" + _TG + ", m), got_eval, runstate)"
_RF = "S.repr_fails(" + _WANT + ", S.suffix_join(" + _TG + ", m), got_eval, runstate)"

contract("xdoctest.doctest_part:DoctestPart.check",
         params={"part": "DoctestPart", "got_stdout": "str", "got_eval": "Val", "runstate": "Val",
                 "unmatched": "list[str]"},
         returns="None",
         requires=[("has-want", "part.want_lines is not None and len(part.want_lines) > 0")],
         ensures=[("suffix", "any(" + _V + " for m in range(1, len(unmatched) + 2))")],
         raises={"GotWantException?": "all(not " + _V + " for m in range(1, len(unmatched) + 2))",
                 "ExtractGotReprException?": "S.repr_raises(got_eval) and not S.not_evaled(got_eval)"},
         loops={0: LoopSpec(
             header="range(1, len(trailing_gots) + 1)",
             types={"exceptions": "objlist[GotWantException]"},
             invariants=[
                 ("no-success", "not success"),
                 ("collected", "len(exceptions) == _i0"),
                 ("tg", "trailing_gots == unmatched + [got_stdout]"),
                 ("tried", "all(not " + _V + " and not " + _RF + " for m in range(1, _i0 + 1))"),
             ])},
         props=["C02"], gen="part_check_inputs",
         opts={"facts_after": {"got_": [("suffix", "got_ == S.suffix_join(trailing_gots, i)")]}},
         sentinel=("only-own-output", "S.V(" + _WANT + ", got_stdout, got_eval, runstate)"))


# ------------------------------------------------------------------------ C18: displayed source
contract("xdoctest.utils.util_str:indent", params={"text": "str", "prefix": "str"}, returns="str", log=False, modifies=[],
         ensures=[("prefix-every-line", "result == prefix + text.replace('\\n', '\\n' + prefix)")],
         opts={"native": False, "functional": "prefix + text.replace('\\n', '\\n' + prefix)"},
         note="prefix + text with the prefix inserted after every newline")
contract("xdoctest.utils.util_str:add_line_numbers", params={"source": "list[str]", "start": "int", "n_digits": "int"},
         returns="list[str]", modifies=[], log=False,
         ensures=[("one-numbered-line-per-line", "len(result) == len(source)"),
                  ("numbers-count-up-from-start",
                   "all(result[k] == S.fmt_d(start + k, n_digits) + ' ' + source[k] for k in range(len(source)))")],
         props=["C18"], opts={"native": False},
         note="a list of lines and a given number width: line k is shown as the number start + k, a blank, and the line itself",
         sentinel=("numbers-from-one", "implies(len(source) > 0, result[0] == S.fmt_d(1, n_digits) + ' ' + source[0])"))
contract("xdoctest.utils.util_str:highlight_code", params={"text": "str", "lexer_name": "str"}, returns="str", trusted=True, log=False)

_HW = "(self.want_lines is not None and len(self.want_lines) > 0 and len('\\n'.join(self.want_lines)) > 0)"
contract("xdoctest.doctest_part:DoctestPart.format_part",
         params={"self": "DoctestPart", "linenos": "bool", "want": "bool", "startline": "int", "n_digits": "Optional[int]",
                 "colored": "bool", "partnos": "bool", "prefix": "bool"},
         returns="str",
         requires=[("plain-display", "not linenos and not colored and not partnos"),
                   ("prompt-lines-kept", "implies(prefix, self.orig_lines is not None and len(self.orig_lines) > 0)"),
                   ("plain-lines", "implies(prefix, S.plain_lines(self.orig_lines)) and "
                                   "implies(want and self.want_lines is not None, S.plain_lines(self.want_lines))")],
         modifies=[],
         ensures=[("source-then-want", "implies(prefix, result == ('\\n'.join(self.orig_lines + self.want_lines) if (want and " + _HW + ") "
                                       "else '\\n'.join(self.orig_lines)))"),
                  ("bare-source", "implies(not prefix and not want, result == '\\n'.join('\\n'.join(self.exec_lines).splitlines()))")],
         loops={0: LoopSpec(header="want_text.splitlines()", types={"want_lines": "list[str]"},
                            invariants=[("wants-so-far", "want_lines == (self.want_lines[:_i0] if want else [])")])},
         props=["C18", "C19"], opts={"native": False},
         sentinel=("drops-the-want", "result == '\\n'.join(self.orig_lines)"))


# ------------------------------------------------------------------------ C18.numbers: the numbered display
_NUM = "[S.fmt_d(startline + self.line_offset + k, n_digits) + ' ' + x for k, x in enumerate(self.orig_lines)]"
_PAD = "[' ' * (n_digits + 1) + w for w in self.want_lines]"
contract("xdoctest.doctest_part:DoctestPart.format_part#numbered",
         params={"self": "DoctestPart", "linenos": "bool", "want": "bool", "startline": "int", "n_digits": "int",
                 "colored": "bool", "partnos": "bool", "prefix": "bool"},
         returns="str",
         requires=[("numbered-display", "linenos and prefix and not colored and not partnos"),
                   ("prompt-lines-kept", "self.orig_lines is not None and len(self.orig_lines) > 0"),
                   ("plain-lines", "S.plain_lines(self.orig_lines) and implies(want and self.want_lines is not None, S.plain_lines(self.want_lines))")],
         modifies=[],
         loops={0: LoopSpec(header="want_text.splitlines()", types={"want_lines": "list[str]"},
                            invariants=[("one-per-visited-want-line", "len(want_lines) == (_i0 if want else 0)"),
                                        ("padded-wants-so-far", "all(want_lines[k] == ' ' * (n_digits + 1) + self.want_lines[k] "
                                                                "for k in range(len(want_lines)))")])},
         props=["C18"],
         opts={"native": False,
               "exit_facts": [("every-source-line-carries-its-position",
                               "len(part_lines) == len(self.orig_lines) and "
                               "all(part_lines[k] == S.fmt_d(startline + self.line_offset + k, n_digits) + ' ' + self.orig_lines[k] "
                               "for k in range(len(self.orig_lines)))"),
                              ("want-lines-padded-not-numbered",
                               "len(want_lines) == (len(self.want_lines) if (want and " + _HW + ") else 0) and "
                               "all(want_lines[k] == ' ' * (n_digits + 1) + self.want_lines[k] for k in range(len(want_lines)))"),
                              ("the-text-is-these-lines-in-order",
                               "part_text == ('\\n'.join(part_lines) + '\\n' + '\\n'.join(want_lines) if len(want_lines) > 0 "
                               "else '\\n'.join(part_lines))")]},
         note="numbered display: source line k of the part is shown as the number startline + line_offset + k (its position in the "
              "doctest, or in the file when startline is the doctest's line), a blank and the line; want lines are indented by the "
              "width of the number column and carry no number",
         sentinel=("numbers-ignore-the-part-offset", "True == False"))
