"""Sidecar contracts for the collection glue of xdoctest/core.py (C07): parse_doctestables."""
from pyvc.contracts import contract, record, tuple_record, LoopSpec
import contracts.parser  # noqa: DocTest record, parse_docstr_examples family

# what package_calldefs yields: (calldefs, modpath) with calldefs an ordered mapping callname -> CallDefNode
record("CallDef", docstr="Optional[str]", doclineno="int")
tuple_record("CallDefItem", callname="str", calldef="CallDef")
record("CallDefs", entries="reclist[CallDefItem]")
tuple_record("PkgEntry", calldefs="CallDefs", modpath="str")

contract("xdoctest.core:package_calldefs",
         params={"pkg_identifier": "str", "exclude": "Val", "ignore_syntax_errors": "bool", "analysis": "Val"},
         returns="reclist[PkgEntry]", trusted=True, raises={"Exception*?": None},
         note="assumed here: the (calldefs, modpath) pairs of the modules of a package; calldefs maps each collected name to its "
              "definition node, in order (the visitor that fills it is under contract in contracts/static_analysis.py)")
contract("xdoctest.core:parse_docstr_examples#list",
         params={"docstr": "str", "callname": "str", "modpath": "str", "lineno": "int", "style": "Val", "fpath": "None", "parser_kw": "Val"},
         returns="reclist[DocTest]", trusted=True, raises={"Exception*?": None},
         note="the caller's view of parse_docstr_examples (its own contract: C14): the doctests of one docstring, in order")

_PD = "ev_arg('parse_docstr_examples', 0, '%s')"
contract("xdoctest.core:parse_doctestables#glue",
         params={"module_identifier": "str", "exclude": "Val", "style": "str", "ignore_syntax_errors": "bool", "parser_kw": "Val",
                 "analysis": "Val"},
         raises={"Exception*?": None},
         loops={0: LoopSpec(header="package_calldefs(module_identifier, exclude, ignore_syntax_errors, analysis=analysis)",
                            invariants=[], modifies=[]),
                1: LoopSpec(header="calldefs.items()", invariants=[], modifies=[],
                            body_post=[("a-definition-with-a-docstring-is-parsed-once-under-its-own-name-and-line",
                                        "implies(calldef.docstr is not None, ev_count('parse_docstr_examples') == 1 and "
                                        + _PD % "docstr" + " == calldef.docstr and " + _PD % "callname" + " == callname and "
                                        + _PD % "modpath" + " == modpath and " + _PD % "lineno" + " == calldef.doclineno and "
                                        + _PD % "style" + " == style)"),
                                       ("a-definition-without-a-docstring-yields-nothing",
                                        "implies(calldef.docstr is None, ev_count('parse_docstr_examples') == 0 and ev_count('yield') == 0)")]),
                3: LoopSpec(header="example_gen", invariants=[], modifies=[],
                            body_post=[("every-doctest-of-the-docstring-is-yielded", "ev_count('yield') == 1 and ev_arg('yield', 0, 'value') is example")])},
         props=["C07"],
         opts={"native": False,
               "use": {"xdoctest.core:parse_docstr_examples": "xdoctest.core:parse_docstr_examples#list"}},
         note="collection glue: for every module of the package and every collected definition, in order, the docstring (if any) is "
              "parsed exactly once with the definition's own name, its docstring line, the module path and the requested style, and "
              "every doctest found is yielded (debug flag off)",
         sentinel=("skips-docstrings", "True == False"))


# ------------------------------------------------------------------------ C07 glue: the modules of a package, one parse each
contract("xdoctest.core:_rectify_to_modpath", params={"modpath_or_name": "str"}, returns="str", trusted=True, log=False,
         raises={"Exception*?": None}, note="T: a module name or path to a path (C17)")
contract("xdoctest.static_analysis:package_modpaths#list",
         params={"pkgpath": "str", "with_pkg": "bool", "with_mod": "bool", "followlinks": "bool", "recursive": "bool", "with_libs": "bool",
                 "check": "bool"},
         returns="list[str]", trusted=True, raises={"Exception*?": None},
         note="the caller's view of the generator package_modpaths (its own contract: contracts/static_analysis.py): the module paths of a package")
contract("xdoctest.core:parse_calldefs", params={"module_identifier": "str", "analysis": "Val"}, returns="Optional[CallDefs]", trusted=True,
         raises={"SyntaxError?": None, "Exception*?": None},
         note="assumed here: the collected definitions of one module (static visitor under contract; dynamic analysis external)")
contract("xdoctest.utils.util_import:modpath_to_modname#name",
         params={"modpath": "str", "hide_init": "bool", "hide_main": "bool", "check": "bool", "relativeto": "None"}, returns="str", trusted=True,
         log=False, raises={"ValueError?": None}, note="T here (C17)")

_PC = "ev_arg('parse_calldefs', 0, '%s')"
contract("xdoctest.core:package_calldefs#glue",
         params={"pkg_identifier": "str", "exclude": "list[str]", "ignore_syntax_errors": "bool", "analysis": "Val"},
         raises={"Exception*?": None},
         loops={0: LoopSpec(header="identifiers", invariants=[], modifies=[],
                            body_post=[("a-module-is-analysed-at-most-once-and-yielded-with-its-own-path",
                                        "ev_count('parse_calldefs') <= 1 and "
                                        "implies(ev_count('parse_calldefs') == 1, " + _PC % "module_identifier" + " == module_identifier and "
                                        + _PC % "analysis" + " is analysis) and "
                                        "ev_count('yield') == (1 if (ev_count('parse_calldefs') == 1 and ev_outcome('parse_calldefs', 0) == 'normal' "
                                        "and " + _PC % "result" + " is not None) else 0) and "
                                        "implies(ev_count('yield') == 1, ev_arg('yield', 0, 'value')[1] == module_identifier and "
                                        "ev_arg('yield', 0, 'value')[0] is " + _PC % "result" + ")"),
                                       ("only-excluded-or-missing-modules-are-passed-over",
                                        "implies(ev_count('parse_calldefs') == 0, "
                                        "any(S.fnmatch(modname, pat) for pat in exclude) or not S.fs_exists(module_identifier))")])},
         props=["C07"],
         opts={"native": False,
               "use": {"xdoctest.static_analysis:package_modpaths": "xdoctest.static_analysis:package_modpaths#list",
                       "xdoctest.utils.util_import:modpath_to_modname": "xdoctest.utils.util_import:modpath_to_modname#name"}},
         note="for a package given by name or path (not a live module): every module path of the package, in order, is analysed exactly "
              "once -- unless its module name matches an exclude pattern or the file does not exist -- and its definitions are yielded "
              "together with that path; a SyntaxError of the module is a warning (or re-raised when asked)",
         sentinel=("analyses-nothing", "True == False"))


# ------------------------------------------------------------------------ C13: _complete_source, step by step
import contracts.parser as _cp  # noqa: EnumIter record
contract("xdoctest.static_analysis:is_balanced_statement", params={"lines": "list[str]", "only_tokens": "bool", "reraise": "int"},
         returns="bool", trusted=True, log=False, raises={"Exception*?": None}, note="T: tokenizer based balance check")
contract("xdoctest.parser:_complete_source#steps",
         params={"line": "str", "state_indent": "int", "line_iter": "EnumIter"},
         requires=[("indent", "0 <= state_indent"), ("iterator-inside-its-lines", "0 <= line_iter.pos and line_iter.pos <= len(line_iter.seq)")],
         raises={"Exception*?": None},
         modifies=["line_iter.pos"],
         loops={0: LoopSpec(header="not static.is_balanced_statement(source_parts, only_tokens=True)",
                            types={"source_parts": "list[str]"}, modifies=["line_iter.pos"],
                            invariants=[("one-source-part-per-consumed-line", "len(source_parts) == 1 + line_iter.pos - old(line_iter.pos)"),
                                        ("only-forward", "line_iter.pos >= old(line_iter.pos) and line_iter.pos <= len(line_iter.seq)")],
                            body_post=[("one-line-consumed-and-one-pair-yielded",
                                        "line_iter.pos == before(line_iter.pos) + 1 and ev_count('yield') == 1 and "
                                        "ev_arg('yield', 0, 'value')[0] == next_line and ev_arg('yield', 0, 'value')[1] == norm_line")],
                            decreases="len(line_iter.seq) - line_iter.pos")},
         props=["C13"],
         opts={"native": False,
               "exit_facts": [("the-line-itself-is-yielded-first",
                               "ev_count('yield') == 1 and ev_arg('yield', 0, 'value')[0] == line and "
                               "ev_arg('yield', 0, 'value')[1] == S.substr(line, state_indent, len(line) - state_indent)")]},
         note="the generator yields the line it is given, then -- while the statement is not balanced -- takes exactly one further line "
              "from the shared iterator per step and yields it (a triple-quoted continuation without prompt is given a '... ' prefix); "
              "this is the step-wise form of the assumed list view used by the labeller (one pair per consumed line, only forward)",
         sentinel=("consumes-nothing", "True == False"))
