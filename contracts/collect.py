"""Sidecar contracts for the collection glue of xdoctest/core.py (C07): parse_doctestables."""
from pyvc.contracts import contract, record, tuple_record, LoopSpec
import contracts.parser  # noqa: DocTest record, parse_docstr_examples family

# what package_calldefs yields: (calldefs, modpath) with calldefs an ordered mapping callname -> CallDefNode
record("CallDef", docstr="Optional[str]", doclineno="int")
tuple_record("CallDefItem", callname="str", calldef="CallDef")
record("CallDefs", entries="reclist[CallDefItem]")
tuple_record("PkgEntry", calldefs="CallDefs", modpath="str")

contract("xdoctest.core:package_calldefs",
         params={"pkg_identifier": "str", "exclude": "Val", "ignore_syntax_errors": "bool", "analysis": "Val"},
         returns="reclist[PkgEntry]", trusted=True, raises={"Exception*?": None},
         note="assumed here: the (calldefs, modpath) pairs of the modules of a package; calldefs maps each collected name to its "
              "definition node, in order (the visitor that fills it is under contract in contracts/static_analysis.py)")
contract("xdoctest.core:parse_docstr_examples#list",
         params={"docstr": "str", "callname": "str", "modpath": "str", "lineno": "int", "style": "Val", "fpath": "None", "parser_kw": "Val"},
         returns="reclist[DocTest]", trusted=True, raises={"Exception*?": None},
         note="the caller's view of parse_docstr_examples (its own contract: C14): the doctests of one docstring, in order")

_PD = "ev_arg('parse_docstr_examples', 0, '%s')"
contract("xdoctest.core:parse_doctestables#glue",
         params={"module_identifier": "str", "exclude": "Val", "style": "str", "ignore_syntax_errors": "bool", "parser_kw": "Val",
                 "analysis": "Val"},
         raises={"Exception*?": None},
         loops={0: LoopSpec(header="package_calldefs(module_identifier, exclude, ignore_syntax_errors, analysis=analysis)",
                            invariants=[], modifies=[]),
                1: LoopSpec(header="calldefs.items()", invariants=[], modifies=[],
                            body_post=[("a-definition-with-a-docstring-is-parsed-once-under-its-own-name-and-line",
                                        "implies(calldef.docstr is not None, ev_count('parse_docstr_examples') == 1 and "
                                        + _PD % "docstr" + " == calldef.docstr and " + _PD % "callname" + " == callname and "
                                        + _PD % "modpath" + " == modpath and " + _PD % "lineno" + " == calldef.doclineno and "
                                        + _PD % "style" + " == style)"),
                                       ("a-definition-without-a-docstring-yields-nothing",
                                        "implies(calldef.docstr is None, ev_count('parse_docstr_examples') == 0 and ev_count('yield') == 0)")]),
                3: LoopSpec(header="example_gen", invariants=[], modifies=[],
                            body_post=[("every-doctest-of-the-docstring-is-yielded", "ev_count('yield') == 1 and ev_arg('yield', 0, 'value') is example")])},
         props=["C07"],
         opts={"native": False,
               "use": {"xdoctest.core:parse_docstr_examples": "xdoctest.core:parse_docstr_examples#list"}},
         note="collection glue: for every module of the package and every collected definition, in order, the docstring (if any) is "
              "parsed exactly once with the definition's own name, its docstring line, the module path and the requested style, and "
              "every doctest found is yielded (debug flag off)",
         sentinel=("skips-docstrings", "True == False"))
