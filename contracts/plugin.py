"""Sidecar contracts for xdoctest/plugin.py (C15): the pytest item's verdict mapping."""
from pyvc.contracts import contract, record, LoopSpec
import contracts.doctest_example  # noqa: DocTest record, run / is_disabled / anything_ran contracts

record("XDoctestItem", dtest="DocTest")

_DIS = "ev_arg('DocTest.is_disabled', 0, 'result')"
_RAN = "ev_arg('DocTest.anything_ran', 0, 'result')"
contract("xdoctest.plugin:XDoctestItem.runtest",
         params={"self": "XDoctestItem"},
         ensures=[("passed-means-run-once-raising-mode-and-something-ran",
                   "ev_count('DocTest.is_disabled') == 1 and ev_arg('DocTest.is_disabled', 0, 'pytest') and not " + _DIS + " and "
                   "ev_count('DocTest.run') == 1 and ev_arg('DocTest.run', 0, 'self') is self.dtest and "
                   "ev_arg('DocTest.run', 0, 'on_error') == 'raise' and ev_outcome('DocTest.run', 0) == 'normal' and "
                   "ev_count('DocTest.anything_ran') == 1 and " + _RAN)],
         raises={"Skipped": "(ev_count('DocTest.run') == 0 and " + _DIS + ") or "
                            "(ev_count('DocTest.run') == 1 and ev_outcome('DocTest.run', 0) != 'normal') or "
                            "(ev_count('DocTest.run') == 1 and ev_count('DocTest.anything_ran') == 1 and not " + _RAN + ")",
                 "BaseException*?": "ev_count('DocTest.run') == 1 and ev_outcome('DocTest.run', 0) != 'normal' and not " + _DIS},
         props=["C15"], opts={"native": False},
         note="the pytest verdict of one doctest: skipped iff it is force-disabled (run is then never called) or run returned and nothing "
              "ran; any other exception comes out of the single run(on_error='raise') call (failed); a normal return (passed) means run "
              "was called exactly once in raising mode on this item's doctest and at least one part ran",
         sentinel=("never-runs", "ev_count('DocTest.run') == 0"))


# ------------------------------------------------------------------------ C15.collect: one pytest item per parsed doctest
record("PytestConfig")
record("XDoctestModule", config="PytestConfig", fspath="Val", _examp_conf="Val")
contract("xdoctest.plugin:_XDoctestBase._prepare_internal_config", params={"self": "XDoctestModule"}, trusted=True, log=False,
         modifies=["self._examp_conf"], note="T: copies the xdoctest_* command line options into a DoctestConfig")
contract("xdoctest.core:parse_doctestables",
         params={"module_identifier": "str", "exclude": "Val", "style": "Val", "ignore_syntax_errors": "bool", "parser_kw": "Val",
                 "analysis": "Val"},
         returns="reclist[DocTest]", trusted=True, raises={"Exception*?": None},
         note="assumed here: the doctests of a module, as the native runner obtains them too (C07 is its own contract)")
contract("xdoctest.plugin:XDoctestItem.from_parent",
         params={"cls": "Val", "parent": "XDoctestModule", "name": "str", "runner": "None", "dtest": "DocTest"},
         returns="XDoctestItem", trusted=True, ensures=[("wraps-the-doctest", "result.dtest is dtest")],
         opts={"result_alias": {"dtest": "dtest"}},
         note="T: pytest node construction; the item holds the doctest it is given")
contract("xdoctest.doctest_example:DocTest.unique_callname", params={"self": "DocTest"}, returns="str", modifies=[],
         ensures=[("callname-and-index", "result == self.callname + ':' + str(self.num)")],
         props=["C15", "C07"], opts={"native": False, "functional": "self.callname + ':' + str(self.num)"},
         note="the identifier of a doctest within its module",
         sentinel=("callname-only", "result == self.callname"))

_FP = "ev_arg('XDoctestItem.from_parent', 0, '%s')"
_PD = "ev_arg('parse_doctestables', 0, '%s')"
contract("xdoctest.plugin:XDoctestModule.collect",
         params={"self": "XDoctestModule"},
         raises={"Skipped": "ev_raised('parse_doctestables') == 1", "SyntaxError": "ev_raised('parse_doctestables') == 1",
                 "Exception*?": None},
         loops={0: LoopSpec(header="examples", invariants=[], modifies=[],
                            body_post=[("one-item-per-doctest-under-its-identifier",
                                        "ev_count('XDoctestItem.from_parent') == 1 and " + _FP % "dtest" + " is dtest and "
                                        + _FP % "name" + " == dtest.callname + ':' + str(dtest.num) and "
                                        "ev_count('yield') == 1 and ev_arg('yield', 0, 'value') is " + _FP % "result")])},
         props=["C15"],
         opts={"native": False,
               "entry_types": {"DocTest.exc_info": "Optional[Val]", "DocTest.failed_part": "Optional[Val]"},
               "exit_facts": [("parses-once-with-the-configured-style-and-analysis",
                               "ev_count('parse_doctestables') == 1 and " + _PD % "module_identifier" + " == str(self.fspath) and "
                               + _PD % "style" + " == S.pytest_option('xdoctest_style') and "
                               + _PD % "analysis" + " == S.pytest_option('xdoctest_analysis')")]},
         note="pytest collects exactly the doctests parse_doctestables yields for the file, in order, one item each, named by the "
              "doctest's unique_callname, with the style / analysis options of the command line",
         sentinel=("collects-nothing", "True == False"))
