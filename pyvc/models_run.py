"""
pyvc.models_run -- oracles for what DocTest.run does not control: compile / exec / eval / asyncio,
the warnings context, sys.exc_info, traceback objects.  Every model logs a ghost event so that
contracts can say how often and with which arguments the external was called.

Assumptions made here (repeated in the evidence through ``trusted_used``):
* compile(source, filename, mode) either returns a code object (co_filename == filename) or raises some
  Exception subclass; it has no other effect.
* exec/eval/asyncio.run of a code object may: write any text to the stream that is sys.stdout when it
  starts (so the capture buffer grows by that text), rebind sys.stdout to anything, bind names in the
  globals dict it is given, and finally return a value or raise ANY exception class (BaseException
  included).  It does not touch the DocTest object, sys.path or sys.stderr (the property's quantifier).
* an exception raised by exec/eval of a code object compiled with filename F carries a traceback that
  has at least one entry whose frame's code has filename F (CPython).
"""
import asyncio as _asyncio
import builtins
import sys as _sys
import traceback as _traceback
import warnings as _warnings

from . import smt
from .smt import INT, BOOL, STR, IntV, StrV, TRUE, FALSE, And, Or, Not, Eq, Ge, Le, Lt, Len, Concat
from .vals import (Undecided, VInt, VBool, VStr, VNone, NONE, VVal, VSeq, VTuple, VRef, VPy, VExc, Raised,
                   HList, HPyList, HDict, HInst, HOpaque, sort_of, wrap)
from .models import func, method, FUNCS, METHODS


def _val(eng, base):
    return VVal(eng.ctx.fresh(base, sort_of(('val',))))


def _kw(args, kwargs, names):
    out = {}
    for n, a in zip(names, args):
        out[n] = a
    out.update(kwargs)
    return out


# ---------------------------------------------------------------------------------- compile
@func(builtins.compile)
def m_compile(eng, args, kwargs, st, node):
    a = _kw(args, kwargs, ['source', 'filename', 'mode', 'flags', 'dont_inherit'])
    eng.trusted_used.add('oracle:compile (returns a code object with the given filename, or raises some Exception; no other effect)')
    out = []
    for cls in [Exception] + list(eng.subclasses_of(Exception)):
        s = st.copy()
        exc = VExc(cls, {}, tag='compile')
        eng.log_event(s, 'compile', a, 'raise:' + cls.__name__)
        out.append((Raised(exc), s))
    flags = eng.ctx.fresh('co_flags', INT)
    code = st.alloc(HInst('CodeObj', {'co_flags': VInt(flags), 'co_filename': a.get('filename', VStr(StrV('<string>'))),
                                      'mode': a.get('mode', VStr(StrV('exec')))}))
    b = dict(a)
    b['result'] = code
    eng.log_event(st, 'compile', b, 'normal')
    out.append((code, st))
    return out


# ----------------------------------------------------------------------- exec / eval / asyncio.run
def _run_effects(eng, st, code, glob, what):
    """Effects of executing doctest code (see module docstring)."""
    # 1. output goes to the stream installed as sys.stdout when the code starts
    cur = st.globals.get(('sys', 'stdout'))
    if isinstance(cur, VRef) and isinstance(st.heap.get(cur.loc), HInst) and 'buf' in st.heap[cur.loc].fields:
        o = st.heap[cur.loc]
        out = eng.ctx.fresh('written', STR)
        f = dict(o.fields)
        f['buf'] = VStr(Concat(o.fields['buf'].t, out))
        st.heap[cur.loc] = HInst(o.cls, f, o.view)
    # 2. the code may rebind sys.stdout
    if ('sys', 'stdout') in st.globals:
        st.globals[('sys', 'stdout')] = _val(eng, 'stdout_after_' + what)
    # 3. names are bound in the globals dict it was given
    if isinstance(glob, VRef) and isinstance(st.heap.get(glob.loc), HInst) and 'cleared' in st.heap[glob.loc].fields:
        o = st.heap[glob.loc]
        f = dict(o.fields)
        f['cleared'] = VBool(FALSE)
        st.heap[glob.loc] = HInst(o.cls, f, o.view)


def _doctest_traceback(eng, st, filename):
    """A traceback value of an exception raised while running code compiled with ``filename``."""
    from .executor import VRecList
    tb = _val(eng, 'tb')
    rl = traceback_entries(eng, tb, st)
    k = eng.ctx.fresh('k_doctest_frame', INT)
    st.assume(And(Le(IntV(0), k), Lt(k, rl.n)))
    entry = eng.rec_element(rl, k, st)
    frame = st.heap[entry.loc].fields['tb_frame']
    codeo = st.heap[frame.loc].fields['f_code']
    fname = st.heap[codeo.loc].fields['co_filename']
    if isinstance(filename, VStr):
        st.assume(Eq(fname.t, filename.t))
    return tb


def traceback_entries(eng, tb, st):
    """The chain tb, tb.tb_next, ... as a record list that is a function of the traceback value."""
    from .executor import VRecList
    base = 'tbchain_' + ''.join(ch if ch.isalnum() else '_' for ch in tb.t.s)
    n = eng.model_app('tb_len', [tb.t], INT)
    st.assume(Ge(n, IntV(1)))
    return VRecList(n, 'TbEntry', base)


def _run_code(what):
    def model(eng, args, kwargs, st, node):
        code = args[0]
        glob = args[1] if len(args) > 1 else None
        eng.trusted_used.add('oracle:%s of doctest code (writes to the current sys.stdout, may rebind sys.stdout, binds globals, '
                             'returns any value or raises ANY exception class; traceback has a frame of the doctest file)' % what)
        if st.ghost.get('warn_depth', 0) <= 0:
            eng.oblige('pre', '%s-inside-catch_warnings' % what, st, FALSE, node,
                       note='doctest code must run inside warnings.catch_warnings (C12.warnings)')
        a = {'code': code, 'globals': glob if glob is not None else NONE}
        filename = None
        if isinstance(code, VRef) and isinstance(st.heap.get(code.loc), HInst):
            filename = st.heap[code.loc].fields.get('co_filename')
        out = []
        classes = [BaseException] + list(eng.subclasses_of(BaseException))
        for cls in classes:
            s = st.copy()
            _run_effects(eng, s, code, glob, what)
            tb = _doctest_traceback(eng, s, filename)
            exc = VExc(cls, {'__tb__': tb, '__id__': _val(eng, 'exc_id')}, tag=what)
            ea = dict(a)
            ea['exc'] = exc
            eng.log_event(s, what, ea, 'raise:' + cls.__name__)
            out.append((Raised(exc), s))
        _run_effects(eng, st, code, glob, what)
        r = _val(eng, what + '_value')
        if filename is not None:
            # eval of a coroutine part returns the coroutine object: remember which file its code belongs to
            cf = dict(st.ghost.get('__coro_file__', {}))
            cf[r.t.s] = filename
            st.ghost['__coro_file__'] = cf
        b = dict(a)
        b['result'] = r
        eng.log_event(st, what, b, 'normal')
        out.append((r, st))
        return out
    return model


FUNCS[builtins.exec] = _run_code('exec')
FUNCS[builtins.eval] = _run_code('eval')


@func(_asyncio.run)
def m_asyncio_run(eng, args, kwargs, st, node):
    # the coroutine object came from eval(code, globals): running it has the same kind of effects
    eng.trusted_used.add('oracle:asyncio.run (runs the coroutine to completion; leaves no loop running -- stdlib)')
    out = []
    for cls in [BaseException] + list(eng.subclasses_of(BaseException)):
        s = st.copy()
        _run_effects(eng, s, None, None, 'asyncio.run')
        fname = st.ghost.get('__coro_file__', {}).get(getattr(getattr(args[0], 't', None), 's', None))
        tb = _doctest_traceback(eng, s, fname) if fname is not None else _val(eng, 'tb')
        exc = VExc(cls, {'__tb__': tb, '__id__': _val(eng, 'exc_id')}, tag='asyncio.run')
        eng.log_event(s, 'asyncio.run', {'coro': args[0], 'exc': exc}, 'raise:' + cls.__name__)
        out.append((Raised(exc), s))
    _run_effects(eng, st, None, None, 'asyncio.run')
    r = _val(eng, 'awaited_value')
    eng.log_event(st, 'asyncio.run', {'coro': args[0], 'result': r}, 'normal')
    out.append((r, st))
    return out


@func(_asyncio.get_running_loop)
def m_get_running_loop(eng, args, kwargs, st, node):
    eng.trusted_used.add('stdlib:asyncio.get_running_loop (returns a loop or raises RuntimeError)')
    s2 = st.copy()
    return [(_val(eng, 'loop'), st), (Raised(VExc(RuntimeError, {}, tag='no-running-loop')), s2)]


# ------------------------------------------------------------------------------ warnings context
@func(_warnings.catch_warnings)
def m_catch_warnings(eng, args, kwargs, st, node):
    from .executor import VCtxMgr
    eng.trusted_used.add('stdlib:warnings.catch_warnings (restores filters/showwarning on exit; never suppresses an exception)')

    def enter(eng_, s, n):
        s.ghost['warn_depth'] = s.ghost.get('warn_depth', 0) + 1
        eng_.log_event(s, 'catch_warnings.__enter__', {}, 'normal')
        return [(_val(eng_, 'warn_list'), s)]

    def exit_(eng_, exc, s, n):
        s.ghost['warn_depth'] = s.ghost.get('warn_depth', 0) - 1
        eng_.log_event(s, 'catch_warnings.__exit__', {}, 'normal')
        return [(NONE, s)]
    return [(VCtxMgr(enter, exit_), st)]


# ---------------------------------------------------------------------------------- exc_info etc.
@func(_sys.exc_info)
def m_exc_info(eng, args, kwargs, st, node):
    from .executor import VExcInfo
    if not st.handling:
        return [(VTuple([NONE, NONE, NONE]), st)]
    return [(VTuple(VExcInfo(st.handling[-1]).items()), st)]


@func(_traceback.format_exception_only)
def m_format_exception_only(eng, args, kwargs, st, node):
    eng.trusted_used.add('stdlib:traceback.format_exception_only (a non-empty list of lines, a function of the exception; '
                         'uninterpreted text)')
    exc = args[1] if len(args) > 1 else None
    if isinstance(exc, VExc) and '__id__' in exc.attrs:
        seq = eng.model_app('py_exc_lines', [exc.attrs['__id__'].t], '(Seq String)')
    else:
        seq = eng.ctx.fresh('exc_lines', '(Seq String)')
    st.assume(Ge(Len(seq), IntV(1)))
    eng.log_event(st, 'format_exception_only', {'exc': exc if exc is not None else NONE, 'result': VSeq(seq, ('str',))}, 'normal')
    return [(st.alloc(HList(seq, ('str',))), st)]


@func(_traceback.format_exception)
def m_format_exception(eng, args, kwargs, st, node):
    """traceback.format_exception(type, value, tb): some list of lines.  What the callers need to know about the lines that name
    the doctest's pseudo file is a property of CPython's format and of how the traceback was produced; it is stated where it is
    used (the precondition of repr_failure._alter_traceback_linenos) and assumed through the contract that calls this."""
    eng.trusted_used.add('stdlib:traceback.format_exception (some list of lines)')
    seq = eng.ctx.fresh('tb_text_lines', '(Seq String)')
    return [(st.alloc(HList(seq, ('str',))), st)]


@func(_traceback.format_tb)
def m_format_tb(eng, args, kwargs, st, node):
    seq = eng.ctx.fresh('tb_lines', '(Seq String)')
    return [(st.alloc(HList(seq, ('str',))), st)]


@func(builtins.getattr)
def m_getattr(eng, args, kwargs, st, node):
    v, name = args[0], args[1]
    ok, n = eng.concrete(name)
    if not ok:
        raise Undecided('getattr with symbolic name', node)
    if isinstance(v, VExc):
        if n in v.attrs:
            return [(v.attrs[n], st)]
        if n == 'lineno':
            if issubclass(v.cls, SyntaxError) or issubclass(SyntaxError, v.cls):
                # a SyntaxError carries an optional line; other classes may or may not have the attribute
                from .symexec import VOptSym
                return [(VOptSym(eng.ctx.fresh('lineno_isnone', BOOL), VInt(eng.ctx.fresh('exc_lineno', INT))), st)]
            if len(args) > 2:
                return [(args[2], st)]
        raise Undecided('getattr(%r, %r)' % (v, n), node)
    if len(args) == 2:
        return eng.get_attr(v, n, st, node)
    try:
        return eng.get_attr(v, n, st, node)
    except Undecided:
        raise


# ------------------------------------------------------------------- RuntimeState seen from outside
@method('RuntimeState.__getitem__')
def rs_getitem(eng, args, kwargs, st, node):
    """runstate[key]: a pure function of the abstract state (lookup semantics verified under C04).
    'REQUIRES' yields a set, every other key a flag."""
    from .vals import HSet
    ref, key = args
    o = st.heap[ref.loc]
    state = o.fields['state']
    eng.trusted_used.add('RuntimeState.__getitem__ as the pure lookup rs_flag(state, key) / rs_requires(state) '
                         '(contract of __getitem__: C04.lookup)')
    ok, k = eng.concrete(key)
    if not ok:
        raise Undecided('runstate[symbolic key]', node)
    if k == 'REQUIRES':
        arr = eng.model_app('rs_requires', [state.t], '(Array String Bool)')
        return [(st.alloc(HSet(arr)), st)]
    return [(VBool(eng.model_app('rs_flag', [state.t, StrV(k)], BOOL)), st)]


try:
    import pytest as _pytest
    from _pytest.outcomes import Skipped as _Skipped

    @func(_pytest.skip)
    def m_pytest_skip(eng, args, kwargs, st, node):
        eng.trusted_used.add('pytest.skip() raises Skipped')
        return [(Raised(VExc(_Skipped, {}, tag='pytest.skip')), st)]
except Exception:       # pragma: no cover
    pass


@method('Namespace.clear')
def ns_clear(eng, args, kwargs, st, node):
    ref = args[0]
    o = st.heap[ref.loc]
    f = dict(o.fields)
    f['cleared'] = VBool(TRUE)
    st.heap[ref.loc] = HInst(o.cls, f, o.view)
    eng.log_event(st, 'Namespace.clear', {'self': ref}, 'normal')
    return [(NONE, st)]


@method('Namespace.update')
def ns_update(eng, args, kwargs, st, node):
    # entries of another mapping are copied into this namespace: it now holds entries; the argument is only read
    ref = args[0]
    o = st.heap[ref.loc]
    f = dict(o.fields)
    f['cleared'] = VBool(eng.ctx.fresh('ns_empty_after_update', BOOL))
    st.heap[ref.loc] = HInst(o.cls, f, o.view)
    return [(NONE, st)]


def install_repo_models(eng):
    """Models keyed by functions of the tree under verification."""
    import importlib
    de = importlib.import_module('xdoctest.doctest_example')

    def m_traverse(eng_, args, kwargs, st, node):
        eng_.trusted_used.add('xdoctest.doctest_example:_traverse_traceback as the chain tb, tb.tb_next, ... in order '
                              '(a 6-line generator; record-list view of the traceback)')
        tb = args[0]
        from .symexec import VOptSym
        if isinstance(tb, VOptSym):
            tb = tb.val
        return [(traceback_entries(eng_, tb, st), st)]
    eng.models[de._traverse_traceback] = m_traverse
