"""
pyvc.smt -- a small term language printed as standard SMT-LIB 2.6.

Terms are immutable and carry their own printed form; every back end (z3 via
``Solver.from_string``, cvc5 and z3 CLIs) sees exactly the same text.  Smart
constructors fold constants so that concrete sub-computations of the
symbolic executor stay concrete.
"""
import itertools
import re

INT, BOOL, STR = 'Int', 'Bool', 'String'


def seq_sort(elem):
    return STR if elem == '__char__' else '(Seq %s)' % elem


def elem_sort(sort):
    assert sort.startswith('(Seq '), sort
    return sort[5:-1]


class T(object):
    """An SMT term: printed text, sort, free symbols, recursive-spec apps."""
    __slots__ = ('s', 'sort', 'syms', 'apps', 'lit')

    def __init__(self, s, sort, syms=frozenset(), apps=frozenset(), lit=None):
        self.s = s
        self.sort = sort
        self.syms = syms
        self.apps = apps
        self.lit = lit      # python value for literals, else None

    def __repr__(self):
        return 'T<%s:%s>' % (self.s if len(self.s) < 200 else self.s[:200] + '...', self.sort)

    @property
    def is_lit(self):
        return self.lit is not None


_EMPTY = frozenset()


def _merge(args):
    syms = _EMPTY
    apps = _EMPTY
    for a in args:
        if a.syms:
            syms = syms | a.syms if syms else a.syms
        if a.apps:
            apps = apps | a.apps if apps else a.apps
    return syms, apps


def mk(op, args, sort):
    syms, apps = _merge(args)
    return T('(%s %s)' % (op, ' '.join(a.s for a in args)), sort, syms, apps)


# ---------------------------------------------------------------- literals

def IntV(n):
    n = int(n)
    return T(str(n) if n >= 0 else '(- %d)' % (-n), INT, lit=('i', n))


def BoolV(b):
    return TRUE if b else FALSE


TRUE = T('true', BOOL, lit=('b', True))
FALSE = T('false', BOOL, lit=('b', False))


def _esc(s):
    out = []
    for ch in s:
        o = ord(ch)
        if ch == '"':
            out.append('""')
        elif 32 <= o < 127 and ch != '\\':
            out.append(ch)
        else:
            out.append('\\u{%x}' % o)
    return ''.join(out)


def StrV(s):
    return T('"%s"' % _esc(s), STR, lit=('s', s))


def litval(t):
    return t.lit[1]


# ------------------------------------------------------------ declarations

class Ctx(object):
    """Symbol table: constants, functions, attached axioms, unfoldings."""

    def __init__(self):
        self.consts = {}        # name -> sort
        self.funs = {}          # name -> (argsorts, ret)
        self.fun_axioms = {}    # name -> [T]   (added whenever the symbol is used)
        self.unfold = {}        # app text -> T  (fuel-1 definitional facts)
        self.sorts = set()      # uninterpreted sorts
        self.datatypes = []     # raw declare-datatypes text
        self._n = itertools.count()
        self.meta = {}          # name -> free-form info (origin of a fresh symbol)

    def fresh_name(self, base):
        base = re.sub(r'[^A-Za-z0-9_.]', '_', base)
        return '%s!%d' % (base, next(self._n))

    def const(self, name, sort):
        if name in self.consts:
            assert self.consts[name] == sort, (name, sort, self.consts[name])
        self.consts[name] = sort
        return T(name, sort, frozenset([name]))

    def fresh(self, base, sort, meta=None):
        name = self.fresh_name(base)
        if meta is not None:
            self.meta[name] = meta
        return self.const(name, sort)

    def fun(self, name, argsorts, ret):
        sig = (tuple(argsorts), ret)
        if name in self.funs:
            assert self.funs[name] == sig, (name, sig, self.funs[name])
        self.funs[name] = sig
        return name

    def app(self, name, *args):
        argsorts, ret = self.funs[name]
        assert len(args) == len(argsorts), (name, args)
        for a, s in zip(args, argsorts):
            assert a.sort == s, ('sort mismatch in %s: %s vs %s' % (name, a, s))
        syms, apps = _merge(args)
        if not args:
            return T(name, ret, frozenset([name]))
        return T('(%s %s)' % (name, ' '.join(a.s for a in args)), ret,
                 syms | frozenset([name]), apps)

    def sort(self, name):
        self.sorts.add(name)
        return name


CTX = Ctx()


def reset_ctx():
    global CTX
    CTX = Ctx()
    return CTX


# ------------------------------------------------------------------- bools

def And(*ts):
    out = []
    seen = set()
    for t in ts:
        if isinstance(t, (list, tuple)):
            sub = And(*t)
            t = sub
        assert t.sort == BOOL, t
        if t.lit is not None:
            if not t.lit[1]:
                return FALSE
            continue
        if t.s.startswith('(and '):
            pass
        if t.s in seen:
            continue
        seen.add(t.s)
        out.append(t)
    if not out:
        return TRUE
    if len(out) == 1:
        return out[0]
    return mk('and', out, BOOL)


def Or(*ts):
    out = []
    seen = set()
    for t in ts:
        if isinstance(t, (list, tuple)):
            t = Or(*t)
        assert t.sort == BOOL, t
        if t.lit is not None:
            if t.lit[1]:
                return TRUE
            continue
        if t.s in seen:
            continue
        seen.add(t.s)
        out.append(t)
    if not out:
        return FALSE
    if len(out) == 1:
        return out[0]
    return mk('or', out, BOOL)


_NOT_INNER = {}


def Not(t):
    assert t.sort == BOOL, t
    if t.lit is not None:
        return BoolV(not t.lit[1])
    inner = _NOT_INNER.get(t.s)
    if inner is not None:
        return inner
    r = mk('not', [t], BOOL)
    _NOT_INNER[r.s] = t
    return r


def Implies(a, b):
    if a.lit is not None:
        return b if a.lit[1] else TRUE
    if b.lit is not None:
        return TRUE if b.lit[1] else Not(a)
    return mk('=>', [a, b], BOOL)


def Iff(a, b):
    return Eq(a, b)


def Ite(c, a, b):
    assert c.sort == BOOL and a.sort == b.sort, (c, a, b)
    if c.lit is not None:
        return a if c.lit[1] else b
    if a.s == b.s:
        return a
    if a.sort == BOOL:
        if a.lit is not None and b.lit is not None:
            return c if a.lit[1] else Not(c)
    return mk('ite', [c, a, b], a.sort)


def Eq(a, b):
    assert a.sort == b.sort, ('Eq sorts', a, b)
    if a.s == b.s:
        return TRUE
    if a.lit is not None and b.lit is not None:
        return BoolV(a.lit[1] == b.lit[1])
    if a.sort == BOOL:
        if a.lit is not None:
            return b if a.lit[1] else Not(b)
        if b.lit is not None:
            return a if b.lit[1] else Not(a)
    return mk('=', [a, b], BOOL)


def Ne(a, b):
    return Not(Eq(a, b))


def Distinct(*ts):
    if len(ts) < 2:
        return TRUE
    return mk('distinct', ts, BOOL)


# -------------------------------------------------------------------- ints

def _ilit(t):
    return t.lit[1] if t.lit is not None else None


def Add(*ts):
    c = 0
    rest = []
    for t in ts:
        assert t.sort == INT, t
        if t.lit is not None:
            c += t.lit[1]
        else:
            rest.append(t)
    if not rest:
        return IntV(c)
    if c != 0:
        rest.append(IntV(c))
    if len(rest) == 1:
        return rest[0]
    return mk('+', rest, INT)


def Sub(a, b):
    assert a.sort == INT and b.sort == INT, (a, b)
    if b.lit is not None:
        return Add(a, IntV(-b.lit[1]))
    if a.s == b.s:
        return IntV(0)
    return mk('-', [a, b], INT)


def Neg(a):
    if a.lit is not None:
        return IntV(-a.lit[1])
    return mk('-', [a], INT)


def Mul(a, b):
    if a.lit is not None and b.lit is not None:
        return IntV(a.lit[1] * b.lit[1])
    for x, y in ((a, b), (b, a)):
        if x.lit is not None:
            if x.lit[1] == 0:
                return IntV(0)
            if x.lit[1] == 1:
                return y
    return mk('*', [a, b], INT)


def FloorDiv(a, b):
    # Python floor division; SMT-LIB div is Euclidean: equal for b > 0.
    if a.lit is not None and b.lit is not None and b.lit[1] != 0:
        return IntV(a.lit[1] // b.lit[1])
    if b.lit is not None and b.lit[1] > 0:
        return mk('div', [a, b], INT)
    # general: floor(a/b)
    q = mk('div', [a, b], INT)
    r = mk('mod', [a, b], INT)
    return Ite(And(Lt(b, IntV(0)), Ne(r, IntV(0))), Add(q, IntV(1)), q)


def Mod(a, b):
    if a.lit is not None and b.lit is not None and b.lit[1] != 0:
        return IntV(a.lit[1] % b.lit[1])
    if b.lit is not None and b.lit[1] > 0:
        return mk('mod', [a, b], INT)
    r = mk('mod', [a, b], INT)
    return Ite(And(Lt(b, IntV(0)), Ne(r, IntV(0))), Add(r, b), r)


def _cmp(op, pyop, a, b):
    assert a.sort == INT and b.sort == INT, (op, a, b)
    if a.lit is not None and b.lit is not None:
        return BoolV(pyop(a.lit[1], b.lit[1]))
    if a.s == b.s:
        return BoolV(pyop(0, 0))
    return mk(op, [a, b], BOOL)


def Lt(a, b):
    return _cmp('<', lambda x, y: x < y, a, b)


def Le(a, b):
    return _cmp('<=', lambda x, y: x <= y, a, b)


def Gt(a, b):
    return _cmp('>', lambda x, y: x > y, a, b)


def Ge(a, b):
    return _cmp('>=', lambda x, y: x >= y, a, b)


def Max(a, b):
    if a.lit is not None and b.lit is not None:
        return IntV(max(a.lit[1], b.lit[1]))
    return Ite(Ge(a, b), a, b)


def Min(a, b):
    if a.lit is not None and b.lit is not None:
        return IntV(min(a.lit[1], b.lit[1]))
    return Ite(Le(a, b), a, b)


# -------------------------------------------------- strings and sequences

def is_seq(sort):
    return sort == STR or sort.startswith('(Seq ')


def _p(sort):
    return 'str' if sort == STR else 'seq'


def Len(s):
    assert is_seq(s.sort), s
    if s.lit is not None:
        return IntV(len(s.lit[1]))
    if s.s.startswith('(seq.unit '):
        return IntV(1)
    return mk(_p(s.sort) + '.len', [s], INT)


def Empty(sort):
    if sort == STR:
        return StrV('')
    return T('(as seq.empty %s)' % sort, sort, lit=('q', ()))


def Unit(x):
    if x.sort == '__char__':
        raise AssertionError
    return mk('seq.unit', [x], '(Seq %s)' % x.sort)


def Concat(*ts):
    sort = ts[0].sort
    out = []
    for t in ts:
        assert t.sort == sort, ('Concat sorts', ts)
        if t.lit is not None and len(t.lit[1]) == 0:
            continue
        if sort == STR and out and out[-1].lit is not None and t.lit is not None:
            out[-1] = StrV(out[-1].lit[1] + t.lit[1])
            continue
        out.append(t)
    if not out:
        return Empty(sort)
    if len(out) == 1:
        return out[0]
    return mk(_p(sort) + '.++', out, sort)


def Substr(s, off, n):
    """SMT-LIB semantics: empty unless 0 <= off < len(s) and n > 0."""
    assert is_seq(s.sort) and off.sort == INT and n.sort == INT, (s, off, n)
    if s.sort == STR and s.lit is not None and off.lit is not None and n.lit is not None:
        o, k, v = off.lit[1], n.lit[1], s.lit[1]
        if o < 0 or o >= len(v) or k <= 0:
            return StrV('')
        return StrV(v[o:o + k])
    if n.lit is not None and n.lit[1] <= 0:
        return Empty(s.sort)
    op = 'str.substr' if s.sort == STR else 'seq.extract'
    return mk(op, [s, off, n], s.sort)


def At(s, i):
    """Element access: for strings a length-1 string, for Seq the element."""
    if s.sort == STR:
        if s.lit is not None and i.lit is not None:
            v, k = s.lit[1], i.lit[1]
            return StrV(v[k] if 0 <= k < len(v) else '')
        return mk('str.at', [s, i], STR)
    return mk('seq.nth', [s, i], elem_sort(s.sort))


def IndexOf(s, t, start):
    if s.lit is not None and t.lit is not None and start.lit is not None and s.sort == STR:
        v, w, k = s.lit[1], t.lit[1], start.lit[1]
        if k < 0 or k > len(v):
            return IntV(-1)
        return IntV(v.find(w, k))
    return mk(_p(s.sort) + '.indexof', [s, t, start], INT)


def Contains(s, t):
    if s.lit is not None and t.lit is not None and s.sort == STR:
        return BoolV(t.lit[1] in s.lit[1])
    if t.lit is not None and len(t.lit[1]) == 0:
        return TRUE
    return mk(_p(s.sort) + '.contains', [s, t], BOOL)


def PrefixOf(p, s):
    if s.lit is not None and p.lit is not None and s.sort == STR:
        return BoolV(s.lit[1].startswith(p.lit[1]))
    if p.lit is not None and len(p.lit[1]) == 0:
        return TRUE
    return mk(_p(s.sort) + '.prefixof', [p, s], BOOL)


def SuffixOf(p, s):
    if s.lit is not None and p.lit is not None and s.sort == STR:
        return BoolV(s.lit[1].endswith(p.lit[1]))
    if p.lit is not None and len(p.lit[1]) == 0:
        return TRUE
    return mk(_p(s.sort) + '.suffixof', [p, s], BOOL)


def Replace(s, a, b):
    return mk('str.replace', [s, a, b], STR)


def ReplaceAll(s, a, b):
    if s.lit is not None and a.lit is not None and b.lit is not None and a.lit[1] != '':
        return StrV(s.lit[1].replace(a.lit[1], b.lit[1]))
    return mk('str.replace_all', [s, a, b], STR)


def StrFromInt(i):
    if i.lit is not None and i.lit[1] >= 0:
        return StrV(str(i.lit[1]))
    # str.from_int is "" for negatives; Python prints a sign.
    return Ite(Ge(i, IntV(0)), mk('str.from_int', [i], STR),
               Concat(StrV('-'), mk('str.from_int', [Neg(i)], STR)))


def InRe(s, re_text):
    return T('(str.in_re %s %s)' % (s.s, re_text), BOOL, s.syms, s.apps)


# ------------------------------------------------------------- quantifiers

def bound(ctx, base, sort):
    """A fresh bound variable (printed like a constant, never declared)."""
    name = ctx.fresh_name('q_' + base)
    return T(name, sort, frozenset(['?' + name]))


def _quant(kind, vs, body, patterns):
    assert body.sort == BOOL
    if body.lit is not None:
        return body
    names = frozenset('?' + v.s for v in vs)
    syms = body.syms - names
    binders = ' '.join('(%s %s)' % (v.s, v.sort) for v in vs)
    inner = body.s
    pats = [p for p in (patterns or []) if p]
    if pats:
        inner = '(! %s %s)' % (body.s, ' '.join(
            ':pattern (%s)' % ' '.join(t.s for t in p) for p in pats))
    # recursive-spec apps mentioning a bound variable cannot be unfolded as ground facts
    return T('(%s (%s) %s)' % (kind, binders, inner), BOOL, syms, body.apps)


def ForAll(vs, body, patterns=None):
    return _quant('forall', vs, body, patterns)


def Exists(vs, body, patterns=None):
    return _quant('exists', vs, body, patterns)


# ------------------------------------------------------------------ queries

def closure_syms(ctx, terms):
    """All symbols needed by the terms, including those of attached axioms."""
    todo = set()
    for t in terms:
        todo |= t.syms
    seen = set()
    axioms = []
    while todo:
        s = todo.pop()
        if s in seen or s.startswith('?'):
            continue
        seen.add(s)
        for ax in ctx.fun_axioms.get(s, ()):
            axioms.append(ax)
            todo |= ax.syms
    return seen, axioms


def unfoldings(ctx, terms, fuel=1):
    """Definitional facts for the spec-function applications in the terms.

    Facts of uninterpreted spec functions (kind 'fact') are closed transitively;
    unfoldings of recursive definitions (kind 'rec') are limited by ``fuel``.
    """
    facts = []
    done = set()
    frontier = set()
    for t in terms:
        frontier |= t.apps
    depth = 0
    while frontier and depth < 8:
        nxt = set()
        for key in sorted(frontier):
            if key in done:
                continue
            entry = ctx.unfold.get(key)
            if entry is None:
                done.add(key)
                continue
            kind, fact = entry
            if kind == 'rec' and depth >= fuel:
                continue
            done.add(key)
            if callable(fact):
                fact = fact()
                ctx.unfold[key] = (kind, fact)
            facts.append(fact)
            nxt |= fact.apps
        frontier = nxt - done
        depth += 1
    return facts


def build_query(ctx, hyps, goal=None, fuel=1, get_model=False, extra_opts=(), with_axioms=True):
    """SMT-LIB text asserting hyps and the negation of goal."""
    terms = list(hyps) + ([goal] if goal is not None else [])
    unf = unfoldings(ctx, terms, fuel) if with_axioms else []
    syms, axioms = closure_syms(ctx, terms + unf)
    if not with_axioms:
        # pruning queries: quantified axioms only make 'sat' slow; leaving them out can only weaken pruning
        axioms = [a for a in axioms if '(forall ' not in a.s and '(exists ' not in a.s]
        syms, _ = closure_syms(ctx, terms + axioms)
    # axioms may themselves contain recursive apps
    unf2 = unfoldings(ctx, axioms, fuel)
    if unf2:
        seen = set(u.s for u in unf)
        unf2 = [u for u in unf2 if u.s not in seen]
        unf += unf2
        syms, axioms = closure_syms(ctx, terms + unf)
    lines = ['(set-logic ALL)']
    for o in extra_opts:
        lines.append(o)
    for s in sorted(ctx.sorts):
        lines.append('(declare-sort %s 0)' % s)
    for d in ctx.datatypes:
        lines.append(d)
    for name in sorted(syms):
        if name in ctx.consts:
            lines.append('(declare-const %s %s)' % (name, ctx.consts[name]))
        elif name in ctx.funs:
            a, r = ctx.funs[name]
            lines.append('(declare-fun %s (%s) %s)' % (name, ' '.join(a), r))
        else:
            raise KeyError('undeclared symbol %r' % name)
    seen = set()
    for t in axioms + unf + list(hyps):
        if t.lit is not None and t.lit[1]:
            continue
        if t.s in seen:
            continue
        seen.add(t.s)
        lines.append('(assert %s)' % t.s)
    if goal is not None:
        lines.append('(assert (not %s))' % goal.s)
    lines.append('(check-sat)')
    if get_model:
        lines.append('(get-model)')
    return '\n'.join(lines) + '\n'
