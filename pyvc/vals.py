"""
pyvc.vals -- types, symbolic values and heap objects of the symbolic executor.
"""
from . import smt
from .smt import T, INT, BOOL, STR


class Undecided(Exception):
    """The engine cannot handle a construct: the function is *undecided*."""

    def __init__(self, msg, node=None):
        self.node = node
        self.lineno = getattr(node, 'lineno', None)
        Exception.__init__(self, msg if self.lineno is None else '%s (line %s)' % (msg, self.lineno))


# ----------------------------------------------------------------- types
# A type is a tuple: ('int',) ('bool',) ('str',) ('none',) ('val',)
# ('list', elem) ('tuple', (t1, ...)) ('opt', inner) ('obj', cls)
# ('dict', k, v) ('set', elem) ('exc',)

T_INT, T_BOOL, T_STR, T_NONE, T_VAL = ('int',), ('bool',), ('str',), ('none',), ('val',)


def _split_union(s):
    out, depth, cur = [], 0, ''
    for ch in s:
        if ch == '[':
            depth += 1
        elif ch == ']':
            depth -= 1
        if ch == '|' and depth == 0:
            out.append(cur)
            cur = ''
        else:
            cur += ch
    out.append(cur)
    return out


def parse_type(s):
    s = s.strip()
    alts = _split_union(s)
    if len(alts) > 1:
        return ('union', tuple(parse_type(x) for x in alts))
    if s == 'Logger':
        return ('logger',)
    if s == 'flagdict':
        return ('flagdict',)
    simple = {'int': T_INT, 'bool': T_BOOL, 'str': T_STR, 'None': T_NONE,
              'Val': T_VAL, 'object': T_VAL, 'Any': T_VAL}
    if s in simple:
        return simple[s]
    if s.endswith(']'):
        head, inner = s[:s.index('[')], s[s.index('[') + 1:-1]
        parts = _split_top(inner)
        head = head.strip()
        if head in ('list', 'List'):
            return ('list', parse_type(parts[0]))
        if head in ('Optional',):
            return ('opt', parse_type(parts[0]))
        if head == 'Maybe':
            return ('optsym', parse_type(parts[0]))    # Optional parameter kept symbolic (one entry state)
        if head in ('tuple', 'Tuple'):
            return ('tuple', tuple(parse_type(p) for p in parts))
        if head in ('dict', 'Dict'):
            return ('dict', parse_type(parts[0]), parse_type(parts[1]))
        if head in ('set', 'Set'):
            return ('set', parse_type(parts[0]))
        if head in ('reclist',):
            return ('reclist', parts[0].strip())
        if head in ('map',):
            return ('map', parse_type(parts[0]), parse_type(parts[1]))
        if head == 'recseq':
            return ('recseq', parts[0].strip())        # growing list of records (struct of sequences)
        if head == 'idxlist':
            return ('idxlist', parts[0].strip())       # list of references into a reclist (by index)
        if head == 'exc':
            return ('exc', parts[0].strip())           # an exception instance of exactly this class
        if head == 'Exc':
            return ('excunder', parts[0].strip())      # an instance of some subclass (one alternative per representative)
        raise ValueError('unknown type %r' % s)
    if s.startswith("'") and s.endswith("'"):
        return ('const', s[1:-1])
    return ('obj', s)


def _split_top(s):
    out, depth, cur = [], 0, ''
    for ch in s:
        if ch == '[':
            depth += 1
        elif ch == ']':
            depth -= 1
        if ch == ',' and depth == 0:
            out.append(cur)
            cur = ''
        else:
            cur += ch
    if cur.strip():
        out.append(cur)
    return out


def sort_of(ty):
    k = ty[0]
    if k == 'int':
        return INT
    if k == 'bool':
        return BOOL
    if k == 'str':
        return STR
    if k == 'val':
        smt.CTX.sort('Val')
        return 'Val'
    if k == 'list':
        return '(Seq %s)' % sort_of(ty[1])
    raise Undecided('no SMT sort for type %r' % (ty,))


# ---------------------------------------------------------------- values

class V(object):
    pass


class VInt(V):
    __slots__ = ('t',)
    ty = T_INT

    def __init__(self, t):
        assert t.sort == INT, t
        self.t = t

    def __repr__(self):
        return 'VInt(%s)' % self.t.s


class VBool(V):
    __slots__ = ('t',)
    ty = T_BOOL

    def __init__(self, t):
        assert t.sort == BOOL, t
        self.t = t

    def __repr__(self):
        return 'VBool(%s)' % self.t.s


class VStr(V):
    __slots__ = ('t',)
    ty = T_STR

    def __init__(self, t):
        assert t.sort == STR, t
        self.t = t

    def __repr__(self):
        return 'VStr(%s)' % self.t.s


class VNone(V):
    ty = T_NONE

    def __repr__(self):
        return 'VNone'


NONE = VNone()


class VVal(V):
    """An opaque Python object (uninterpreted sort Val)."""
    __slots__ = ('t',)
    ty = T_VAL

    def __init__(self, t):
        self.t = t

    def __repr__(self):
        return 'VVal(%s)' % self.t.s


class VSeq(V):
    """An immutable sequence *value* (used for pure/spec level lists)."""
    __slots__ = ('t', 'elem')

    def __init__(self, t, elem):
        self.t = t
        self.elem = elem

    @property
    def ty(self):
        return ('list', self.elem)

    def __repr__(self):
        return 'VSeq(%s)' % self.t.s


class VTuple(V):
    __slots__ = ('items',)

    def __init__(self, items):
        self.items = list(items)

    @property
    def ty(self):
        return ('tuple', tuple(getattr(i, 'ty', T_VAL) for i in self.items))

    def __repr__(self):
        return 'VTuple(%r)' % (self.items,)


class VRef(V):
    """Reference to a heap object (concrete location)."""
    __slots__ = ('loc',)

    def __init__(self, loc):
        self.loc = loc

    def __repr__(self):
        return 'VRef(%s)' % self.loc


class VEmptyList(V):
    """The empty list at spec level (element type taken from the context it is used in)."""

    def __repr__(self):
        return 'VEmptyList'


EMPTY_LIST = VEmptyList()


class VFunc(V):
    """A function/lambda defined in the code under analysis (inlined on call)."""
    __slots__ = ('node', 'frame', 'defaults', 'name', 'modname')

    def __init__(self, node, frame, defaults, name, modname):
        self.node = node
        self.frame = frame
        self.defaults = defaults
        self.name = name
        self.modname = modname


class VPy(V):
    """A concrete Python object taken from the real module (callable, module, class, regex ...)."""
    __slots__ = ('obj',)

    def __init__(self, obj):
        self.obj = obj

    def __repr__(self):
        return 'VPy(%r)' % (self.obj,)


class VBound(V):
    __slots__ = ('recv', 'name')

    def __init__(self, recv, name):
        self.recv = recv
        self.name = name


class VExc(V):
    """An exception instance with a concrete class."""
    __slots__ = ('cls', 'attrs', 'tag')

    def __init__(self, cls, attrs=None, tag=None):
        self.cls = cls
        self.attrs = attrs or {}
        self.tag = tag      # e.g. 'live' for the exception active on entry

    def __repr__(self):
        return 'VExc(%s%s)' % (self.cls.__name__, ':' + self.tag if self.tag else '')


class Raised(object):
    """Marker result of an expression evaluation that raised."""
    __slots__ = ('exc',)

    def __init__(self, exc):
        self.exc = exc


# ------------------------------------------------------------ heap objects

class HList(object):
    """Homogeneous list of primitives represented as one Seq term."""
    __slots__ = ('seq', 'elem')

    def __init__(self, seq, elem):
        self.seq = seq
        self.elem = elem


class HPyList(object):
    """List of concrete length holding arbitrary values."""
    __slots__ = ('items',)

    def __init__(self, items):
        self.items = list(items)


class HDict(object):
    """Dict with a concrete, ordered key set (string keys) and symbolic values."""
    __slots__ = ('entries',)

    def __init__(self, entries):
        self.entries = dict(entries)


class HSet(object):
    """Set of strings: symbolic membership predicate Array String Bool."""
    __slots__ = ('arr',)

    def __init__(self, arr):
        self.arr = arr


class HObjList(object):
    """List of symbolic length whose elements are anonymous objects of one known class
    (e.g. the exceptions collected by a loop); only the length is tracked."""
    __slots__ = ('n', 'cls')

    def __init__(self, n, cls):
        self.n = n
        self.cls = cls


class HRecSeq(object):
    """Growing list of records: field f of element j is At(fields[f], j); all field sequences have length n."""
    __slots__ = ('cls', 'fields', 'n')

    def __init__(self, cls, fields, n):
        self.cls = cls
        self.fields = dict(fields)      # f -> (Seq term, element type)
        self.n = n


class HIdxList(object):
    """List of references to elements of a symbolic record list (VRecList), kept as the Seq Int of their indices."""
    __slots__ = ('base', 'idx')

    def __init__(self, base, idx):
        self.base = base                # VRecList
        self.idx = idx


class HOpaque(object):
    """Write-only container (e.g. a dict of timings keyed by objects): stores are accepted, reads are undecided."""
    __slots__ = ('what',)

    def __init__(self, what):
        self.what = what


class HMap(object):
    """Symbolic dict with Int keys: presence array + value array (+ value type)."""
    __slots__ = ('present', 'vals', 'vty')

    def __init__(self, present, vals, vty):
        self.present = present
        self.vals = vals
        self.vty = vty


class HInst(object):
    __slots__ = ('cls', 'fields', 'view')

    def __init__(self, cls, fields, view=None):
        self.cls = cls
        self.fields = dict(fields)
        self.view = view        # (reclist base, index term) for read-only element views


def wrap(t, ty):
    """Wrap an SMT term of the sort of ``ty`` as a value."""
    k = ty[0]
    if k == 'int':
        return VInt(t)
    if k == 'bool':
        return VBool(t)
    if k == 'str':
        return VStr(t)
    if k == 'val':
        return VVal(t)
    if k == 'list':
        return VSeq(t, ty[1])
    raise Undecided('cannot wrap term as %r' % (ty,))
