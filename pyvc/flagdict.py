"""
pyvc.flagdict -- dicts with symbolic string keys whose values are booleans, except for the entry
'REQUIRES' which (when present) holds a set of strings: the shape of the two state dicts of
xdoctest.directive.RuntimeState.

heap object  HFlagDict(present: Array String Bool, bval: Array String Bool, req: VRef(HSet))
   `key in d`            select(present, key)
   `d[key]`              req (the set object) for key == 'REQUIRES', else select(bval, key); KeyError unless present
   `d[key] = v`          bool v: store in bval/present (key != 'REQUIRES' is a safety obligation: the REQUIRES entry
                         must stay a set); set v: key == 'REQUIRES' (obligation), req := v
   `d.clear()`           present := const false
   `d.update(e)`         pointwise override by another HFlagDict (fresh arrays + quantified definition)
spec-level value  VFlags(present, bval): `flags_of(d)`, `.set(k, v)`, `.has(k)`, `[k]`, `==`, `.without(k)`
"""
from . import smt
from .smt import BOOL, STR, INT, TRUE, FALSE, And, Or, Not, Eq, Ite, Implies, StrV, BoolV
from .vals import (Undecided, V, VBool, VStr, VNone, NONE, VRef, VPy, Raised, VExc, HSet, HInst)

ARR = '(Array String Bool)'
REQ = StrV('REQUIRES')


class HFlagDict(object):
    __slots__ = ('present', 'bval', 'req')

    def __init__(self, present, bval, req):
        self.present = present
        self.bval = bval
        self.req = req          # VRef to the HSet stored under 'REQUIRES' (meaningful iff present['REQUIRES'])


class VFlags(V):
    """Immutable value of a flag dict (spec level): key set + flag values."""

    def __init__(self, present, bval):
        self.present = present
        self.bval = bval

    def __repr__(self):
        return 'VFlags(%s, %s)' % (self.present.s[:30], self.bval.s[:30])


class VSetVal(V):
    """Immutable value of a set of strings (snapshot of a heap set)."""

    def __init__(self, arr):
        self.arr = arr


def sel(a, k):
    return smt.mk('select', [a, k], BOOL)


def store(a, k, v):
    return smt.mk('store', [a, k, v], a.sort)


def const_arr(b):
    return smt.T('((as const %s) %s)' % (ARR, 'true' if b else 'false'), ARR)


def fresh(eng, base, st):
    req = st.alloc(HSet(eng.ctx.fresh(base + '_req', ARR)))
    return st.alloc(HFlagDict(eng.ctx.fresh(base + '_has', ARR), eng.ctx.fresh(base + '_flag', ARR), req))


def empty(eng, st):
    req = st.alloc(HSet(const_arr(False)))
    return st.alloc(HFlagDict(const_arr(False), const_arr(False), req))


def from_concrete(eng, d, st):
    """Deep copy of a concrete dict {str: bool | set()} (copy.deepcopy(DEFAULT_RUNTIME_STATE))."""
    present, bval = const_arr(False), const_arr(False)
    req = None
    for k, v in d.items():
        if not isinstance(k, str):
            raise Undecided('flag dict with a non-string key')
        present = store(present, StrV(k), TRUE)
        if isinstance(v, bool):
            bval = store(bval, StrV(k), BoolV(v))
        elif isinstance(v, (set, frozenset)) and k == 'REQUIRES':
            arr = const_arr(False)
            for x in sorted(v):
                arr = store(arr, StrV(x), TRUE)
            req = st.alloc(HSet(arr))        # a NEW set object: deepcopy never shares mutable values
        else:
            raise Undecided('flag dict value %r under %r' % (v, k))
    if req is None:
        req = st.alloc(HSet(const_arr(False)))
    return st.alloc(HFlagDict(present, bval, req))


def contains(eng, o, key, st):
    return sel(o.present, key.t)


def getitem(eng, ref, o, key, st, node):
    """[(value | Raised, state)]"""
    if not isinstance(key, VStr):
        raise Undecided('flag dict key %r' % (key,), node)
    out = []
    is_req = Eq(key.t, REQ)
    for flag, s in eng.fork_on(st, is_req):
        o2 = s.heap[ref.loc]
        for r, s2 in eng._safe_result(sel(o2.present, key.t), NONE, KeyError, s, node):
            if isinstance(r, Raised):
                out.append((r, s2))
            elif flag:
                out.append((o2.req, s2))
            else:
                out.append((VBool(sel(o2.bval, key.t)), s2))
    return out


def setitem(eng, ref, o, key, v, st, node):
    if not isinstance(key, VStr):
        raise Undecided('flag dict key %r' % (key,), node)
    if isinstance(v, VBool):
        ok = Not(Eq(key.t, REQ))
        eng.oblige('safe', 'REQUIRES-entry-stays-a-set', st, ok, node,
                   note='a bool is stored in a state dict: the key must not be REQUIRES')
        st.assume(ok)
        st.heap[ref.loc] = HFlagDict(store(o.present, key.t, TRUE), store(o.bval, key.t, v.t), o.req)
        return
    from .vals import VVal
    if isinstance(v, VVal):
        # an opaque value stored as a flag: its boolean content (S.val_bool); the producer's contract says it is a bool
        b = val_bool(eng, v.t)
        return setitem(eng, ref, o, key, VBool(b), st, node)
    if isinstance(v, VRef) and isinstance(st.heap.get(v.loc), HSet):
        ok = Eq(key.t, REQ)
        eng.oblige('safe', 'only-REQUIRES-holds-a-set', st, ok, node)
        st.assume(ok)
        st.heap[ref.loc] = HFlagDict(store(o.present, key.t, TRUE), o.bval, v)
        return
    raise Undecided('store of %r in a flag dict' % (v,), node)


def clear(eng, ref, o, st):
    st.heap[ref.loc] = HFlagDict(const_arr(False), o.bval, o.req)


def update(eng, ref, o, other, st, node):
    """d.update(e): entries of e override (e must not carry REQUIRES: obligation)."""
    ok = Not(sel(other.present, REQ))
    eng.oblige('safe', 'update-source-has-no-REQUIRES', st, ok, node)
    st.assume(ok)
    P = eng.ctx.fresh('upd_has', ARR)
    B = eng.ctx.fresh('upd_flag', ARR)
    k = smt.bound(eng.ctx, 'k', STR)
    st.assume(smt.ForAll([k], Eq(sel(P, k), Or(sel(o.present, k), sel(other.present, k))), patterns=[[sel(P, k)]]))
    st.assume(smt.ForAll([k], Eq(sel(B, k), Ite(sel(other.present, k), sel(other.bval, k), sel(o.bval, k))), patterns=[[sel(B, k)]]))
    st.heap[ref.loc] = HFlagDict(P, B, o.req)


def flags_value(o):
    return VFlags(o.present, o.bval)


def val_bool(eng, t):
    eng.ctx.sort('Val')
    eng.ctx.fun('val_bool', ['Val'], BOOL)
    return eng.ctx.app('val_bool', t)


def val_str(eng, t):
    eng.ctx.sort('Val')
    eng.ctx.fun('val_str', ['Val'], STR)
    return eng.ctx.app('val_str', t)


def shallow_copy(eng, ref, st):
    """dict(d) / d.copy() / {**d}: a new dict with the SAME value objects (the REQUIRES set is shared)."""
    o = st.heap[ref.loc]
    return st.alloc(HFlagDict(o.present, o.bval, o.req))


def deep_copy(eng, ref, st):
    o = st.heap[ref.loc]
    req = st.alloc(HSet(st.heap[o.req.loc].arr))
    return st.alloc(HFlagDict(o.present, o.bval, req))


def module_default(eng, obj, st):
    """The module-level DEFAULT_RUNTIME_STATE as a heap object shared by every state of a run of the engine:
    its flags are the literal defaults, its REQUIRES set is a process-global mutable set (symbolic content)."""
    key = '__default_runtime_state__'
    ref = st.ghost.get(key)
    if ref is None or ref.loc not in st.heap:
        present, bval = const_arr(False), const_arr(False)
        for k, v in obj.items():
            present = store(present, StrV(k), TRUE)
            if isinstance(v, bool):
                bval = store(bval, StrV(k), BoolV(v))
        cache = eng.__dict__.setdefault('_default_req_arr', None)
        if cache is None:
            cache = eng.ctx.const('DEFAULT_RUNTIME_STATE_REQUIRES', ARR)
            eng._default_req_arr = cache
        req = st.alloc(HSet(cache))
        ref = st.alloc(HFlagDict(present, bval, req))
        st.ghost[key] = ref
    return ref
