"""
pyvc.contracts -- registry of sidecar contracts, lemmas and record types.

Contracts are plain data.  Every clause is a Python *expression* (a string)
with two readings: translated to SMT by the engine's expression translator,
and evaluated natively on concrete values for replay / bounded search.
"""
import ast

CONTRACTS = {}      # qualname -> Contract
LEMMAS = {}         # name -> Lemma
RECORDS = {}        # class name -> {field: type string}
DICT_RECORDS = set()  # record classes that are dicts with a fixed key set (obj['key'] reads field key)


class LoopSpec(object):
    def __init__(self, header, invariants, decreases=None, modifies=None, ghost=None, body_facts=(), types=None, body_post=(),
                 body_always=(), exit_post=None, entry_ghost=None):
        self.types = dict(types or {})
        # entry_ghost: name -> expression evaluated ONCE, on the state in which the loop is entered (before anything is
        # havocked); the value is frozen and visible to the invariants and clauses of this loop
        self.entry_ghost = dict(entry_ghost or {})
        # exit_post: clauses proved at EVERY exit of the loop (exhaustion and break); the code after the loop is
        # then executed once, from the loop-head state with everything the loop may change havocked again and
        # these clauses assumed (instead of once per exit path)
        self.exit_post = None if exit_post is None else _named(exit_post, 'exit')
        self.body_post = _named(body_post, 'step')
        # clauses that hold at the end of one iteration on EVERY outcome (next iteration, break, return, raise)
        self.body_always = _named(body_always, 'always')
        self.body_facts = _named(body_facts, 'fact')
        self.header = header            # fingerprint: ast.unparse of iter/test
        self.invariants = _named(invariants, 'inv')
        self.decreases = decreases
        self.modifies = modifies
        self.ghost = ghost or {}


def _named(clauses, prefix):
    out = []
    for i, c in enumerate(clauses or []):
        if isinstance(c, tuple):
            out.append((c[0], c[1]))
        else:
            out.append(('%s%d' % (prefix, i), c))
    names = [n for n, _ in out]
    assert len(names) == len(set(names)), 'duplicate clause names %r' % names
    return out


class Contract(object):
    def __init__(self, qualname, params, returns='None', requires=(), ensures=(),
                 raises=None, modifies=None, loops=None, hints=(), props=(),
                 sentinel=None, pure=False, trusted=False, reach=(), note='',
                 gen=None, opts=None, ghost_returns=None, globals=None, log=True):
        self.qualname = qualname
        mod, _, fn = qualname.partition(':')
        self.module = mod
        self.func = fn.split('#')[0]       # 'f#region-name': a second contract on a region of f
        self.params = dict(params)
        self.returns = returns
        self.requires = _named(requires, 'pre')
        self.ensures = _named(ensures, 'post')
        # raises: {ExcClassName: when-clause or None}; '*' suffix = any subclass
        self.raises = dict(raises or {})
        self.modifies = None if modifies is None else list(modifies)   # None: frame not checked
        self.globals = dict(globals or {})      # process-global cells the function reads/writes: 'sys.stdout': type
        self.log = log
        self.loops = dict(loops or {})
        self.hints = list(hints)
        self.props = list(props)
        self.sentinel = sentinel
        self.pure = pure
        self.trusted = trusted          # assumed, never verified (external / T)
        self.reach = _named(reach, 'reach')
        self.note = note
        self.gen = gen                  # native input generator name (bounded search)
        self.opts = dict(opts or {})
        for _, c in self.requires + self.ensures + self.reach:
            ast.parse(c.strip(), mode='eval')

    def __repr__(self):
        return 'Contract(%s)' % self.qualname


def contract(qualname, **kw):
    c = Contract(qualname, **kw)
    assert qualname not in CONTRACTS, 'duplicate contract %s' % qualname
    _known = {'native', 'facts_after', 'functional', 'exit_facts', 'substitute', 'result_alias', 'entry_types', 'defined_when', 'closure',
              'use', 'region', 'assume_after', 'inline', 'mutable_fields', 'signature', 'fuel', 'global_alias', 'never_returns'}
    unknown = set(c.opts) - _known
    assert not unknown, 'contract %s: unknown opts %r (a misspelt option would be ignored silently)' % (qualname, sorted(unknown))
    CONTRACTS[qualname] = c
    return c


class Lemma(object):
    def __init__(self, name, forall, requires=(), ensures=(), induction=None,
                 patterns=None, hints=(), props=(), fuel=1, note=''):
        self.name = name
        self.forall = dict(forall)
        self.requires = _named(requires, 'pre')
        self.ensures = _named(ensures, 'post')
        self.induction = induction      # dict(var=..., ih=[instantiation dicts]) or None
        self.patterns = patterns
        self.hints = list(hints)
        self.props = list(props)
        self.fuel = fuel
        self.note = note


def lemma(name, **kw):
    lm = Lemma(name, **kw)
    assert name not in LEMMAS
    LEMMAS[name] = lm
    return lm


def record(name_, **fields):
    name = name_
    # several contract files may each declare the fields they need of one class: declarations are merged
    RECORDS.setdefault(name, {}).update(fields)
    return name


ISINSTANCE = {}      # record name -> {python class name: boolean field that says "the object is an instance of it"}


def tagged_record(name_, tags, **fields):
    """A record that stands for objects of several classes (AST nodes ...): isinstance(x, C) reads the tag field."""
    name = name_
    RECORDS.setdefault(name, {}).update(fields)
    ISINSTANCE[name] = dict(tags)
    return name


ASSTR = {}           # record name -> field holding the str the object IS when it is used as a string (count, strip ...)
CLASS_ALIAS = {}     # record name -> real class whose methods / properties the record's objects have
ASLIST = {}          # record name -> field holding the list the object IS when it is used as a list (len, join, iteration)


TUPLE_RECORDS = {}      # records that unpack like tuples: name -> field names in unpacking order (None: all fields in order)


def tuple_record(name_, unpack=None, **fields):
    name = name_
    RECORDS.setdefault(name, {}).update(fields)
    TUPLE_RECORDS[name] = list(unpack) if unpack else None
    return name


def dict_record(name_, **fields):
    name = name_
    RECORDS[name] = dict(fields)
    DICT_RECORDS.add(name)
    return name
