"""
pyvc.reclists -- lists of records that grow inside loops.

* ``HRecSeq``: list of records (dict-like summaries ...) kept as one Seq per tracked primitive field;
* ``HIdxList``: list of references to elements of a parameter record list, kept as Seq Int of indices.

Both support append, len, iteration, indexing, and aggregate forms that occur in the code
(``sum(s['f'] for s in xs)``, ``[s['f'] for s in xs]`` at spec level).
"""
import ast

from . import smt
from .smt import INT, BOOL, IntV, Add, Len, Concat, At, Eq, And, Ge
from .vals import (Undecided, VInt, VBool, VStr, VSeq, VRef, VNone, HInst, HPyList, HRecSeq, HIdxList,
                   parse_type, sort_of, wrap)
from . import contracts as C


def tracked_fields(cls):
    """Primitive fields of a record class (the ones a HRecSeq tracks)."""
    out = {}
    for f, fty in C.RECORDS.get(cls, {}).items():
        p = parse_type(fty)
        if p[0] in ('int', 'bool', 'str', 'val'):
            out[f] = p
    return out


def fresh_recseq(eng, cls, base, st):
    n = eng.ctx.fresh(base + '_len', INT)
    st.assume(Ge(n, IntV(0)))
    fields = {}
    for f, p in tracked_fields(cls).items():
        seq = eng.ctx.fresh('%s_%s' % (base, f), '(Seq %s)' % sort_of(p))
        st.assume(Eq(Len(seq), n))
        fields[f] = (seq, p)
    return st.alloc(HRecSeq(cls, fields, n))


def empty_recseq(cls):
    fields = {f: (smt.Empty('(Seq %s)' % sort_of(p)), p) for f, p in tracked_fields(cls).items()}
    return HRecSeq(cls, fields, IntV(0))


def element_view(eng, ref, o, j, st):
    """Read-only view of element j of a HRecSeq."""
    vals = {f: wrap(At(seq, j), p) for f, (seq, p) in o.fields.items()}
    if eng.pure:
        for f, (seq, p) in o.fields.items():
            eng.note_pattern(At(seq, j), j)     # trigger candidates when j is a bound variable
    return st.alloc(HInst(o.cls, vals, view=('recseq%d' % ref.loc, j)))


def idx_element(eng, o, j, st):
    return eng.rec_element(o.base, At(o.idx, j), st)


def append(eng, xs, x, st, node):
    """list.append for the record-list representations; returns True if handled."""
    o = st.heap[xs.loc]
    import os
    if os.environ.get('PYVC_DEBUG'):
        print('append', type(o).__name__, x, type(st.heap.get(getattr(x, 'loc', None))).__name__, getattr(st.heap.get(getattr(x, 'loc', None)), 'view', None), getattr(getattr(o, 'base', None), 'base', None))
    from .vals import VTuple
    if isinstance(x, VTuple) and isinstance(o, HRecSeq) and o.cls in C.TUPLE_RECORDS:
        names = C.TUPLE_RECORDS[o.cls] or list(C.RECORDS[o.cls])
        if len(names) == len(x.items) and all(n in o.fields for n in names):
            fields = {}
            for n, v in zip(names, x.items):
                seq, p = o.fields[n]
                if getattr(v, 'ty', None) != p:
                    raise Undecided('append: element %s of the tuple is %r' % (n, v), node)
                fields[n] = (Concat(seq, smt.Unit(v.t)), p)
            st.heap[xs.loc] = HRecSeq(o.cls, fields, Add(o.n, IntV(1)))
            return True
    if isinstance(x, VTuple) and isinstance(o, HIdxList) and o.base is not None and o.base.cls in C.TUPLE_RECORDS:
        # a tuple rebuilt from ALL the fields of one element of the base list (tuples are values: it is that element)
        names = C.TUPLE_RECORDS[o.base.cls] or list(C.RECORDS[o.base.cls])
        for (vb, _), loc in st.ghost.get('__views__', {}).items():
            ov = st.heap.get(loc)
            if vb != o.base.base or not isinstance(ov, HInst) or ov.view is None or len(names) != len(x.items):
                continue

            def same(a, b):
                if isinstance(a, VRef) or isinstance(b, VRef):
                    return isinstance(a, VRef) and isinstance(b, VRef) and a.loc == b.loc
                return hasattr(a, 't') and hasattr(b, 't') and a.t.s == b.t.s
            if all(same(ov.fields.get(n), v) for n, v in zip(names, x.items)):
                st.heap[xs.loc] = HIdxList(o.base, Concat(o.idx, smt.Unit(ov.view[1])))
                return True
    if isinstance(x, VRef):
        ox = st.heap.get(x.loc)
        if isinstance(ox, HInst):
            view = ox.view
            if view is not None and not str(view[0]).startswith('recseq'):
                # a reference to element view[1] of a parameter record list
                base = eng.reclist_by_base(view[0], st)
                if isinstance(o, HPyList) and not o.items:
                    st.heap[xs.loc] = HIdxList(base, smt.Unit(view[1]))
                    return True
                if isinstance(o, HIdxList) and o.base.base == view[0]:
                    st.heap[xs.loc] = HIdxList(o.base, Concat(o.idx, smt.Unit(view[1])))
                    return True
            if ox.cls in C.RECORDS and tracked_fields(ox.cls):
                if isinstance(o, HPyList) and not o.items:
                    o = empty_recseq(ox.cls)
                if isinstance(o, HRecSeq) and o.cls == ox.cls:
                    fields = {}
                    for f, (seq, p) in o.fields.items():
                        v = ox.fields.get(f)
                        if v is None or getattr(v, 'ty', None) != p:
                            raise Undecided('append: field %s of the %s record is %r' % (f, ox.cls, v), node)
                        fields[f] = (Concat(seq, smt.Unit(v.t)), p)
                    st.heap[xs.loc] = HRecSeq(o.cls, fields, Add(o.n, IntV(1)))
                    return True
    return False


def field_seq_of_comprehension(eng, comp_node, st):
    """For ``<elt> for s in xs`` where xs is a HRecSeq and elt reads one tracked field of s:
    (Seq term, element type); None if the comprehension has another shape."""
    if len(comp_node.generators) != 1:
        return None
    comp = comp_node.generators[0]
    if comp.ifs or not isinstance(comp.target, ast.Name):
        return None
    rs = eng.ev(comp.iter, st)
    if len(rs) != 1:
        return None
    v, s = rs[0]
    if not isinstance(v, VRef):
        return None
    o = s.heap.get(v.loc)
    if isinstance(o, HPyList) and not o.items:
        return 'empty', None
    if not isinstance(o, HRecSeq):
        return None
    j = smt.bound(eng.ctx, 'j', INT)
    s2 = s.copy()
    fid = s2.new_frame(s2.cur)
    s2.cur = fid
    s2.bind(comp.target.id, element_view(eng, v, o, j, s2))
    eng.pure += 1
    try:
        e = eng.ev1(comp_node.elt, s2)
    finally:
        eng.pure -= 1
    if not hasattr(e, 't'):
        return None
    for f, (seq, p) in o.fields.items():
        if e.t.s == At(seq, j).s:
            return seq, p
    return None


def comprehension_over_reclist(eng, comp_node, st):
    """``[elt for x in rl]`` (spec level) for a parameter record list rl (or a prefix of one): the sequence L
    with len(L) == len(rl_full) and L[ix] == elt(ix) for every index, cut to the prefix length.
    L is a constant with these two facts attached as axioms; it is cached per (list, elt term) so that the
    same comprehension denotes the same symbol wherever it is written."""
    from .executor import VRecList
    from .smt import ForAll, Implies, Le, Lt, Substr
    if len(comp_node.generators) != 1:
        return None
    comp = comp_node.generators[0]
    if (isinstance(comp.target, ast.Tuple) and len(comp.target.elts) == 2 and all(isinstance(e, ast.Name) for e in comp.target.elts)
            and isinstance(comp.iter, ast.Call) and isinstance(comp.iter.func, ast.Name) and comp.iter.func.id == 'enumerate'
            and st.lookup('enumerate') is None and not comp.ifs and len(comp.iter.args) >= 1):
        # [elt for i, x in enumerate(xs, start)]: element ix of the result is elt(start + ix, xs[ix])
        start = IntV(0)
        if len(comp.iter.args) == 2:
            start = eng.ev1(comp.iter.args[1], st).t
        for kw in comp.iter.keywords:
            if kw.arg == 'start':
                start = eng.ev1(kw.value, st).t
        xs = eng.ev1(comp.iter.args[0], st)
        return comprehension_over_seq(eng, comp_node, comp, xs, st, enum_start=start)
    if not isinstance(comp.target, ast.Name):
        return None
    rl = eng.ev1(comp.iter, st)
    if not isinstance(rl, VRecList):
        return comprehension_over_seq(eng, comp_node, comp, rl, st)
    if comp.ifs:
        return None
    var = smt.bound(eng.ctx, 'ix', INT)
    s2 = st.copy()
    fid = s2.new_frame(s2.cur)
    s2.cur = fid
    full = VRecList(rl.full_n, rl.cls, rl.base, rl.full_n)
    s2.bind(comp.target.id, eng.rec_element(full, var, s2))
    e = eng.ev1(comp_node.elt, s2)
    if isinstance(e, (VInt, VStr)) or isinstance(e, VBool):
        t, ty = e.t, e.ty
    else:
        t, ty = eng.truthy(e, s2), ('bool',)
    cache = eng.__dict__.setdefault('_comp_cache', {})
    key = (rl.base, t.s.replace(var.s, '?ix'))
    L = cache.get(key)
    if L is None:
        L = eng.ctx.fresh('comp', '(Seq %s)' % sort_of(ty))
        ax = [Eq(Len(L), rl.full_n),
              ForAll([var], Implies(And(Le(IntV(0), var), Lt(var, rl.full_n)), Eq(At(L, var), t)), patterns=[[At(L, var)]])]
        eng.ctx.fun_axioms.setdefault(L.s, []).extend(ax)
        cache[key] = L
    eng.last_comp = (var, rl)
    if rl.n.s == rl.full_n.s:
        return VSeq(L, ty)
    return VSeq(Substr(L, IntV(0), rl.n), ty)


def comprehension_over_seq(eng, comp_node, comp, itv, st, enum_start=None):
    """``[elt for x in xs]`` for a sequence of primitives xs: the sequence L with len(L) == len(xs) and
    L[ix] == elt(xs[ix]) (attached as axioms of the constant L; cached per (xs, elt))."""
    from .smt import ForAll, Implies, Le, Lt
    try:
        seq, elem = eng.seq_of(itv, st)
    except Undecided:
        return None
    if comp.ifs:
        return filtered_comprehension(eng, comp_node, comp, seq, elem, st)
    var = smt.bound(eng.ctx, 'ix', INT)
    s2 = st.copy()
    fid = s2.new_frame(s2.cur)
    s2.cur = fid
    if enum_start is not None:
        s2.bind(comp.target.elts[0].id, VInt(Add(enum_start, var)))
        s2.bind(comp.target.elts[1].id, wrap(At(seq, var), elem))
    else:
        s2.bind(comp.target.id, wrap(At(seq, var), elem))
    e = eng.ev1(comp_node.elt, s2)
    if isinstance(e, (VInt, VStr, VBool)):
        t, ty = e.t, e.ty
    else:
        t, ty = eng.truthy(e, s2), ('bool',)
    cache = eng.__dict__.setdefault('_comp_cache', {})
    key = (seq.s, t.s.replace(var.s, '?ix'))
    L = cache.get(key)
    if L is None:
        L = eng.ctx.fresh('comp', '(Seq %s)' % sort_of(ty))
        ax = [Eq(Len(L), Len(seq)),
              ForAll([var], Implies(And(Le(IntV(0), var), Lt(var, Len(seq))), Eq(At(L, var), t)), patterns=[[At(L, var)]])]
        eng.ctx.fun_axioms.setdefault(L.s, []).extend(ax)
        cache[key] = L

    class _N(object):
        pass
    rl = _N()
    rl.n = Len(seq)
    eng.last_comp = (var, rl)
    return VSeq(L, ty)


def filtered_comprehension(eng, comp_node, comp, seq, elem, st):
    """``[x for x in xs if cond(x)]`` over a sequence of primitives: F(xs) for an uninterpreted F with the unfolding
       F(ys) = [] if ys is empty else F(ys[:-1]) + ([ys[-1]] if cond(ys[-1]) else [])
    attached as an axiom of F; F is cached per condition text, so the same filter written in the code and in the
    specification is the same symbol."""
    from .smt import ForAll, Implies, Gt, Sub, Substr, Ite, Concat as Cc
    if not (isinstance(comp_node.elt, ast.Name) and comp_node.elt.id == comp.target.id):
        return None
    sort = '(Seq %s)' % sort_of(elem)
    x = smt.bound(eng.ctx, 'x', sort_of(elem))
    s2 = st.copy()
    fid = s2.new_frame(s2.cur)
    s2.cur = fid
    s2.bind(comp.target.id, wrap(x, elem))
    conds = [eng.truthy(eng.ev1(c, s2), s2) for c in comp.ifs]
    cond = And(*conds)
    cache = eng.__dict__.setdefault('_filter_cache', {})
    key = (sort, cond.s.replace(x.s, '?x'))
    name = cache.get(key)
    if name is None:
        import hashlib
        name = 'filter_' + hashlib.sha1(repr(key).encode()).hexdigest()[:10]
        eng.ctx.fun(name, [sort], sort)
        cache[key] = name
        eng.trusted_used.add('comprehension filter as the recursive definition %s (unfolded on ground applications only)' % name)

    def register(t):
        """Unfolding fact for the ground application F(t) (no quantifier over sequences: z3's sequence theory
        returned `unsat` on the quantified form of this perfectly consistent definition)."""
        app = eng.ctx.app(name, t)
        k = app.s
        if k in eng.ctx.unfold or any(sy.startswith('?') for sy in app.syms):
            return app
        last = At(t, Sub(Len(t), IntV(1)))
        cond_last = smt.T(cond.s.replace(x.s, last.s), BOOL, (cond.syms - x.syms) | last.syms, cond.apps)

        def thunk():
            inner = register(Substr(t, IntV(0), Sub(Len(t), IntV(1))))
            return Eq(smt.T(app.s, app.sort, app.syms),
                      Ite(Eq(Len(t), IntV(0)), smt.Empty(sort), Cc(inner, Ite(cond_last, smt.Unit(last), smt.Empty(sort)))))
        eng.ctx.unfold[k] = ('rec', thunk)
        return smt.T(app.s, app.sort, app.syms, app.apps | frozenset([k]))
    eng.last_comp = None
    return VSeq(register(seq), elem)
