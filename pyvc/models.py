"""
pyvc.models -- builtin models: the trusted base of the engine.

Each model gives the SMT reading of a Python builtin / stdlib call.  Models
whose arguments are all concrete are evaluated natively by CPython itself.
Every symbolic model records its name in ``engine.trusted_used`` so that the
evidence lists exactly what was assumed.
"""
import ast
import builtins
import re as _re

from . import smt
from .smt import (T, INT, BOOL, STR, IntV, BoolV, StrV, TRUE, FALSE, And, Or, Not,
                  Implies, Ite, Eq, Ne, Add, Sub, Lt, Le, Gt, Ge, Len, Concat, Substr,
                  At, Contains, PrefixOf, SuffixOf, Max, Min)
from .vals import (Undecided, V, VInt, VBool, VStr, VNone, NONE, VVal, VSeq, VTuple,
                   VRef, VFunc, VPy, VBound, VExc, Raised, HList, HPyList, HDict,
                   HSet, HInst, HObjList, HMap, HRecSeq, HIdxList, HOpaque, parse_type, sort_of, wrap)

WS_CHARS = ' \t\n\r\x0b\x0c\x1c\x1d\x1e\x1f\x85\xa0'

METHODS = {}
FUNCS = {}


def method(key):
    def deco(f):
        METHODS[key] = f
        return f
    return deco


def func(obj):
    def deco(f):
        FUNCS[obj] = f
        return f
    return deco


def NOOP_CALLABLE(*args, **kwargs):
    """Stands for a logging callback: no effect on the verified state."""


def install(eng):
    eng.method_models.update(METHODS)
    eng.models.update(FUNCS)


def _all_concrete(eng, args, kwargs, st):
    cs = [eng.concrete(a, st) for a in args]
    ks = {k: eng.concrete(a, st) for k, a in kwargs.items()}
    if all(ok for ok, _ in cs) and all(ok for ok, _ in ks.values()):
        return True, [x for _, x in cs], {k: x for k, (_, x) in ks.items()}
    return False, None, None


def native_or(model):
    """Decorator: evaluate natively with CPython when every argument is concrete."""
    def wrapper(eng, args, kwargs, st, node):
        ok, cargs, ckw = _all_concrete(eng, args, kwargs, st)
        if ok and wrapper.native is not None:
            try:
                r = wrapper.native(*cargs, **ckw)
            except Exception as ex:
                return [(Raised(VExc(type(ex))), st)]
            return [(eng.lift(r, st), st)]
        return model(eng, args, kwargs, st, node)
    wrapper.native = None
    return wrapper


def str_method(name, native=None):
    def deco(f):
        w = native_or(f)
        w.native = native or getattr(str, name)
        METHODS['str.' + name] = w
        return w
    return deco


# ------------------------------------------------------------------ strings

def _clip_args(eng, s, args, start_at=1, st=None):
    """(a', e') = clipped optional start/end arguments of find/startswith/..."""
    n = Len(s)
    a = args[start_at] if len(args) > start_at and not isinstance(args[start_at], VNone) else None
    e = args[start_at + 1] if len(args) > start_at + 1 and not isinstance(args[start_at + 1], VNone) else None
    a_t = IntV(0) if a is None else eng.norm_index_st(a.t, n, st)
    e_t = n if e is None else eng.norm_index_st(e.t, n, st)
    return a_t, e_t


def _find_common(eng, args, st, rightmost):
    s, w = args[0], args[1]
    if not isinstance(w, VStr):
        raise Undecided('find with non-str needle')
    a, e = _clip_args(eng, s.t, args, 2, st)
    base = 'rfind' if rightmost else 'find'
    f = eng.ctx.fresh(base, INT)
    eng.trusted_used.add('builtin:str.%s (contract: occurrence + %s-most, or native str.indexof)' % (base, 'right' if rightmost else 'left'))
    lw = Len(w.t)
    single = w.t.lit is not None and len(w.t.lit[1]) == 1

    def sub(pos):
        # one-character needles are stated with str.at so that triggers line up with s[k]
        return At(s.t, pos) if single else Substr(s.t, pos, lw)
    occ = And(Le(a, f), Le(Add(f, lw), e), Eq(sub(f), w.t))
    # empty needle: substr of length 0 is "" -- fine.  a' > e' -> -1.
    st.assume(Ge(f, IntV(-1)))
    st.assume(Or(Eq(f, IntV(-1)), occ))
    p = smt.bound(eng.ctx, 'p', INT)
    if rightmost:
        better = Or(Eq(f, IntV(-1)), Gt(p, f))
    else:
        better = Or(Eq(f, IntV(-1)), Lt(p, f))
    body = Implies(And(Le(a, p), Le(Add(p, lw), e), better), Ne(sub(p), w.t))
    st.alts.append(('contract', smt.ForAll([p], body, patterns=[[sub(p)]])))
    if not rightmost:
        # native alternative: indexof on the end-clipped prefix
        nat = Ite(Le(a, e), smt.IndexOf(Substr(s.t, IntV(0), e), w.t, a), IntV(-1))
        st.alts.append(('native', Eq(f, nat)))
    else:
        st.alts.append(('native', smt.ForAll([p], body)))
    return [(VInt(f), st)]


@str_method('find')
def str_find(eng, args, kwargs, st, node):
    return _find_common(eng, args, st, False)


@str_method('rfind')
def str_rfind(eng, args, kwargs, st, node):
    return _find_common(eng, args, st, True)


def _affix(eng, args, st, prefix):
    s, w = args[0], args[1]
    if len(args) > 2:
        raise Undecided('startswith/endswith with start/end')
    f = PrefixOf if prefix else SuffixOf
    if isinstance(w, VStr):
        return [(VBool(f(w.t, s.t)), st)]
    if isinstance(w, VTuple):
        return [(VBool(Or(*[f(x.t, s.t) for x in w.items])), st)]
    raise Undecided('startswith argument %r' % (w,))


@str_method('startswith')
def str_startswith(eng, args, kwargs, st, node):
    return _affix(eng, args, st, True)


@str_method('endswith')
def str_endswith(eng, args, kwargs, st, node):
    return _affix(eng, args, st, False)


def _strip_model(eng, args, st, left, right, name):
    s = args[0]
    chars = WS_CHARS
    if len(args) > 1 and not isinstance(args[1], VNone):
        if args[1].t.lit is None:
            raise Undecided('strip with symbolic character set')
        chars = args[1].t.lit[1]
    # the result is a FUNCTION of the text (one symbol per method and character set), so that the same call written
    # in the code and in a specification denotes the same term; its defining facts are assumed where it is computed
    import hashlib as _hl
    fname = 'py_%s_%s' % (name, 'ws' if chars is WS_CHARS else _hl.sha1(chars.encode()).hexdigest()[:8])
    eng.ctx.fun(fname, [STR], STR)
    r = eng.ctx.app(fname, s.t)
    eng.trusted_used.add('builtin:str.%s (contract: maximal stripping of the given character set%s)'
                         % (name, '; whitespace = ASCII + \\x1c-\\x1f\\x85\\xa0' if chars is WS_CHARS else ''))
    n, m = Len(s.t), Len(r)

    def in_set(ch):
        return Or(*[Eq(ch, StrV(c)) for c in chars])
    # s = pre ++ r ++ post with pre/post consisting only of strip characters
    eng.ctx.fun(fname + '_off', [STR], INT)
    a = eng.ctx.app(fname + '_off', s.t)
    st.assume(And(Le(IntV(0), a), Le(Add(a, m), n), Eq(r, Substr(s.t, a, m))))
    if not left:
        st.assume(Eq(a, IntV(0)))
    if not right:
        st.assume(Eq(Add(a, m), n))
    k = smt.bound(eng.ctx, 'k', INT)
    if left:
        st.alts.append(('contract', smt.ForAll([k], Implies(And(Le(IntV(0), k), Lt(k, a)), in_set(At(s.t, k))),
                                               patterns=[[At(s.t, k)]])))
        st.assume(Or(Eq(m, IntV(0)), Not(in_set(At(r, IntV(0))))))
    if right:
        k2 = smt.bound(eng.ctx, 'k', INT)
        st.alts.append(('contract', smt.ForAll([k2], Implies(And(Le(Add(a, m), k2), Lt(k2, n)), in_set(At(s.t, k2))),
                                               patterns=[[At(s.t, k2)]])))
        st.assume(Or(Eq(m, IntV(0)), Not(in_set(At(r, Sub(m, IntV(1)))))))
    if left and right:
        # an all-strippable string strips to "" (offset is then irrelevant)
        pass
    return [(VStr(r), st)]


@str_method('strip')
def str_strip(eng, args, kwargs, st, node):
    return _strip_model(eng, args, st, True, True, 'strip')


@str_method('lstrip')
def str_lstrip(eng, args, kwargs, st, node):
    return _strip_model(eng, args, st, True, False, 'lstrip')


@str_method('rstrip')
def str_rstrip(eng, args, kwargs, st, node):
    return _strip_model(eng, args, st, False, True, 'rstrip')


def _uf_str(name, arity_sorts, ret, note):
    def model(eng, args, kwargs, st, node):
        ts = []
        for a in args:
            if isinstance(a, (VStr, VInt, VBool)):
                ts.append(a.t)
            else:
                raise Undecided('%s on %r' % (name, a))
        eng.trusted_used.add('builtin:%s (%s)' % (name, note))
        t = eng.model_app(name, ts, ret)
        return [(wrap(t, {'String': ('str',), 'Int': ('int',), 'Bool': ('bool',)}[ret]), st)]
    return model


@str_method('lower')
def str_lower(eng, args, kwargs, st, node):
    return _uf_str('py_lower', [STR], STR, 'uninterpreted')(eng, args, kwargs, st, node)


@str_method('upper')
def str_upper(eng, args, kwargs, st, node):
    return _uf_str('py_upper', [STR], STR, 'uninterpreted')(eng, args, kwargs, st, node)


@str_method('expandtabs')
def str_expandtabs(eng, args, kwargs, st, node):
    s = args[0]
    eng.trusted_used.add('builtin:str.expandtabs (result has no tab; identity when no tab)')
    r = eng.model_app('py_expandtabs', [s.t], STR)
    st.assume(Not(Contains(r, StrV('\t'))))
    st.assume(Implies(Not(Contains(s.t, StrV('\t'))), Eq(r, s.t)))
    return [(VStr(r), st)]


@str_method('replace')
def str_replace(eng, args, kwargs, st, node):
    s, a, b = args[0], args[1], args[2]
    if len(args) > 3:
        raise Undecided('replace with count')
    eng.trusted_used.add('builtin:str.replace (native str.replace_all, non-empty pattern)')
    if a.t.lit is not None and a.t.lit[1] == '':
        raise Undecided('replace of empty pattern')
    return [(VStr(smt.ReplaceAll(s.t, a.t, b.t)), st)]


@str_method('count')
def str_count(eng, args, kwargs, st, node):
    s, w = args[0], args[1]
    eng.trusted_used.add('builtin:str.count (uninterpreted; >= 0; 0 iff not contained)')
    r = eng.model_app('py_count', [s.t, w.t], INT)
    st.assume(Ge(r, IntV(0)))
    st.assume(Eq(Eq(r, IntV(0)), Not(Contains(s.t, w.t))))
    return [(VInt(r), st)]


@str_method('join')
def str_join(eng, args, kwargs, st, node):
    sep, xs = args[0], args[1]
    items = eng.concrete_items(xs, st)
    if items is not None:
        ts = []
        for i, x in enumerate(items):
            if not isinstance(x, VStr):
                raise Undecided('join of non-str element')
            if i:
                ts.append(sep.t)
            ts.append(x.t)
        return [(VStr(Concat(*ts) if ts else StrV('')), st)]
    seq, elem = eng.seq_of(xs, st)
    if elem != ('str',):
        raise Undecided('join of non-str list')
    eng.trusted_used.add('builtin:str.join (uninterpreted py_join with snoc/empty/singleton laws)')
    r = eng.model_app('py_join', [sep.t, seq], STR)
    _join_axioms(eng)
    if sep.t.lit is not None and '\t' not in sep.t.lit[1]:
        # a tab in the joined text comes from one of the pieces (used for C01.tabs)
        i = smt.bound(eng.ctx, 'i', INT)
        no_tab_piece = smt.ForAll([i], Implies(And(Le(IntV(0), i), Lt(i, Len(seq))), Not(Contains(At(seq, i), StrV('\t')))),
                                  patterns=[[At(seq, i)]])
        st.assume(Implies(no_tab_piece, Not(Contains(r, StrV('\t')))))
    return [(VStr(r), st)]


def _splitlines_join_law(eng):
    """'\\n'.join(xs).splitlines() == xs  for a list of plain lines (S.plain_lines: no element contains a line boundary,
    and the last element is not empty) -- a law of the two builtins, assumed (trusted base)."""
    ctx = eng.ctx
    if getattr(ctx, '_sj_law', False):
        return
    ctx._sj_law = True
    ctx.fun('py_join', [STR, '(Seq String)'], STR)
    ctx.fun('py_splitlines', [STR], '(Seq String)')
    ctx.fun('S_plain_lines', ['(Seq String)'], BOOL)
    xs = smt.bound(ctx, 'xs', '(Seq String)')
    j = ctx.app('py_join', StrV('\n'), xs)
    law = smt.ForAll([xs], Implies(ctx.app('S_plain_lines', xs), Eq(ctx.app('py_splitlines', j), xs)),
                     patterns=[[ctx.app('py_splitlines', j)]])
    ctx.fun_axioms.setdefault('py_splitlines', []).append(law)
    eng.trusted_used.add("builtin law: '\\n'.join(xs).splitlines() == xs for plain lines xs (S.plain_lines)")


def _join_axioms(eng):
    ctx = eng.ctx
    if 'py_join' in ctx.fun_axioms:
        return
    sep = smt.bound(ctx, 'sep', STR)
    xs = smt.bound(ctx, 'xs', '(Seq String)')
    x = smt.bound(ctx, 'x', STR)
    j = lambda a, b: ctx.app('py_join', a, b)
    ax = [
        smt.ForAll([sep], Eq(j(sep, smt.Empty('(Seq String)')), StrV(''))),
        smt.ForAll([sep, x], Eq(j(sep, smt.Unit(x)), x), patterns=[[j(sep, smt.Unit(x))]]),
        smt.ForAll([sep, xs, x], Implies(Gt(Len(xs), IntV(0)),
                                         Eq(j(sep, Concat(xs, smt.Unit(x))), Concat(j(sep, xs), sep, x))),
                   patterns=[[j(sep, Concat(xs, smt.Unit(x)))]]),
    ]
    ys = smt.bound(ctx, 'ys', '(Seq String)')
    ax.append(smt.ForAll([sep, xs, ys], Implies(And(Gt(Len(xs), IntV(0)), Gt(Len(ys), IntV(0))),
                                                 Eq(j(sep, Concat(xs, ys)), Concat(j(sep, xs), sep, j(sep, ys)))),
                         patterns=[[j(sep, Concat(xs, ys))]]))
    ctx.fun_axioms['py_join'] = ax


@str_method('split')
def str_split(eng, args, kwargs, st, node):
    s = args[0]
    if len(args) == 1:
        eng.trusted_used.add('builtin:str.split() (uninterpreted py_split_ws)')
        r = eng.model_app('py_split_ws', [s.t], '(Seq String)')
        return [(st.alloc(HList(r, ('str',))), st)]
    sep = args[1]
    if len(args) > 2:
        raise Undecided('split with maxsplit')
    eng.trusted_used.add('builtin:str.split(sep) (uninterpreted py_split; len >= 1; join-inverse)')
    r = eng.model_app('py_split', [s.t, sep.t], '(Seq String)')
    st.assume(Ge(Len(r), IntV(1)))
    return [(st.alloc(HList(r, ('str',))), st)]


@str_method('splitlines')
def str_splitlines(eng, args, kwargs, st, node):
    s = args[0]
    keep = False
    if len(args) > 1:
        ok, keep = eng.concrete(args[1])
        if not ok:
            raise Undecided('splitlines(keepends symbolic)')
    name = 'py_splitlines_keep' if keep else 'py_splitlines'
    eng.trusted_used.add('builtin:str.splitlines (uninterpreted %s)' % name)
    r = eng.model_app(name, [s.t], '(Seq String)')
    if not keep:
        _splitlines_join_law(eng)
    # every line is a substring of the text
    i = smt.bound(eng.ctx, 'i', INT)
    st.assume(smt.ForAll([i], Implies(And(Le(IntV(0), i), Lt(i, Len(r))), Contains(s.t, At(r, i))), patterns=[[At(r, i)]]))
    return [(st.alloc(HList(r, ('str',))), st)]


@str_method('format')
def str_format(eng, args, kwargs, st, node):
    eng.trusted_used.add('builtin:str.format (unconstrained text; a template that is not a literal may contain stray braces '
                         'and raise ValueError / KeyError / IndexError)')
    tmpl = args[0]
    out = []
    if tmpl.t.lit is None:
        cat = eng.ctx.__dict__.get('strcat', {}).get(tmpl.t.s)
        rep = eng.ctx.__dict__.get('repeat_of', {})
        if cat is not None and cat[0].s in rep and '{' not in rep[cat[0].s] and '}' not in rep[cat[0].s]:
            # padding (a brace-free literal repeated) + a literal template: the padding is copied, the rest is formatted
            rest = str_format(eng, [VStr(cat[1])] + list(args[1:]), kwargs, st, node)
            if len(rest) == 1 and isinstance(rest[0][0], VStr):
                return [(VStr(Concat(cat[0], rest[0][0].t)), rest[0][1])]
    if tmpl.t.lit is None:
        # the template contains text the function does not control
        for cls in (ValueError, KeyError, IndexError):
            s2 = st.copy()
            out.append((Raised(VExc(cls, {}, tag='str.format')), s2))
    else:
        import string as _string
        try:
            fields = [f for _, f, _, _ in _string.Formatter().parse(tmpl.t.lit[1]) if f is not None]
        except ValueError:
            return [(Raised(VExc(ValueError, {}, tag='str.format')), st)]
        n_auto = len([f for f in fields if f == ''])
        if n_auto > len(args) - 1:
            return [(Raised(VExc(IndexError, {}, tag='str.format')), st)]
        # simple templates (literal text and plain {} / {name} fields of str/int values): exact concatenation
        pieces, ok, k = [], True, 0
        for lit, field, spec, conv in _string.Formatter().parse(tmpl.t.lit[1]):
            if lit:
                pieces.append(StrV(lit))
            if field is None:
                continue
            if spec and not conv and field and not field.isdigit():
                import re as _re2
                m_spec = _re2.fullmatch(r'\{(\w+)\}d', spec)
                v_num = kwargs.get(field)
                v_wid = kwargs.get(m_spec.group(1)) if m_spec else None
                if m_spec and isinstance(v_num, VInt) and isinstance(v_wid, VInt):
                    # '{count:{n_digits}d}': the decimal text of an int right-aligned in a field (uninterpreted py_format_d)
                    eng.trusted_used.add('builtin:format spec {x:{w}d} (uninterpreted py_format_d(x, w))')
                    pieces.append(eng.model_app('py_format_d', [v_num.t, v_wid.t], STR))
                    continue
            if spec or conv:
                ok = False
                break
            if field == '':
                v = args[1 + k] if 1 + k < len(args) else None
                k += 1
            elif field.isdigit():
                v = args[1 + int(field)] if 1 + int(field) < len(args) else None
            else:
                v = kwargs.get(field)
            if isinstance(v, VStr):
                pieces.append(v.t)
            elif isinstance(v, VInt):
                pieces.append(smt.StrFromInt(v.t))
            else:
                ok = False
                break
        if ok:
            return [(VStr(Concat(*pieces) if pieces else StrV('')), st)]
    out.append((VStr(eng.ctx.fresh('fmt', STR)), st))
    return out


def _str_mod(eng, args, kwargs, st, node):
    eng.trusted_used.add('builtin:str % (unconstrained text)')
    return [(VStr(eng.ctx.fresh('fmt', STR)), st)]


METHODS['str.%'] = _str_mod


@str_method('isspace')
def str_isspace(eng, args, kwargs, st, node):
    return _uf_str('py_isspace', [STR], BOOL, 'uninterpreted')(eng, args, kwargs, st, node)


# -------------------------------------------------------------------- lists

def _list_obj(eng, v, st):
    if isinstance(v, VRef):
        return st.heap[v.loc]
    return None


@method('list.append')
def list_append(eng, args, kwargs, st, node):
    xs, x = args
    o = st.heap[xs.loc]
    from . import reclists
    from .symexec import VOptSym
    if isinstance(x, VOptSym) and isinstance(o, HList):
        # the list's element type invariant (e.g. list[str]): the appended Optional must not be None here
        eng.oblige('safe', 'appended-value-is-not-None', st, Not(x.isnone), node)
        st.assume(Not(x.isnone))
        x = x.val
    if reclists.append(eng, xs, x, st, node):
        return [(NONE, st)]
    if isinstance(o, HObjList):
        if not (isinstance(x, VExc) and issubclass(x.cls, o.cls)):
            raise Undecided('append of %r to a list of %s objects' % (x, o.cls.__name__), node)
        st.heap[xs.loc] = HObjList(Add(o.n, IntV(1)), o.cls)
        return [(NONE, st)]
    if isinstance(o, HPyList):
        st.heap[xs.loc] = HPyList(o.items + [x])
        return [(NONE, st)]
    if isinstance(o, HList):
        if isinstance(x, VRef):
            seq, elem = eng.seq_of(x, st)
            if ('list', elem) == o.elem:
                st.heap[xs.loc] = HList(Concat(o.seq, smt.Unit(seq)), o.elem)
                return [(NONE, st)]
        if not isinstance(x, (VInt, VStr, VBool)) or x.ty != o.elem:
            raise Undecided('append of %r to list of %r' % (x, o.elem), node)
        new = Concat(o.seq, smt.Unit(x.t))
        eng.ctx.__dict__.setdefault('snoc', {})[new.s] = (o.seq, x.t)       # remembered: xs ++ [x] (quantifiers split on it)
        st.heap[xs.loc] = HList(new, o.elem)
        return [(NONE, st)]
    raise Undecided('append', node)


@method('list.extend')
def list_extend(eng, args, kwargs, st, node):
    xs, ys = args
    o = st.heap[xs.loc]
    if isinstance(o, HPyList):
        items = eng.concrete_items(ys, st)
        if items is not None:
            st.heap[xs.loc] = HPyList(o.items + items)
            return [(NONE, st)]
        if not o.items:
            seq, elem = eng.seq_of(ys, st)
            st.heap[xs.loc] = HList(seq, elem)
            return [(NONE, st)]
        seq0, e0 = eng.seq_of(xs, st)
        seq, elem = eng.seq_of(ys, st)
        if e0 == elem:
            st.heap[xs.loc] = HList(Concat(seq0, seq), elem)
            return [(NONE, st)]
        raise Undecided('extend concrete list with symbolic one', node)
    if isinstance(o, HList):
        seq, elem = eng.seq_of(ys, st) if eng.concrete_items(ys, st) != [] else (smt.Empty(o.seq.sort), o.elem)
        if elem != o.elem:
            raise Undecided('extend with different element type', node)
        st.heap[xs.loc] = HList(Concat(o.seq, seq), o.elem)
        return [(NONE, st)]
    raise Undecided('extend', node)


@method('list.pop')
def list_pop(eng, args, kwargs, st, node):
    xs = args[0]
    o = st.heap[xs.loc]
    if isinstance(o, HPyList):
        if len(args) == 1:
            k = -1
        else:
            ok, k = eng.concrete(args[1])
            if not ok:
                raise Undecided('pop(symbolic) on concrete list', node)
        items = list(o.items)
        try:
            v = items.pop(k)
        except IndexError:
            return eng._safe_result(FALSE, NONE, IndexError, st, node)
        st.heap[xs.loc] = HPyList(items)
        return [(v, st)]
    if isinstance(o, HList):
        n = Len(o.seq)
        i = args[1].t if len(args) > 1 else IntV(-1)
        k, inr = eng.index_term(o.seq, i, st, node, 'list')
        out = []
        for r, s in eng._safe_result(inr, NONE, IndexError, st, node):
            if isinstance(r, Raised):
                out.append((r, s))
                continue
            v = wrap(At(o.seq, k), o.elem)
            new = Concat(Substr(o.seq, IntV(0), k), Substr(o.seq, Add(k, IntV(1)), Sub(n, Add(k, IntV(1)))))
            s.heap[xs.loc] = HList(new, o.elem)
            out.append((v, s))
        return out
    raise Undecided('pop', node)


@method('list.insert')
def list_insert(eng, args, kwargs, st, node):
    xs, i, x = args
    o = st.heap[xs.loc]
    if isinstance(o, HPyList):
        ok, k = eng.concrete(i)
        if ok:
            items = list(o.items)
            items.insert(k, x)
            st.heap[xs.loc] = HPyList(items)
            return [(NONE, st)]
    if isinstance(o, HList) and isinstance(x, (VStr, VInt, VBool)):
        n = Len(o.seq)
        k = eng.norm_index(i.t, n)
        new = Concat(Substr(o.seq, IntV(0), k), smt.Unit(x.t), Substr(o.seq, k, Sub(n, k)))
        st.heap[xs.loc] = HList(new, o.elem)
        return [(NONE, st)]
    raise Undecided('insert', node)


@method('list.index')
def list_index(eng, args, kwargs, st, node):
    xs, x = args[0], args[1]
    seq, elem = eng.seq_of(xs, st)
    if not isinstance(x, VStr) or elem != ('str',):
        raise Undecided('index of %r' % (x,), node)
    from . import specs_support
    off = None
    if len(args) > 2:
        # xs.index(x, start[, stop]) == start' + xs[start':stop'].index(x)  (Python slice clipping)
        if not all(isinstance(a, VInt) for a in args[2:]):
            raise Undecided('list.index with non-int start/stop', node)
        n = Len(seq)
        off = eng.norm_index(args[2].t, n)
        hi = eng.norm_index(args[3].t, n) if len(args) > 3 else n
        seq = Substr(seq, off, Sub(hi, off))
    r = specs_support.call_spec_by_name(eng, 'first_index', [VSeq(seq, elem), x], st, node)
    if off is not None:
        r = VInt(Add(off, r.t))
    has = smt.mk('seq.contains', [seq, smt.Unit(x.t)], BOOL)
    out = []
    for res, s in eng._safe_result(has, r, ValueError, st, node):
        out.append((res, s))
    return out


@method('list.clear')
def list_clear(eng, args, kwargs, st, node):
    xs = args[0]
    o = st.heap[xs.loc]
    if isinstance(o, HPyList):
        st.heap[xs.loc] = HPyList([])
    else:
        st.heap[xs.loc] = HList(smt.Empty(o.seq.sort), o.elem)
    return [(NONE, st)]


@method('list.copy')
def list_copy(eng, args, kwargs, st, node):
    xs = args[0]
    o = st.heap[xs.loc]
    if isinstance(o, HPyList):
        return [(st.alloc(HPyList(o.items)), st)]
    return [(st.alloc(HList(o.seq, o.elem)), st)]


# ----------------------------------------------------------- dicts and sets

def _empty_present(o):
    ks = o.present.sort[len('(Array '):-len(' Bool)')]
    return smt.T('((as const %s) false)' % o.present.sort, o.present.sort)


@method('dict.clear')
def dict_clear(eng, args, kwargs, st, node):
    o = st.heap[args[0].loc]
    from . import flagdict
    if isinstance(o, flagdict.HFlagDict):
        flagdict.clear(eng, args[0], o, st)
        return [(NONE, st)]
    if isinstance(o, HMap):
        st.heap[args[0].loc] = HMap(_empty_present(o), o.vals, o.vty)
        return [(NONE, st)]
    st.heap[args[0].loc] = HDict({})
    return [(NONE, st)]


@func(dict)
def m_dict(eng, args, kwargs, st, node):
    from . import flagdict
    if not args and not kwargs:
        return [(st.alloc(HDict({})), st)]
    if len(args) == 1 and isinstance(args[0], VRef) and isinstance(st.heap.get(args[0].loc), flagdict.HFlagDict) and not kwargs:
        return [(flagdict.shallow_copy(eng, args[0], st), st)]
    if not args:
        return [(st.alloc(HDict(dict(kwargs))), st)]
    raise Undecided('dict(%r)' % (args,), node)


import collections as _collections


@func(_collections.OrderedDict)
def m_ordereddict(eng, args, kwargs, st, node):
    if not args and not kwargs:
        return [(st.alloc(HDict({})), st)]       # an empty ordered dict: the empty dict (order is not modelled for any dict)
    raise Undecided('OrderedDict(%r)' % (args,), node)


@method('dict.copy')
def dict_copy(eng, args, kwargs, st, node):
    from . import flagdict
    if isinstance(st.heap[args[0].loc], flagdict.HFlagDict):
        return [(flagdict.shallow_copy(eng, args[0], st), st)]
    return [(st.alloc(HDict(st.heap[args[0].loc].entries)), st)]


@method('dict.update')
def dict_update(eng, args, kwargs, st, node):
    d, other = args[0], args[1]
    o = st.heap[d.loc]
    from . import flagdict
    if isinstance(o, flagdict.HFlagDict) and isinstance(other, VRef) and isinstance(st.heap[other.loc], flagdict.HFlagDict):
        flagdict.update(eng, d, o, st.heap[other.loc], st, node)
        return [(NONE, st)]
    if isinstance(other, VRef) and isinstance(st.heap[other.loc], HDict):
        e = dict(o.entries)
        e.update(st.heap[other.loc].entries)
        st.heap[d.loc] = HDict(e)
        return [(NONE, st)]
    raise Undecided('dict.update with %r' % (other,), node)


@method('dict.keys')
def dict_keys(eng, args, kwargs, st, node):
    o = st.heap[args[0].loc]
    if not isinstance(o, HDict):
        raise Undecided('dict.keys of a dict with a symbolic key set', node)
    return [(VTuple([VStr(StrV(k)) for k in o.entries]), st)]


@method('dict.items')
def dict_items(eng, args, kwargs, st, node):
    o = st.heap[args[0].loc]
    if not isinstance(o, HDict):
        raise Undecided('dict.items of a dict with a symbolic key set', node)
    return [(VTuple([VTuple([VStr(StrV(k)), v]) for k, v in o.entries.items()]), st)]


@method('dict.values')
def dict_values(eng, args, kwargs, st, node):
    o = st.heap[args[0].loc]
    if not isinstance(o, HDict):
        raise Undecided('dict.values of a dict with a symbolic key set', node)
    return [(VTuple(list(o.entries.values())), st)]


@method('dict.get')
def dict_get_m(eng, args, kwargs, st, node):
    d, key = args[0], args[1]
    default = args[2] if len(args) > 2 else NONE
    o = st.heap[d.loc]
    if isinstance(o, HMap) and isinstance(key, VInt) and isinstance(default, VNone):
        from .symexec import VOptSym
        has = smt.mk('select', [o.present, key.t], BOOL)
        return [(VOptSym(Not(has), wrap(smt.mk('select', [o.vals, key.t], sort_of(o.vty)), o.vty)), st)]
    if isinstance(o, HDict) and isinstance(key, VStr) and key.t.lit is not None:
        return [(o.entries.get(key.t.lit[1], default), st)]
    raise Undecided('dict.get with symbolic key', node)


@method('set.add')
def set_add(eng, args, kwargs, st, node):
    s, x = args
    if isinstance(x, VVal):
        from . import flagdict
        x = VStr(flagdict.val_str(eng, x.t))
    o = st.heap[s.loc]
    st.heap[s.loc] = HSet(smt.mk('store', [o.arr, x.t, TRUE], o.arr.sort))
    return [(NONE, st)]


@method('set.remove')
def set_remove(eng, args, kwargs, st, node):
    s, x = args
    if isinstance(x, VVal):
        from . import flagdict
        x = VStr(flagdict.val_str(eng, x.t))
    o = st.heap[s.loc]
    has = smt.mk('select', [o.arr, x.t], BOOL)
    out = []
    for r, s2 in eng._safe_result(has, NONE, KeyError, st, node):
        if isinstance(r, Raised):
            out.append((r, s2))
        else:
            s2.heap[s.loc] = HSet(smt.mk('store', [o.arr, x.t, FALSE], o.arr.sort))
            out.append((NONE, s2))
    return out


@method('set.discard')
def set_discard(eng, args, kwargs, st, node):
    s, x = args
    o = st.heap[s.loc]
    st.heap[s.loc] = HSet(smt.mk('store', [o.arr, x.t, FALSE], o.arr.sort))
    return [(NONE, st)]


import copy as _copy


@func(_copy.deepcopy)
def m_deepcopy(eng, args, kwargs, st, node):
    v = args[0]
    from . import flagdict
    if isinstance(v, VRef) and isinstance(st.heap.get(v.loc), flagdict.HFlagDict):
        eng.trusted_used.add('stdlib:copy.deepcopy of a state dict: a new dict with equal flags and a NEW set object with equal '
                             'members under REQUIRES')
        return [(flagdict.deep_copy(eng, v, st), st)]
    if isinstance(v, VPy) and isinstance(v.obj, dict):
        return [(flagdict.from_concrete(eng, v.obj, st), st)]
    raise Undecided('copy.deepcopy(%r)' % (v,), node)


@func(set)
def m_set(eng, args, kwargs, st, node):
    if not args:
        from . import flagdict
        return [(st.alloc(HSet(flagdict.const_arr(False))), st)]
    v = args[0]
    if isinstance(v, VRef) and isinstance(st.heap.get(v.loc), HSet):
        return [(st.alloc(HSet(st.heap[v.loc].arr)), st)]     # a new set object with the same members
    if isinstance(v, (VBool, VInt)):
        return eng._safe_result(FALSE, NONE, TypeError, st, node)      # set(True): 'bool' object is not iterable
    try:
        seq, elem = eng.seq_of(v, st)
    except Undecided:
        seq = None
    if seq is not None and elem[0] in ('int', 'str'):
        return [(st.alloc(HSeqSet(seq, elem)), st)]       # the set of the elements of a sequence
    raise Undecided('set(%r)' % (v,), node)


class HSeqSet(object):
    """set(xs) of a symbolic sequence of ints / strs: kept as the sequence whose elements are its members."""
    __slots__ = ('seq', 'elem')

    def __init__(self, seq, elem):
        self.seq = seq
        self.elem = elem


def _components(eng, seq):
    """seq as a concatenation of known pieces: [('unit', x) | ('seq', t)] (from the registries kept by list + list and append)."""
    cat = eng.ctx.__dict__.get('cat', {})
    snoc = eng.ctx.__dict__.get('snoc', {})
    if seq.s in cat:
        out = []
        for kind, t in cat[seq.s]:
            out.extend(_components(eng, t) if kind == 'seq' else [(kind, t)])
        return out
    if seq.s in snoc:
        pre, last = snoc[seq.s]
        return _components(eng, pre) + [('unit', last)]
    return [('seq', seq)]


def _same_members(eng, st, r, seq, tag, ordered_ints):
    """r and seq have the same elements, stated per known piece of seq with skolem functions (friendly to e-matching);
    for a sorted result of ints also: the first / last item of r bound every member."""
    comps = _components(eng, seq)
    f = eng.ctx.fresh_name('%s_src' % tag)
    eng.ctx.fun(f, ['Int'], 'Int')
    i = smt.bound(eng.ctx, 'i', INT)
    fi = eng.ctx.app(f, i)
    first, last = At(r, IntV(0)), At(r, Sub(Len(r), IntV(1)))

    def from_some_piece(x, fx):
        alts = []
        for kind, t in comps:
            if kind == 'unit':
                alts.append(Eq(x, t))
            else:
                alts.append(And(Le(IntV(0), fx), Lt(fx, Len(t)), Eq(At(t, fx), x)))
        return Or(*alts)
    st.assume(smt.ForAll([i], Implies(And(Le(IntV(0), i), Lt(i, Len(r))), from_some_piece(At(r, i), fi)),
                         patterns=[[At(r, i)]]))
    for at in (IntV(0), Sub(Len(r), IntV(1))):       # ground instances at both ends of r
        st.assume(Implies(Gt(Len(r), IntV(0)), from_some_piece(At(r, at), eng.ctx.app(f, at))))
    total = IntV(0)
    for kind, t in comps:
        if kind == 'unit':
            g = eng.ctx.fresh('%s_at' % tag, INT)
            st.assume(And(Le(IntV(0), g), Lt(g, Len(r)), Eq(At(r, g), t)))
            if ordered_ints:
                st.assume(And(Le(first, t), Le(t, last)))
            total = Add(total, IntV(1))
        else:
            gname = eng.ctx.fresh_name('%s_dst' % tag)
            eng.ctx.fun(gname, ['Int'], 'Int')
            gi = eng.ctx.app(gname, i)
            fact = And(Le(IntV(0), gi), Lt(gi, Len(r)), Eq(At(r, gi), At(t, i)))
            if ordered_ints:
                fact = And(fact, Le(first, At(t, i)), Le(At(t, i), last))
            st.assume(smt.ForAll([i], Implies(And(Le(IntV(0), i), Lt(i, Len(t))), fact), patterns=[[At(t, i)]]))
            total = Add(total, Len(t))
    st.assume(Le(Len(r), total))
    st.assume(Implies(Gt(total, IntV(0)), Gt(Len(r), IntV(0))))


def seqset_as_list(eng, o, st, ordered):
    """list(set(xs)) / sorted(set(xs)): a duplicate-free sequence with the members of xs; strictly increasing when sorted."""
    r = eng.ctx.fresh('sorted_set' if ordered else 'set_items', o.seq.sort)
    ordered_ints = ordered and o.elem[0] == 'int'
    _same_members(eng, st, r, o.seq, 'sset' if ordered else 'lset', ordered_ints)
    i = smt.bound(eng.ctx, 'i', INT)
    j = smt.bound(eng.ctx, 'j', INT)
    rng = And(Le(IntV(0), i), Lt(i, j), Lt(j, Len(r)))
    if ordered_ints:
        body = Lt(At(r, i), At(r, j))
        eng.trusted_used.add('builtin:sorted(set(xs)) of ints (strictly increasing, same members as xs)')
    else:
        body = Ne(At(r, i), At(r, j))
        eng.trusted_used.add('builtin:list(set(xs)) / sorted(set(xs)) (duplicate free, same members as xs, order unspecified)')
    st.assume(smt.ForAll([i, j], Implies(rng, body), patterns=[[At(r, i), At(r, j)]]))
    return st.alloc(HList(r, o.elem))


# ----------------------------------------------------------------- builtins

@func(len)
def m_len(eng, args, kwargs, st, node):
    v = args[0]
    from .symexec import VOptSym
    if isinstance(v, VOptSym) and eng.pure:
        v = v.val
    if isinstance(v, VStr):
        return [(VInt(Len(v.t)), st)]
    if type(v).__name__ == 'VEmptyList':
        return [(VInt(IntV(0)), st)]
    if isinstance(v, VTuple):
        return [(VInt(IntV(len(v.items))), st)]
    if isinstance(v, VRef):
        o = st.heap[v.loc]
        from . import contracts as _C
        if isinstance(o, HInst) and o.cls in _C.ASLIST:
            return m_len(eng, [o.fields[_C.ASLIST[o.cls]]], kwargs, st, node)
        if isinstance(o, HPyList):
            return [(VInt(IntV(len(o.items))), st)]
        if isinstance(o, HDict):
            return [(VInt(IntV(len(o.entries))), st)]
        if isinstance(o, HList):
            return [(VInt(Len(o.seq)), st)]
        if isinstance(o, HObjList):
            return [(VInt(o.n), st)]
        if isinstance(o, HRecSeq):
            return [(VInt(o.n), st)]
        if isinstance(o, HIdxList):
            return [(VInt(Len(o.idx)), st)]
        if isinstance(o, HMap):
            eng.trusted_used.add('builtin:len(dict) (uninterpreted cardinality; 0 iff no key present)')
            c = eng.model_app('py_mapcard', [o.present], INT)
            st.assume(Ge(c, IntV(0)))
            x = smt.bound(eng.ctx, 'k', INT)
            empty = smt.ForAll([x], Not(smt.mk('select', [o.present, x], BOOL)),
                               patterns=[[smt.mk('select', [o.present, x], BOOL)]])
            st.assume(Eq(Eq(c, IntV(0)), empty))
            return [(VInt(c), st)]
        if isinstance(o, HSet):
            eng.trusted_used.add('builtin:len(set) (uninterpreted card; 0 iff empty)')
            c = eng.model_app('py_card', [o.arr], INT)
            st.assume(Ge(c, IntV(0)))
            x = smt.bound(eng.ctx, 'x', STR)
            empty = smt.ForAll([x], Not(smt.mk('select', [o.arr, x], BOOL)))
            st.assume(Eq(Eq(c, IntV(0)), empty))
            return [(VInt(c), st)]
    if isinstance(v, VSeq):
        return [(VInt(Len(v.t)), st)]
    from .executor import VRecList
    if isinstance(v, VRecList):
        return [(VInt(v.n), st)]
    ok, c = eng.concrete(v, st)
    if ok:
        return [(VInt(IntV(len(c))), st)]
    raise Undecided('len of %r' % (v,), node)


def C_ISINSTANCE():
    from . import contracts as _C
    return _C.ISINSTANCE


@func(all)
def m_all(eng, args, kwargs, st, node):
    items = eng.concrete_items(args[0], st)
    if items is None:
        raise Undecided('all() of a symbolic iterable outside a comprehension', node)
    return [(VBool(And(*[eng.truthy(i, st) for i in items])), st)]


@func(any)
def m_any(eng, args, kwargs, st, node):
    items = eng.concrete_items(args[0], st)
    if items is None:
        raise Undecided('any() of a symbolic iterable outside a comprehension', node)
    return [(VBool(Or(*[eng.truthy(i, st) for i in items])), st)]


@func(_osp.splitext if False else __import__('os').path.splitext)
def m_splitext(eng, args, kwargs, st, node):
    p = args[0]
    eng.trusted_used.add('abstract paths: os.path.splitext as two uninterpreted functions')
    return [(VTuple([VStr(eng.model_app('path_root', [p.t], STR)), VStr(eng.model_app('path_ext', [p.t], STR))]), st)]


@method('EventDict.__setitem__')
def eventdict_set(eng, args, kwargs, st, node):
    """A dict that is only written by the function under verification: every store is a ghost event."""
    eng.log_event(st, 'store', {'key': args[1], 'value': args[2]}, 'normal')
    return [(NONE, st)]


@func(isinstance)
def m_isinstance(eng, args, kwargs, st, node):
    v, k = args
    ok, cls = eng.concrete(k, st)
    if not ok:
        raise Undecided('isinstance with symbolic class', node)
    classes = cls if isinstance(cls, tuple) else (cls,)
    if isinstance(v, VExc):
        if v.tag == 'live':
            raise Undecided('isinstance on the caller-provided exception', node)
        return [(VBool(BoolV(any(issubclass(v.cls, c) for c in classes))), st)]
    table = [(VStr, str), (VBool, bool), (VInt, int), (VNone, type(None)), (VTuple, tuple)]
    for vt, pt in table:
        if isinstance(v, vt):
            return [(VBool(BoolV(any(issubclass(pt, c) for c in classes))), st)]
    if isinstance(v, VRef):
        o = st.heap[v.loc]
        if isinstance(o, (HList, HPyList)):
            return [(VBool(BoolV(any(issubclass(list, c) for c in classes))), st)]
        if isinstance(o, HDict):
            return [(VBool(BoolV(any(issubclass(dict, c) for c in classes))), st)]
        if isinstance(o, HInst) and o.cls in C_ISINSTANCE():
            # tagged record standing for objects of several classes
            tags = C_ISINSTANCE()[o.cls]
            ts = []
            for c in classes:
                f = tags.get(c.__name__)
                if f is None:
                    ts.append(FALSE)
                else:
                    ts.append(o.fields[f].t)
            return [(VBool(Or(*ts)), st)]
        if isinstance(o, HInst):
            real = eng.real_class(o.cls)
            if real is not None:
                return [(VBool(BoolV(any(issubclass(real, c) for c in classes))), st)]
    if isinstance(v, VPy):
        return [(VBool(BoolV(isinstance(v.obj, classes))), st)]
    raise Undecided('isinstance(%r, %r)' % (v, cls), node)


@func(NOOP_CALLABLE)
def m_noop(eng, args, kwargs, st, node):
    eng.trusted_used.add('callback:_log (a logging callback has no effect on the verified state)')
    return [(NONE, st)]


import time as _time
import math as _math


@func(_math.log)
def m_log(eng, args, kwargs, st, node):
    eng.trusted_used.add('stdlib:math.log / math.ceil (floating point: opaque numbers)')
    return [(VVal(eng.ctx.fresh('log', sort_of(('val',)))), st)]


@func(_math.ceil)
def m_ceil(eng, args, kwargs, st, node):
    return [(VVal(eng.ctx.fresh('ceil', sort_of(('val',)))), st)]



@func(_time.time)
def m_time(eng, args, kwargs, st, node):
    eng.trusted_used.add('stdlib:time.time (an opaque number; nothing verified depends on it)')
    return [(VVal(eng.ctx.fresh('now', sort_of(('val',)))), st)]


@func(print)
def m_print(eng, args, kwargs, st, node):
    eng.trusted_used.add('builtin:print (no effect on the verified state)')
    return [(NONE, st)]


@func(repr)
def m_repr(eng, args, kwargs, st, node):
    v = args[0]
    if isinstance(v, VVal):
        from . import specs_support
        eng.trusted_used.add('builtin:repr (oracle: S.repr_of(v), raises some Exception iff S.repr_raises(v))')
        raises = specs_support.call_spec_by_name(eng, 'repr_raises', [v], st, node).t
        out = []
        for flag, s in eng.fork_on(st, raises):
            if flag:
                out.append((Raised(VExc(RuntimeError, {}, tag='repr')), s))
            else:
                out.append((specs_support.call_spec_by_name(eng, 'repr_of', [v], s, node), s))
        return out
    if isinstance(v, VStr):
        eng.trusted_used.add('builtin:repr(str) (uninterpreted py_repr_str)')
        return [(VStr(eng.model_app('py_repr_str', [v.t], STR)), st)]
    if isinstance(v, VInt):
        return [(VStr(smt.StrFromInt(v.t)), st)]
    return [(VStr(eng.ctx.fresh('repr', STR)), st)]


@func(type)
def m_type(eng, args, kwargs, st, node):
    v = args[0]
    if isinstance(v, VExc):
        return [(VPy(v.cls), st)]
    if isinstance(v, VVal):
        eng.ctx.sort('Val')
        return [(VVal(eng.model_app('py_type', [v.t], 'Val')), st)]
    raise Undecided('type(%r)' % (v,), node)


@func(str)
def m_str(eng, args, kwargs, st, node):
    if not args:
        return [(VStr(StrV('')), st)]
    return [(VStr(eng.to_str_term(args[0], st)), st)]


@func(bool)
def m_bool(eng, args, kwargs, st, node):
    return [(VBool(eng.truthy(args[0], st)), st)]


@func(int)
def m_int(eng, args, kwargs, st, node):
    v = args[0]
    if isinstance(v, VInt):
        return [(v, st)]
    if isinstance(v, VBool):
        return [(VInt(Ite(v.t, IntV(1), IntV(0))), st)]
    if isinstance(v, VVal):
        return [(VInt(eng.model_app('py_int_of_number', [v.t], INT)), st)]
    if isinstance(v, VStr):
        eng.trusted_used.add('builtin:int(str) (uninterpreted py_int; ValueError unless py_is_int)')
        ok = eng.model_app('py_is_int', [v.t], BOOL)
        out = []
        for r, s in eng._safe_result(ok, NONE, ValueError, st, node):
            out.append((r, s) if isinstance(r, Raised) else (VInt(eng.model_app('py_int', [v.t], INT)), s))
        return out
    raise Undecided('int(%r)' % (v,), node)


@func(sorted)
def m_sorted(eng, args, kwargs, st, node):
    v = args[0]
    if isinstance(v, VRef) and isinstance(st.heap.get(v.loc), HSeqSet) and not kwargs:
        return [(seqset_as_list(eng, st.heap[v.loc], st, True), st)]
    items = eng.concrete_items(v, st)
    if items is not None and not items:
        return [(st.alloc(HPyList([])), st)]
    seq, elem = eng.seq_of(v, st)
    eng.trusted_used.add('builtin:sorted (a permutation: only the length is used)')
    r = eng.ctx.fresh('sorted', seq.sort)
    st.assume(Eq(Len(r), Len(seq)))
    return [(st.alloc(HList(r, elem)), st)]


@func(list)
def m_list(eng, args, kwargs, st, node):
    if not args:
        return [(st.alloc(HPyList([])), st)]
    v = args[0]
    from .executor import VRecList
    if isinstance(v, VRef) and isinstance(st.heap.get(v.loc), HSeqSet):
        return [(seqset_as_list(eng, st.heap[v.loc], st, False), st)]
    if isinstance(v, VRecList):
        return [(v, st)]        # a record list is immutable in the engine: list(xs) is xs
    items = eng.concrete_items(v, st)
    if items is not None:
        return [(st.alloc(HPyList(items)), st)]
    seq, elem = eng.seq_of(v, st)
    return [(st.alloc(HList(seq, elem)), st)]


@func(tuple)
def m_tuple(eng, args, kwargs, st, node):
    if not args:
        return [(VTuple([]), st)]
    items = eng.concrete_items(args[0], st)
    if items is not None:
        return [(VTuple(items), st)]
    raise Undecided('tuple of symbolic iterable', node)


@func(min)
def m_min(eng, args, kwargs, st, node):
    if len(args) == 2 and all(isinstance(a, VInt) for a in args):
        return [(VInt(Min(args[0].t, args[1].t)), st)]
    raise Undecided('min', node)


@func(max)
def m_max(eng, args, kwargs, st, node):
    if len(args) == 2 and all(isinstance(a, VInt) for a in args):
        return [(VInt(Max(args[0].t, args[1].t)), st)]
    raise Undecided('max', node)


@func(hasattr)
def m_hasattr(eng, args, kwargs, st, node):
    v, name = args
    ok, n = eng.concrete(name)
    if isinstance(v, VPy) and ok:
        return [(VBool(BoolV(hasattr(v.obj, n))), st)]
    if isinstance(v, VExc) and ok:
        if v.tag in ('live',):
            raise Undecided('hasattr on unknown exception', node)
        return [(VBool(BoolV(hasattr(v.cls, n) or n in v.attrs)), st)]
    if isinstance(v, VRef) and ok and isinstance(st.heap[v.loc], HInst):
        o = st.heap[v.loc]
        real = eng.real_class(o.cls)
        return [(VBool(BoolV(n in o.fields or (real is not None and hasattr(real, n)))), st)]
    raise Undecided('hasattr(%r)' % (v,), node)


# ------------------------------------------------------------------ regexes
# re.* calls are resolved through a registry of (pattern, flags) -> spec name.
# The registry is filled by contract files (REGEX_MODELS) so that the spec and
# the model agree on one uninterpreted function per regular language.

REGEX_SPLIT = {}    # (pattern, flags) -> name of spec function (S.<name>) giving the pieces
REGEX_SUB = {}      # (pattern, repl, flags) -> spec function name
REGEX_MATCH = {}


def _regex_key(eng, pat, flags, st):
    okp, p = eng.concrete(pat, st)
    if not okp:
        raise Undecided('regex pattern is not concrete')
    if isinstance(p, _re.Pattern):
        return p.pattern, p.flags & ~_re.UNICODE
    f = 0
    if flags is not None:
        okf, f = eng.concrete(flags, st)
        if not okf:
            raise Undecided('regex flags not concrete')
    return p, int(f) & ~_re.UNICODE


def regex_pred(kind, pattern, flags):
    """The uninterpreted predicate 're.<kind>(pattern, s, flags) is not None' as a function symbol
    String -> Bool, one per (kind, pattern, flags): code and specification meet on the same symbol
    exactly when they use the same pattern, flags and matching mode."""
    import hashlib
    h = hashlib.sha1(('%s|%r|%d' % (kind, pattern, int(flags))).encode()).hexdigest()[:10]
    name = 're_%s_%s' % (kind, h)
    smt.CTX.fun(name, [STR], BOOL)
    REGEX_PREDS[name] = (kind, pattern, int(flags))
    return name


REGEX_PREDS = {}


def _re_match_like(kind):
    def model(eng, args, kwargs, st, node):
        pat, s = args[0], args[1]
        flags = kwargs.get('flags', args[2] if len(args) > 2 else None)
        p, f = _regex_key(eng, pat, flags, st)
        if not isinstance(s, VStr):
            raise Undecided('re.%s on %r' % (kind, s), node)
        name = regex_pred(kind, p, f)
        eng.trusted_used.add('stdlib:re.%s(%r, flags=%d) as the uninterpreted predicate %s' % (kind, p, f, name))
        from .symexec import VOptSym
        hit = eng.ctx.app(name, s.t)
        return [(VOptSym(Not(hit), VVal(eng.ctx.fresh('match', sort_of(('val',))))), st)]
    return model


FUNCS[_re.match] = _re_match_like('match')
FUNCS[_re.search] = _re_match_like('search')
FUNCS[_re.fullmatch] = _re_match_like('fullmatch')


@func(_re.split)
def m_re_split(eng, args, kwargs, st, node):
    pat, s = args[0], args[1]
    flags = kwargs.get('flags', args[3] if len(args) > 3 else None)
    key = _regex_key(eng, pat, flags, st)
    name = REGEX_SPLIT.get(key)
    if name is None:
        # the code builds a pattern the spec does not know: a failed regex obligation
        eng.oblige('regex', 're.split-pattern-known', st, FALSE, node,
                   note='re.split pattern %r flags %r is not the pattern the specification pins' % key)
        raise Undecided('re.split with unregistered pattern %r' % (key,), node)
    eng.trusted_used.add('stdlib:re.split for pattern %r (uninterpreted S.%s)' % (key[0], name))
    from . import specs_support
    r = specs_support.call_spec_by_name(eng, name, [s], st, node)
    seq, elem = eng.seq_of(r, st)
    return [(st.alloc(HList(seq, elem)), st)]


def regex_sub_fn(pattern, repl, flags):
    """re.sub(pattern, repl, s, flags=flags) as an uninterpreted function String -> String, one symbol per
    (pattern, replacement, flags): code and specification meet on the same symbol exactly when they agree on all three."""
    import hashlib
    h = hashlib.sha1(('sub|%r|%r|%d' % (pattern, repl, int(flags))).encode()).hexdigest()[:10]
    name = 're_sub_%s' % h
    smt.CTX.fun(name, [STR], STR)
    REGEX_PREDS[name] = ('sub', pattern, repl, int(flags))
    return name


@func(_re.sub)
def m_re_sub(eng, args, kwargs, st, node):
    pat, repl, s = args[0], args[1], args[2]
    flags = kwargs.get('flags', args[4] if len(args) > 4 else None)
    p, f = _regex_key(eng, pat, flags, st)
    okr, r = eng.concrete(repl, st)
    if not okr:
        raise Undecided('re.sub replacement not concrete', node)
    if not isinstance(s, VStr):
        raise Undecided('re.sub on %r' % (s,), node)
    name = REGEX_SUB.get((p, r, f))
    if name is not None:
        eng.trusted_used.add('stdlib:re.sub for pattern %r (uninterpreted S.%s)' % (p, name))
        from . import specs_support
        return [(specs_support.call_spec_by_name(eng, name, [s], st, node), st)]
    fn = regex_sub_fn(p, r, f)
    eng.trusted_used.add('stdlib:re.sub(%r, %r, flags=%d) as the uninterpreted function %s' % (p, r, f, fn))
    return [(VStr(eng.ctx.app(fn, s.t)), st)]


# --------------------------------------------------- io.StringIO (as used by TeeStringIO)
# State of the stream: fields buf (everything written so far) and pos (read/write position).

def _set_fields(st, ref, **kw):
    o = st.heap[ref.loc]
    f = dict(o.fields)
    f.update(kw)
    st.heap[ref.loc] = HInst(o.cls, f, o.view)


@method('TeeStringIO.seek')
def sio_seek(eng, args, kwargs, st, node):
    eng.trusted_used.add('stdlib:io.StringIO seek/read/tell (buffer + position model)')
    self_, pos = args[0], args[1]
    _set_fields(st, self_, pos=pos)
    return [(pos, st)]


@method('TeeStringIO.read')
def sio_read(eng, args, kwargs, st, node):
    self_ = args[0]
    o = st.heap[self_.loc]
    buf, pos = o.fields['buf'], o.fields['pos']
    n = Len(buf.t)
    text = Substr(buf.t, Min(Max(pos.t, IntV(0)), n), n)
    _set_fields(st, self_, pos=VInt(Max(pos.t, n)))
    return [(VStr(text), st)]


@method('TeeStringIO.tell')
def sio_tell(eng, args, kwargs, st, node):
    return [(st.heap[args[0].loc].fields['pos'], st)]


@method('TeeStringIO.close')
def sio_close(eng, args, kwargs, st, node):
    return [(NONE, st)]


# ------------------------------------------------------------- os / warnings
import os as _os
import warnings as _warnings


@func(_os.environ.get)
def m_environ_get(eng, args, kwargs, st, node):
    eng.trusted_used.add('stdlib:os.environ.get (external input: an unconstrained value)')
    return [(VVal(eng.ctx.fresh('env', sort_of(('val',)))), st)]



@func(_os.fspath)
def m_fspath(eng, args, kwargs, st, node):
    if isinstance(args[0], VStr):
        return [(args[0], st)]
    raise Undecided('os.fspath of %r' % (args[0],), node)


@func(_warnings.warn)
def m_warn(eng, args, kwargs, st, node):
    eng.trusted_used.add('stdlib:warnings.warn (no effect on the verified state)')
    eng.log_event(st, 'warnings.warn', {'message': args[0]}, 'normal')
    return [(NONE, st)]


# ------------------------------------------------------------------ abstract file system (os.path)
# Paths are strings; the file system is three uninterpreted predicates; join/dirname/basename are uninterpreted
# functions (no algebra is assumed beyond: a file or a directory exists).  The same symbols are available to
# specifications as S.fs_exists / S.fs_isfile / S.fs_isdir / S.path_join / S.path_dirname / S.path_basename.
import os.path as _osp


def _fs_pred(name):
    def model(eng, args, kwargs, st, node):
        p = args[0]
        if not isinstance(p, VStr):
            raise Undecided('os.path.%s of %r' % (name, p), node)
        eng.trusted_used.add('abstract file system: os.path.exists/isfile/isdir as uninterpreted predicates (a file or directory exists)')
        ctx = eng.ctx
        new = 'fs_exists' not in ctx.funs
        for nm in ('fs_exists', 'fs_isfile', 'fs_isdir'):
            ctx.fun(nm, [STR], BOOL)
        if new:
            x = smt.bound(ctx, 'x', STR)
            ctx.fun_axioms['fs_isfile'] = [smt.ForAll([x], Implies(ctx.app('fs_isfile', x), ctx.app('fs_exists', x)),
                                                      patterns=[[ctx.app('fs_isfile', x)]])]
            ctx.fun_axioms['fs_isdir'] = [smt.ForAll([x], Implies(ctx.app('fs_isdir', x), ctx.app('fs_exists', x)),
                                                     patterns=[[ctx.app('fs_isdir', x)]])]
        return [(VBool(ctx.app('fs_' + name, p.t)), st)]
    return model


def path_join_axiom(ctx):
    """os.path.join(a, b) always ends with b (b relative: a + sep + b; b absolute: b): the one algebraic fact assumed."""
    if 'path_join' not in ctx.fun_axioms:
        ctx.fun('path_join', [STR, STR], STR)
        a = smt.bound(ctx, 'a', STR)
        b = smt.bound(ctx, 'b', STR)
        pj = ctx.app('path_join', a, b)
        ctx.fun_axioms['path_join'] = [smt.ForAll([a, b], SuffixOf(b, pj), patterns=[[pj]])]


def _path_fn(name, arity):
    def model(eng, args, kwargs, st, node):
        if not all(isinstance(a, VStr) for a in args):
            raise Undecided('os.path.%s of %r' % (name, args), node)
        eng.trusted_used.add('abstract paths: os.path.join/dirname/basename/abspath/expanduser/realpath as uninterpreted functions')
        if name == 'join':
            path_join_axiom(eng.ctx)
            t = args[0].t
            for a in args[1:]:
                t = eng.model_app('path_join', [t, a.t], STR)
            return [(VStr(t), st)]
        if name == 'split':
            return [(VTuple([VStr(eng.model_app('path_dirname', [args[0].t], STR)),
                             VStr(eng.model_app('path_basename', [args[0].t], STR))]), st)]
        return [(VStr(eng.model_app('path_' + name, [args[0].t], STR)), st)]
    return model


for _n in ('exists', 'isfile', 'isdir'):
    FUNCS[getattr(_osp, _n)] = _fs_pred(_n)
for _n in ('join', 'dirname', 'basename', 'abspath', 'expanduser', 'realpath', 'split'):
    FUNCS[getattr(_osp, _n)] = _path_fn(_n, 1)


import os as _os_mod


@func(_os_mod.walk)
def m_os_walk(eng, args, kwargs, st, node):
    """os.walk(top): some finite sequence of (dirpath, dirnames, filenames) entries, top-down; the caller may prune the
    walk by emptying dirnames in place (what the walk does with that is stdlib behaviour, assumed)."""
    from .executor import VRecList
    eng.trusted_used.add('stdlib:os.walk (top-down; honours in-place pruning of dirnames)')
    n = eng.ctx.fresh('walk_len', INT)
    st.assume(Ge(n, IntV(0)))
    return [(VRecList(n, 'WalkEntry', eng.ctx.fresh_name('walk')), st)]


# ------------------------------------------------------------------ explicit iterators (line_iter = enumerate(lines))
@func(enumerate)
def m_enumerate(eng, args, kwargs, st, node):
    """enumerate(xs) used as a VALUE (an iterator that several pieces of code advance): a heap record EnumIter with the
    immutable sequence and the number of items consumed so far."""
    seq, elem = eng.seq_of(args[0], st)
    start = args[1] if len(args) > 1 else kwargs.get('start', VInt(IntV(0)))
    return [(st.alloc(HInst('EnumIter', {'seq': VSeq(seq, elem), 'pos': VInt(IntV(0)), 'start': start})), st)]


@func(next)
def m_next(eng, args, kwargs, st, node):
    it = args[0]
    o = st.heap.get(it.loc) if isinstance(it, VRef) else None
    if not (isinstance(o, HInst) and o.cls == 'EnumIter'):
        raise Undecided('next(%r)' % (it,), node)
    seq, pos = o.fields['seq'], o.fields['pos']
    if not isinstance(seq, VSeq):
        seq = VSeq(*eng.seq_of(seq, st))        # the iterator as a parameter: its sequence is a list object
    out = []
    for r, s in eng._safe_result(Lt(pos.t, Len(seq.t)), NONE, StopIteration, st, node):
        if isinstance(r, Raised):
            out.append((r, s))
            continue
        o2 = s.heap[it.loc]
        f = dict(o2.fields)
        f['pos'] = VInt(Add(pos.t, IntV(1)))
        s.heap[it.loc] = HInst(o2.cls, f, o2.view)
        out.append((VTuple([VInt(Add(o.fields['start'].t, pos.t)), wrap(At(seq.t, pos.t), seq.elem)]), s))
    return out


def regex_span_fns(pattern, flags):
    """start / end of the first match of re.search(pattern, s, flags) as two uninterpreted functions of the text."""
    import hashlib
    h = hashlib.sha1(('span|%r|%d' % (pattern, int(flags))).encode()).hexdigest()[:10]
    a, b = 're_start_%s' % h, 're_end_%s' % h
    smt.CTX.fun(a, [STR], INT)
    smt.CTX.fun(b, [STR], INT)
    return a, b


def _re_search_obj(eng, args, kwargs, st, node):
    """re.search returning a match object whose start()/end() are used: Optional[ReMatch]."""
    pat, s = args[0], args[1]
    flags = kwargs.get('flags', args[2] if len(args) > 2 else None)
    p, f = _regex_key(eng, pat, flags, st)
    name = regex_pred('search', p, f)
    a, b = regex_span_fns(p, f)
    eng.trusted_used.add('stdlib:re.search(%r, flags=%d): uninterpreted predicate %s and span functions' % (p, f, name))
    from .symexec import VOptSym
    hit = eng.ctx.app(name, s.t)
    m = st.alloc(HInst('ReMatch', {'start_': VInt(eng.ctx.app(a, s.t)), 'end_': VInt(eng.ctx.app(b, s.t))}))
    st.assume(Implies(hit, And(Le(IntV(0), eng.ctx.app(a, s.t)), Le(eng.ctx.app(a, s.t), eng.ctx.app(b, s.t)),
                               Le(eng.ctx.app(b, s.t), Len(s.t)))))
    return [(VOptSym(Not(hit), m), st)]


FUNCS[_re.search] = _re_search_obj


@method('ReMatch.start')
def rematch_start(eng, args, kwargs, st, node):
    return [(st.heap[args[0].loc].fields['start_'], st)]


@method('ReMatch.end')
def rematch_end(eng, args, kwargs, st, node):
    return [(st.heap[args[0].loc].fields['end_'], st)]


# ----------------------------------------------------------------- pytest configuration object (C15)
@method('PytestConfig.getvalue')
def pytest_config_getvalue(eng, args, kwargs, st, node):
    key = args[1]
    if not isinstance(key, VStr):
        raise Undecided('config.getvalue(%r)' % (key,), node)
    eng.ctx.sort('Val')
    eng.trusted_used.add('pytest: config.getvalue(name) is a function of the option name (uninterpreted pytest_option)')
    return [(VVal(eng.model_app('pytest_option', [key.t], 'Val')), st)]


# ----------------------------------------------------------------- map(len, xs) / sum(ints)
@func(map)
def m_map(eng, args, kwargs, st, node):
    f = args[0]
    if len(args) == 2 and isinstance(f, VPy) and f.obj is len:
        seq, elem = eng.seq_of(args[1], st)
        if elem[0] == 'str':
            r = eng.ctx.fresh('lens', '(Seq Int)')
            i = smt.bound(eng.ctx, 'i', INT)
            st.assume(Eq(Len(r), Len(seq)))
            st.assume(smt.ForAll([i], Implies(And(Le(IntV(0), i), Lt(i, Len(seq))), Eq(At(r, i), Len(At(seq, i)))),
                                 patterns=[[At(r, i)]]))
            return [(st.alloc(HList(r, ('int',))), st)]
    raise Undecided('map(%r, ...)' % (f,), node)


@func(sum)
def m_sum(eng, args, kwargs, st, node):
    if len(args) == 1:
        try:
            seq, elem = eng.seq_of(args[0], st)
        except Undecided:
            seq = None
        if seq is not None and elem[0] == 'int':
            from . import specs_support
            return [(specs_support.call_spec_by_name(eng, 'int_sum', [VSeq(seq, elem)], st, node), st)]
    raise Undecided('sum(%r)' % (args,), node)


# ----------------------------------------------------------------- ordered mapping of collected definitions (C07 glue)
@method('CallDefs.items')
def calldefs_items(eng, args, kwargs, st, node):
    o = st.heap[args[0].loc]
    return [(o.fields['entries'], st)]


# ----------------------------------------------------------------- fnmatch (glob patterns on names): uninterpreted
import fnmatch as _fnmatch


@func(_fnmatch.fnmatch)
def m_fnmatch(eng, args, kwargs, st, node):
    if len(args) == 2 and all(isinstance(a, VStr) for a in args):
        eng.trusted_used.add('stdlib:fnmatch.fnmatch (uninterpreted predicate of name and pattern)')
        return [(VBool(eng.model_app('py_fnmatch', [args[0].t, args[1].t], BOOL)), st)]
    raise Undecided('fnmatch(%r)' % (args,), node)
