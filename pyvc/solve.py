"""
pyvc.solve -- discharge SMT-LIB queries with a portfolio of back ends.

A query is *discharged* iff at least one back end answers ``unsat``.
Back ends: z3 (Python API of the z3-solver wheel, in-process in a worker),
cvc5 CLI (``--strings-exp``), z3 4.8 CLI.  ``sat``/``unknown``/timeouts are
reported as such and are never turned into ``holds``.
"""
import os
import subprocess
import tempfile
import time
import concurrent.futures as cf

CVC5 = '/usr/bin/cvc5'
Z3_OLD = '/usr/bin/z3'

_POOL = None


def _worker_init():
    # a solver worker must never take the machine down: cap its address space (z3 then reports out-of-memory, which is an
    # inconclusive result, never a verdict)
    try:
        import resource
        cap = int(os.environ.get('PYVC_WORKER_MEM_GB', '6')) * (1 << 30)
        resource.setrlimit(resource.RLIMIT_AS, (cap, cap))
    except Exception:
        pass


def pool():
    global _POOL
    if _POOL is None:
        n = int(os.environ.get('PYVC_JOBS', '0')) or min(16, os.cpu_count() or 4)
        _POOL = cf.ProcessPoolExecutor(max_workers=n, initializer=_worker_init)
    return _POOL


def shutdown():
    global _POOL
    if _POOL is not None:
        _POOL.shutdown(wait=False, cancel_futures=True)
        _POOL = None


# ------------------------------------------------------------------ z3 API

def _z3_value(v):
    import z3
    if z3.is_int_value(v):
        return v.as_long()
    if z3.is_true(v):
        return True
    if z3.is_false(v):
        return False
    if z3.is_string_value(v):
        return _unescape(v.as_string())
    if z3.is_seq(v):
        k = v.decl().kind()
        if k == z3.Z3_OP_SEQ_EMPTY:
            return [] if not z3.is_string(v) else ''
        if k == z3.Z3_OP_SEQ_UNIT:
            return [_z3_value(v.arg(0))]
        if k == z3.Z3_OP_SEQ_CONCAT:
            out = None
            for i in range(v.num_args()):
                x = _z3_value(v.arg(i))
                out = x if out is None else out + x
            return out
    return None


def _unescape(s):
    import re
    return re.sub(r'\\u\{([0-9a-fA-F]+)\}', lambda m: chr(int(m.group(1), 16)), s)


def run_z3_api(text, timeout_ms, want_model=False, fresh_ctx=False):
    import z3
    t0 = time.time()
    try:
        # proof obligations get a context of their own: nothing declared by an earlier query of this worker
        # process (sorts, functions with the same name) can leak into them
        ctx = z3.Context() if fresh_ctx else z3.main_ctx()
        s = z3.Solver(ctx=ctx)
        s.set('timeout', int(timeout_ms))
        s.from_string(text)
        # z3's own timeout is not honoured by every pre-processing step: interrupt the context from a timer as well
        import threading
        timer = threading.Timer(timeout_ms / 1000.0 + 5.0, ctx.interrupt)
        timer.daemon = True
        timer.start()
        try:
            r = s.check()
        finally:
            timer.cancel()
    except z3.Z3Exception as ex:
        return 'error', {'error': str(ex)[:500]}, time.time() - t0
    except MemoryError:
        return 'error', {'error': 'out of memory (worker address-space cap)'}, time.time() - t0
    status = str(r)
    info = {}
    if status == 'sat' and want_model:
        try:
            m = s.model()
            mod = {}
            for d in m.decls():
                if d.arity() == 0:
                    val = _z3_value(m[d])
                    if val is not None:
                        mod[d.name()] = val
            info['model'] = mod
        except Exception as ex:   # model conversion is best effort
            info['model_error'] = str(ex)[:200]
    if status == 'unknown':
        try:
            info['reason'] = s.reason_unknown()
        except Exception:
            pass
    return status, info, time.time() - t0


# --------------------------------------------------------------------- CLI

def run_cli(kind, text, timeout_s):
    t0 = time.time()
    with tempfile.NamedTemporaryFile('w', suffix='.smt2', delete=False, dir=os.environ.get('PYVC_TMP')) as f:
        f.write(text)
        path = f.name
    try:
        if kind == 'cvc5':
            cmd = [CVC5, '--strings-exp', '--tlimit=%d' % int(timeout_s * 1000), path]
        elif kind == 'cvc5-fs':
            cmd = [CVC5, '--strings-exp', '--full-saturate-quant', '--tlimit=%d' % int(timeout_s * 1000), path]
        elif kind == 'z3old':
            cmd = [Z3_OLD, '-T:%d' % max(1, int(timeout_s)), path]
        else:
            raise ValueError(kind)
        try:
            p = subprocess.run(cmd, capture_output=True, text=True, timeout=timeout_s + 5)
            out = (p.stdout or '') + (p.stderr or '')
        except subprocess.TimeoutExpired:
            return 'timeout', {}, time.time() - t0
    finally:
        try:
            os.unlink(path)
        except OSError:
            pass
    first = out.strip().splitlines()[0].strip() if out.strip() else ''
    if first in ('sat', 'unsat', 'unknown'):
        return first, ({} if first == 'unsat' else {'out': out[:300]}), time.time() - t0
    if 'timeout' in out or 'interrupted' in out.lower():
        return 'timeout', {}, time.time() - t0
    return 'error', {'error': out[:500]}, time.time() - t0


# --------------------------------------------------------------- portfolio

def solve_one(job):
    """job = dict(id, texts=[variant texts], budget_s, expect) -> result dict.

    expect = 'unsat' for proof obligations, 'sat' for reachability covers.
    """
    texts = job['texts']
    budget = float(job.get('budget_s', 10))
    expect = job.get('expect', 'unsat')
    attempts = []
    verdict = None
    model = None
    t_start = time.time()

    def record(backend, variant, st, info, secs):
        attempts.append({'backend': backend, 'variant': variant, 'status': st,
                         'secs': round(secs, 3),
                         **({'info': info} if info and st not in ('unsat',) else {})})

    # An obligation is discharged iff SOME back end answers unsat.  A `sat` of one back end is only believed
    # when no other back end refutes it (z3's sequence theory has produced spurious `sat` on quantified goals).
    sat_seen = None
    for vi, text in enumerate(texts):
        st, info, secs = run_z3_api(text, min(2000, budget * 1000), want_model=True, fresh_ctx=True)
        record('z3-5.1', vi, st, info, secs)
        if st == 'unsat':
            verdict = 'unsat'
            break
        if st == 'sat' and sat_seen is None:
            sat_seen = info.get('model') or {}
            if expect == 'sat':
                verdict = 'sat'         # a reachability cover: one model is enough
                model = sat_seen or None
                break
    if verdict is None:
        for backend in ('cvc5', 'z3-5.1-long', 'z3old'):
            if sat_seen is not None and backend == 'z3-5.1-long':
                continue
            for vi, text in enumerate(texts):
                if time.time() - t_start > 3 * budget + 5:
                    break
                if backend == 'cvc5':
                    st, info, secs = run_cli('cvc5', text, budget)
                elif backend == 'z3old':
                    st, info, secs = run_cli('z3old', text, budget)
                else:
                    st, info, secs = run_z3_api(text, budget * 1000, want_model=True, fresh_ctx=True)
                record(backend, vi, st, info, secs)
                if st == 'unsat':
                    verdict = 'unsat'
                    break
                if st == 'sat' and sat_seen is None:
                    sat_seen = (info.get('model') if isinstance(info, dict) else None) or {}
            if verdict is not None:
                break
    if verdict is None and sat_seen is not None:
        verdict = 'sat'
        model = sat_seen or None
    if verdict is None:
        sts = set(a['status'] for a in attempts)
        verdict = 'error' if sts == {'error'} else 'unknown'
    if verdict == 'unsat' and job.get('confirm'):
        # must-fail sentinels: an `unsat` only counts when a second solver family agrees
        first = [a['backend'] for a in attempts if a['status'] == 'unsat'][0]
        other = 'cvc5' if first.startswith('z3') else 'z3-5.1'
        confirmed = False
        for vi, text in enumerate(texts):
            if other == 'cvc5':
                st, info, secs = run_cli('cvc5', text, budget)
            else:
                st, info, secs = run_z3_api(text, budget * 1000, fresh_ctx=True)
            record(other + '-confirm', vi, st, info, secs)
            if st == 'unsat':
                confirmed = True
                break
        if not confirmed:
            verdict = 'unconfirmed-unsat'
    winner = None
    for a in attempts:
        if a['status'] == verdict:
            winner = a['backend']
    return {'id': job['id'], 'verdict': verdict, 'ok': verdict == expect,
            'backend': winner, 'attempts': attempts, 'model': model,
            'secs': round(time.time() - t_start, 3)}


def solve_all(jobs, progress=None):
    """Run all jobs on the process pool; returns {id: result}."""
    results = {}
    if not jobs:
        return results
    if os.environ.get('PYVC_SERIAL'):
        for j in jobs:
            results[j['id']] = solve_one(j)
        return results
    ex = pool()
    futs = {ex.submit(solve_one, j): j for j in jobs}
    for f in cf.as_completed(futs):
        j = futs[f]
        try:
            r = f.result()
        except Exception as e:  # worker crashed
            r = {'id': j['id'], 'verdict': 'error', 'ok': False, 'backend': None,
                 'attempts': [{'backend': 'pool', 'status': 'error', 'info': {'error': repr(e)[:300]}}],
                 'model': None, 'secs': 0.0}
        results[j['id']] = r
        if progress:
            progress(r)
    return results


QS_STATS = {}


def quick_sat(text, timeout_ms=300):
    """In-process feasibility check used for path pruning: 'unsat' prunes."""
    st, info, secs = run_z3_api(text, timeout_ms)
    e = QS_STATS.setdefault(st, [0, 0.0])
    e[0] += 1
    e[1] += secs
    return st
