"""
pyvc.executor -- Part 2 of the symbolic executor: calls, statements, loops with
invariants, exception flow, contract application and function verification.
"""
import ast
import importlib
import inspect
import os
import types

from . import smt
from .smt import (T, INT, BOOL, STR, IntV, BoolV, StrV, TRUE, FALSE, And, Or, Not,
                  Implies, Ite, Eq, Ne, Add, Sub, Lt, Le, Gt, Ge, Len, Concat)
from .vals import (Undecided, V, VInt, VBool, VStr, VNone, NONE, VVal, VSeq, VTuple,
                   VRef, VFunc, VPy, VBound, VExc, Raised, HList, HPyList, HDict,
                   HSet, HInst, HObjList, HMap, HRecSeq, HIdxList, HOpaque, parse_type, sort_of, wrap)
from .symexec import Engine, State, VOptSym, UNBOUND, repo_root
from . import contracts as C

# exception classes used when a callee "may raise anything below X"
def exception_lattice():
    from xdoctest import exceptions as xe, checker as xc
    from _pytest.outcomes import Skipped

    class OtherException(Exception):
        pass

    return {
        'BaseException': [KeyboardInterrupt, SystemExit, Skipped],
        'Exception': [AssertionError, xc.GotWantException, xc.ExtractGotReprException, SyntaxError,
                      xe.IncompleteParseError, xe.DoctestParseError, xe.MalformedDocstr,
                      xe.ExistingEventLoopError, xe.ExitTestException, KeyError, IndexError,
                      ValueError, TypeError, RuntimeError, StopIteration, OtherException],
    }


def source_of_module(modname):
    """Path of the module's source in the tree under verification."""
    rel = modname.replace('.', '/')
    base = os.path.join(repo_root(), 'src')
    for cand in (os.path.join(base, rel + '.py'), os.path.join(base, rel, '__init__.py')):
        if os.path.exists(cand):
            return cand
    raise Undecided('no source for module %s' % modname)


_AST_CACHE = {}


def module_ast(modname):
    path = source_of_module(modname)
    key = (path, os.path.getmtime(path))
    if key not in _AST_CACHE:
        with open(path) as f:
            _AST_CACHE[key] = ast.parse(f.read(), path)
    return _AST_CACHE[key]


def find_function(modname, qual):
    """FunctionDef for 'f', 'Class.method' or 'f.inner' in the current source."""
    tree = module_ast(modname)
    body = tree.body
    node = None
    def defs_in(stmts):
        # definitions at this level, including those nested in compound statements (if/try/with/for ...),
        # but not those inside other function or class bodies
        for n in stmts:
            if isinstance(n, (ast.FunctionDef, ast.AsyncFunctionDef, ast.ClassDef)):
                yield n
                continue
            for field in ('body', 'orelse', 'finalbody'):
                sub = getattr(n, field, None)
                if isinstance(sub, list):
                    for m in defs_in(sub):
                        yield m
            for h in getattr(n, 'handlers', []) or []:
                for m in defs_in(h.body):
                    yield m
    for k, part in enumerate(qual.split('.')):
        node = None
        for n in (body if k == 0 else defs_in(body)):
            if isinstance(n, (ast.FunctionDef, ast.AsyncFunctionDef, ast.ClassDef)) and n.name == part:
                node = n     # the last definition of a name wins, as in Python
        if node is None:
            return None
        body = node.body
    return node


def loops_in(fn_node):
    """for/while statements of a function in source order (ordinal = index)."""
    out = []

    def walk(n):
        for ch in ast.iter_child_nodes(n):
            if isinstance(ch, (ast.For, ast.While)):
                out.append(ch)
            walk(ch)
    walk(fn_node)
    out.sort(key=lambda n: (n.lineno, n.col_offset))
    return out


def assigned_names(stmts):
    names = set()

    class Vis(ast.NodeVisitor):
        def visit_Name(self, n):
            if isinstance(n.ctx, (ast.Store, ast.Del)):
                names.add(n.id)

        def visit_FunctionDef(self, n):
            names.add(n.name)

        def visit_Lambda(self, n):
            pass
    for s in stmts:
        Vis().visit(s)
    return names


MUTATORS = {'append', 'extend', 'insert', 'pop', 'remove', 'clear', 'add', 'update', 'sort',
            'reverse', 'discard', 'setdefault', 'popitem', 'appendleft', 'popleft', 'write'}


def mutated_exprs(stmts):
    """Expressions (as source text) whose object is mutated in place by the statements."""
    out = set()

    class Vis(ast.NodeVisitor):
        def visit_Call(self, n):
            if isinstance(n.func, ast.Attribute) and n.func.attr in MUTATORS:
                out.add(ast.unparse(n.func.value))
            self.generic_visit(n)

        def visit_Assign(self, n):
            for t in n.targets:
                self._target(t)
            self.generic_visit(n)

        def visit_AugAssign(self, n):
            self._target(n.target)
            if isinstance(n.target, ast.Name):
                out.add(n.target.id)    # xs += [...] mutates in place for lists
            self.generic_visit(n)

        def visit_Delete(self, n):
            for t in n.targets:
                self._target(t)

        def _target(self, t):
            if isinstance(t, ast.Subscript):
                out.add(ast.unparse(t.value))
            elif isinstance(t, ast.Attribute):
                out.add(ast.unparse(t.value) + '.' + t.attr)
            elif isinstance(t, (ast.Tuple, ast.List)):
                for e in t.elts:
                    self._target(e)
    for s in stmts:
        Vis().visit(s)
    return out


class Exec(Engine):

    # ------------------------------------------------------------- clauses
    def clause_state(self, st, bindings):
        s = st.copy()
        fid = s.new_frame(None)
        s.cur = fid
        for k, v in bindings.items():
            s.frames[fid][k] = v
        return s

    def clause(self, text, st, bindings, old=None):
        """Translate a contract clause (Python expression text) to a Bool term."""
        node = ast.parse(text.strip(), mode='eval').body
        s = self.clause_state(st, bindings)
        saved_old = self.old_state
        if old is not None:
            o = old.copy()
            o.frames = s.frames
            o.parents = s.parents
            o.cur = s.cur
            self.old_state = o
        saved_mod = (self.module, self.modname)
        self.pure += 1
        try:
            v = self.ev1(node, s)
            return self.truthy(v, s)
        finally:
            self.pure -= 1
            self.old_state = saved_old
            self.module, self.modname = saved_mod

    def term(self, text, st, bindings, old=None):
        node = ast.parse(text.strip(), mode='eval').body
        s = self.clause_state(st, bindings)
        saved_old = self.old_state
        if old is not None:
            o = old.copy()
            o.frames, o.parents, o.cur = s.frames, s.parents, s.cur
            self.old_state = o
        self.pure += 1
        try:
            return self.ev1(node, s)
        finally:
            self.pure -= 1
            self.old_state = saved_old

    # --------------------------------------------------------------- calls
    def ev_Call(self, node, st):
        f = node.func
        if isinstance(f, ast.Name):
            if f.id == 'old' and self.pure:
                if self.old_state is None:
                    raise Undecided('old() without an entry state', node)
                os_ = self.old_state
                prim = {}
                for fr in self.__dict__.get('binder_frames', []):
                    prim.update({k: x for k, x in fr.items() if isinstance(x, (VInt, VBool, VStr))})
                if prim:
                    # quantifier-bound index variables are visible inside old(): old(xs[k].f)
                    os_ = os_.copy()
                    fid_ = os_.new_frame(os_.cur)
                    os_.cur = fid_
                    os_.frames[fid_].update(prim)
                v = self.ev1(node.args[0], os_)
                return [(self.snapshot(v, os_), st)]
            if f.id in ('all', 'any') and len(node.args) == 1 and isinstance(node.args[0], (ast.GeneratorExp, ast.ListComp)):
                return self.quantified(f.id, node.args[0], st, node)
            if f.id == 'sum' and len(node.args) == 1 and isinstance(node.args[0], (ast.GeneratorExp, ast.ListComp)) \
                    and st.lookup('sum') is None:
                try:
                    return self.sum_comprehension(node.args[0], st, node)
                except Undecided:
                    pass        # the general route: the comprehension as a sequence, then sum() of a sequence of ints
            if f.id == 'implies' and self.pure:
                a = self.truthy(self.ev1(node.args[0], st), st)
                # vacuity bookkeeping: a guard that is literally false on EVERY path it is evaluated on marks a clause that never
                # says anything (typically a misspelt event count); reported per function at the end of verify_function
                vg = self.__dict__.setdefault('guard_stats', {})
                key_ = (self.cur_fn, ast.unparse(node.args[0])[:160])
                rec_ = vg.setdefault(key_, [0, 0])
                rec_[0 if (a.lit is not None and not a.lit[1]) else 1] += 1
                if a.lit is not None and not a.lit[1]:
                    return [(VBool(TRUE), st)]      # guard is literally false: the consequent may be meaningless
                b = self.truthy(self.ev1(node.args[1], st), st)
                return [(VBool(Implies(a, b)), st)]
            if f.id in ('exists', 'forall', 'exists_str', 'forall_str') and self.pure:
                return self.binder_call(f.id, node, st)
            if f.id == 'before' and self.pure:
                if self.iter_state is None:
                    raise Undecided('before() outside a loop body postcondition', node)
                b = self.iter_state.copy()
                if st.cur in b.frames:
                    b.cur = st.cur          # same function frame: locals have their values at the iteration start
                else:
                    b.frames, b.parents, b.cur = st.frames, st.parents, st.cur
                return [(self.snapshot(self.ev1(node.args[0], b), b), st)]
            if f.id in ('ev_count', 'ev_arg', 'ev_outcome', 'ev_names', 'ev_raised') and self.pure:
                return [(self.event_query(f.id, node, st), st)]
            if f.id == 'flags_of' and self.pure:
                from . import flagdict
                v = self.ev1(node.args[0], st)
                if isinstance(v, flagdict.VFlags):
                    return [(v, st)]
                if isinstance(v, VRef) and isinstance(st.heap.get(v.loc), flagdict.HFlagDict):
                    return [(flagdict.flags_value(st.heap[v.loc]), st)]
                raise Undecided('flags_of(%r)' % (v,), node)
            if f.id == 'indices_of' and self.pure:
                v = self.ev1(node.args[0], st)
                if isinstance(v, VRef) and isinstance(st.heap.get(v.loc), HIdxList):
                    return [(VSeq(st.heap[v.loc].idx, ('int',)), st)]
                if type(v).__name__ == 'VEmptyList' or (isinstance(v, VRef) and isinstance(st.heap.get(v.loc), HPyList)
                                                 and not st.heap[v.loc].items):
                    return [(VSeq(smt.Empty('(Seq Int)'), ('int',)), st)]
                raise Undecided('indices_of(%r: %r)' % (v, st.heap.get(getattr(v, 'loc', None))), node)
            if f.id == 'tb_entries' and self.pure:
                from . import models_run
                tb = self.ev1(node.args[0], st)
                if isinstance(tb, VOptSym):
                    tb = tb.val
                return [(models_run.traceback_entries(self, tb, st), st)]
        out = []
        for fv, s in self.ev(f, st):
            if isinstance(fv, Raised):
                out.append((fv, s))
                continue
            argnodes = []
            star = []
            for a in node.args:
                if isinstance(a, ast.Starred):
                    argnodes.append(a.value)
                    star.append(True)
                else:
                    argnodes.append(a)
                    star.append(False)
            kwnodes = [k.value for k in node.keywords]
            for vals, s2 in self.ev_list(argnodes + kwnodes, s):
                if isinstance(vals, Raised):
                    out.append((vals, s2))
                    continue
                args = []
                for v, is_star in zip(vals[:len(argnodes)], star):
                    if is_star:
                        args.extend(self.unpack(v, None, s2, node))
                    else:
                        args.append(v)
                kwargs = {}
                for k, v in zip(node.keywords, vals[len(argnodes):]):
                    if k.arg is None:
                        if isinstance(v, VRef) and isinstance(s2.heap.get(v.loc), HDict):
                            kwargs.update(s2.heap[v.loc].entries)
                            continue
                        raise Undecided('**kwargs call', node)
                    kwargs[k.arg] = v
                out.extend(self.call_value(fv, args, kwargs, s2, node))
        return out

    iter_state = None

    def snapshot(self, v, st):
        """Value of v in state st as an immutable value (lists/sets by content, instances by identity)."""
        if isinstance(v, VRef):
            o = st.heap.get(v.loc)
            if isinstance(o, HList):
                return VSeq(o.seq, o.elem)
            if isinstance(o, HPyList) and o.items and all(isinstance(i, (VStr, VInt, VBool)) for i in o.items):
                seq, elem = self.seq_of(v, st)
                return VSeq(seq, elem)
            if isinstance(o, HIdxList):
                return VSeq(o.idx, ('int',))
            from . import flagdict
            if isinstance(o, HSet):
                return flagdict.VSetVal(o.arr)
            if isinstance(o, flagdict.HFlagDict):
                return flagdict.flags_value(o)
        return v

    def events_of(self, st):
        """Events logged since the start of the current loop iteration (or function entry)."""
        start = st.ghost.get('__iter_event_start__', 0)
        return st.events[start:]

    def event_query(self, kind, node, st):
        args = [self.ev1(a, st) for a in node.args]
        name = args[0].t.lit[1]
        evs = [e for e in self.events_of(st) if e['name'] == name or e['name'].endswith(':' + name) or e['name'].endswith('.' + name)]
        if not evs:
            # a name nothing can ever log (a misspelt event) would make count clauses vacuous
            builtin_events = {'yield', 'compile', 'exec', 'eval', 'asyncio.run', 'store', 'warnings.warn', 'format_exception_only',
                              'Namespace.clear', 'catch_warnings.__enter__', 'catch_warnings.__exit__', 'print'}
            known = name in builtin_events or any(
                b == name or b.endswith(':' + name) or b.endswith('.' + name) for b in (q.split('#')[0] for q in C.CONTRACTS))
            if not known:
                raise Undecided('event %r is not the name of any function under contract or of a modelled external call' % name, node)
        if kind == 'ev_count':
            return VInt(IntV(len(evs)))
        if kind == 'ev_raised':
            return VInt(IntV(len([e for e in evs if e['outcome'].startswith('raise')])))
        k = args[1].t.lit[1]
        if k >= len(evs) or k < -len(evs):
            raise Undecided('event %s #%d does not exist on this path (guard the clause with ev_count)' % (name, k), node)
        if kind == 'ev_outcome':
            return VStr(StrV(evs[k]['outcome']))
        field = args[2].t.lit[1]
        if field not in evs[k]['args']:
            raise Undecided('event %s has no argument %s' % (name, field), node)
        return evs[k]['args'][field]

    def log_event(self, st, name, args, outcome):
        name = name.split('#')[0]        # a contract variant logs under the function's own name
        st.events.append({'name': name, 'args': {k: self.snapshot(v, st) for k, v in args.items()}, 'outcome': outcome})

    def ev_Dict(self, node, st):
        if node.keys and all(k is None for k in node.keys):
            # {**a, **b}: a NEW dict holding the same value objects as a, overridden by the entries of b
            from . import flagdict
            out = []
            for vals, s in self.ev_list(node.values, st):
                if isinstance(vals, Raised):
                    out.append((vals, s))
                    continue
                if not all(isinstance(v, VRef) and isinstance(s.heap.get(v.loc), flagdict.HFlagDict) for v in vals):
                    raise Undecided('dict unpacking of %r' % (vals,), node)
                ref = flagdict.shallow_copy(self, vals[0], s)
                for other in vals[1:]:
                    flagdict.update(self, ref, s.heap[ref.loc], s.heap[other.loc], s, node)
                out.append((ref, s))
            return out
        keys = []
        for k in node.keys:
            if not (isinstance(k, ast.Constant) and isinstance(k.value, str)):
                raise Undecided('dict literal with non-constant key', node)
            keys.append(k.value)
        out = []
        for vals, s in self.ev_list(node.values, st):
            if isinstance(vals, Raised):
                out.append((vals, s))
            else:
                out.append((s.alloc(HDict(dict(zip(keys, vals)))), s))
        return out

    def sum_comprehension(self, comp, st, node):
        """sum(s['f'] for s in xs) over a record sequence: S.count_true / S.int_sum of the field sequence."""
        from . import reclists, specs_support
        r = reclists.field_seq_of_comprehension(self, comp, st)
        if r is None:
            raise Undecided('sum over a comprehension of unsupported shape: %s' % ast.unparse(comp), node)
        if r[0] == 'empty':
            return [(VInt(IntV(0)), st)]
        seq, p = r
        if p[0] == 'bool':
            return [(specs_support.call_spec_by_name(self, 'count_true', [VSeq(seq, p)], st, node), st)]
        raise Undecided('sum over a field of type %r' % (p,), node)

    pending_defined = []
    skipped_callee_clauses = set()

    def ev_GeneratorExp(self, node, st):
        # a generator expression consumed on the spot (join / list / sum / tuple argument): its items are those of the list
        # comprehension with the same element and generators (element expressions are evaluated in pure mode, no effects)
        lc = ast.copy_location(ast.ListComp(elt=node.elt, generators=node.generators), node)
        return self.ev_ListComp(lc, st)

    def ev_ListComp(self, node, st):
        from . import reclists
        if not self.pure and len(node.generators) == 1 and not node.generators[0].ifs:
            # a concrete iterable: unroll
            rs_it = self.ev(node.generators[0].iter, st)
            if len(rs_it) == 1 and not isinstance(rs_it[0][0], Raised):
                items = self.concrete_items(rs_it[0][0], rs_it[0][1])
                if items is not None and len(items) <= 32:
                    s_c = rs_it[0][1]
                    vals = []
                    for item in items:
                        s_i = s_c.copy()
                        fid = s_i.new_frame(s_i.cur)
                        s_i.cur = fid
                        self.assign_target(node.generators[0].target, item, s_i, node)
                        self.pure += 1
                        try:
                            vals.append(self.ev1(node.elt, s_i))
                        finally:
                            self.pure -= 1
                    return [(s_c.alloc(HPyList(vals)), s_c)]
        if not self.pure:
            # code: [elt for x in <record list>] with a side-effect free elt -> a fresh list holding the
            # axiomatised sequence; definedness of functional callees becomes an obligation for every index
            self.pure += 1
            saved = self.pending_defined
            self.pending_defined = []
            self.last_comp = None
            try:
                r = reclists.comprehension_over_reclist(self, node, st)
                guards = self.pending_defined
            finally:
                self.pure -= 1
                self.pending_defined = saved
            if r is not None:
                var, rl = self.last_comp if self.last_comp else (None, None)
                for g in guards:
                    goal = smt.ForAll([var], Implies(And(Le(IntV(0), var), Lt(var, rl.n)), g))
                    self.oblige('pre', 'comprehension-element-defined', st, goal, node)
                return [(st.alloc(HList(r.t, r.elem)), st)]
            raise Undecided('list comprehension of unsupported shape: %s' % ast.unparse(node), node)
        if self.pure:
            r = reclists.field_seq_of_comprehension(self, node, st)
            if r is not None and r[0] != 'empty':
                return [(VSeq(r[0], r[1]), st)]
            if r is not None:
                return [(st.alloc(HPyList([])), st)]
            r = reclists.comprehension_over_reclist(self, node, st)
            if r is not None:
                return [(r, st)]
        raise Undecided('list comprehension of unsupported shape: %s' % ast.unparse(node), node)

    def reclist_by_base(self, base, st):
        rl = st.ghost.get('__reclists__', {}).get(base)
        if rl is None:
            raise Undecided('unknown record list %r' % (base,))
        return rl

    def unpack(self, v, n, st, node=None):
        if isinstance(v, VTuple):
            items = v.items
        elif isinstance(v, VRef) and isinstance(st.heap[v.loc], HPyList):
            items = st.heap[v.loc].items
        else:
            raise Undecided('cannot unpack %r' % (v,), node)
        if n is not None and len(items) != n:
            raise Undecided('unpack arity mismatch', node)
        return list(items)

    def quantified(self, kind, gen, st, node):
        """all(...)/any(...) over a generator: quantifier (pure) or concrete unrolling."""
        if len(gen.generators) != 1:
            raise Undecided('nested generators', node)
        comp = gen.generators[0]
        it = comp.iter
        # concrete iteration domain -> plain conjunction / disjunction
        dom = None
        if self.pure:
            split = self.snoc_split(kind, gen, comp, st, node)
            if split is None:
                split = self.snoc_split_range(kind, gen, comp, st, node)
            if split is not None:
                return split
            dom = self.symbolic_domain(comp, st)
        if dom is None:
            itv = self.ev1(it, st) if self.pure else None
            if itv is None:
                rs = self.ev(it, st)
                if len(rs) != 1 or isinstance(rs[0][0], Raised):
                    raise Undecided('generator iterable forks', node)
                itv, st = rs[0]
            items = self.concrete_items(itv, st)
            if items is None and not self.pure:
                # code: all/any over a symbolic sequence with a side-effect free element expression (models / spec functions
                # only): the quantified reading, evaluated as a specification would be
                self.pure += 1
                try:
                    return self.quantified(kind, gen, st, node)
                finally:
                    self.pure -= 1
            if items is None:
                raise Undecided('all/any over symbolic iterable needs pure mode: %s' % ast.unparse(it), node)
            ts = []
            for item in items:
                s = st.copy()
                fid = s.new_frame(s.cur)
                s.cur = fid
                self.assign_target(comp.target, item, s, node)
                conds = [self.truthy(self.ev1(c, s), s) for c in comp.ifs]
                self.pure += 1
                try:
                    body = self.truthy(self.ev1(gen.elt, s), s)
                finally:
                    self.pure -= 1
                ts.append(Implies(And(*conds), body) if kind == 'all' else And(And(*conds), body))
            return [(VBool(And(*ts) if kind == 'all' else Or(*ts)), st)]
        var, guard, bind = dom
        s = st.copy()
        fid = s.new_frame(s.cur)
        s.cur = fid
        bind(s)
        self.pat_stack.append((var, []))
        binders = self.__dict__.setdefault('binder_frames', [])
        binders.append(s.frames[fid])
        try:
            conds = [self.truthy(self.ev1(c, s), s) for c in comp.ifs]
            body = self.truthy(self.ev1(gen.elt, s), s)
        finally:
            binders.pop()
            _, cands = self.pat_stack.pop()
        g = And(guard, *conds)
        seen = set()
        pats = []
        for t in cands:
            if t.s not in seen:
                seen.add(t.s)
                pats.append([t])
        if kind == 'all':
            return [(VBool(smt.ForAll([var], Implies(g, body), patterns=pats)), st)]
        return [(VBool(smt.Exists([var], And(g, body), patterns=pats)), st)]

    def snoc_split(self, kind, gen, comp, st, node, depth=0):
        """all/any(P(x) for x in xs) where xs is known to be ys ++ [y] (a list that was appended to):
        (all/any over ys) combined with P(y) -- the instance the solvers' sequence theories do not find by themselves."""
        if not isinstance(comp.target, ast.Name) or comp.ifs:
            return None
        try:
            v = self.ev1(comp.iter, st)
            seq, elem = self.seq_of(v, st)
        except Undecided:
            return None
        snoc = self.ctx.__dict__.get('snoc', {})
        parts = []
        cur = seq
        while cur.s in snoc and len(parts) < 4:
            cur, last = snoc[cur.s]
            parts.append(last)
        if not parts:
            return None
        name = comp.target.id
        ts = []
        # the remaining prefix: an ordinary quantifier over its indices
        var = smt.bound(self.ctx, 'ix', INT)
        s = st.copy()
        fid = s.new_frame(s.cur)
        s.cur = fid
        s.bind(name, wrap(smt.At(cur, var), elem))
        self.pat_stack.append((var, []))
        try:
            body = self.truthy(self.ev1(gen.elt, s), s)
        finally:
            _, cands = self.pat_stack.pop()
        guard = And(Le(IntV(0), var), Lt(var, Len(cur)))
        pats = [[smt.At(cur, var)]]
        ts.append(smt.ForAll([var], Implies(guard, body), patterns=pats) if kind == 'all'
                  else smt.Exists([var], And(guard, body), patterns=pats))
        for last in parts:
            s = st.copy()
            fid = s.new_frame(s.cur)
            s.cur = fid
            s.bind(name, wrap(last, elem))
            ts.append(self.truthy(self.ev1(gen.elt, s), s))
        return [(VBool(And(*ts) if kind == 'all' else Or(*ts)), st)]

    def snoc_split_range(self, kind, gen, comp, st, node):
        """all/any(P(k) for k in range(len(xs))) where the list object xs is known to be ys ++ [y]:
        (the same quantifier with xs replaced by ys) combined with P(len(ys)) on xs itself."""
        it = comp.iter
        if not (isinstance(comp.target, ast.Name) and not comp.ifs and isinstance(it, ast.Call) and isinstance(it.func, ast.Name)
                and it.func.id == 'range' and len(it.args) in (1, 2)):
            return None
        if len(it.args) == 2 and not (isinstance(it.args[0], ast.Constant) and it.args[0].value == 0):
            return None
        hi = it.args[-1]
        if not (isinstance(hi, ast.Call) and isinstance(hi.func, ast.Name) and hi.func.id == 'len' and len(hi.args) == 1):
            return None
        try:
            v = self.ev1(hi.args[0], st)
        except Undecided:
            return None
        if not (isinstance(v, VRef) and isinstance(st.heap.get(v.loc), HList)):
            return None
        o = st.heap[v.loc]
        snoc = self.ctx.__dict__.get('snoc', {})
        if o.seq.s not in snoc:
            return None
        pre, last = snoc[o.seq.s]
        name = comp.target.id
        # prefix: the list object holds ys
        s1 = st.copy()
        s1.heap[v.loc] = HList(pre, o.elem)
        pre_gen = ast.copy_location(ast.GeneratorExp(elt=gen.elt, generators=gen.generators), gen)
        rs = self.quantified(kind, pre_gen, s1, node)
        if len(rs) != 1:
            return None
        t_pre = self.truthy(rs[0][0], s1)
        # the new last index on the list as it is
        s2 = st.copy()
        fid = s2.new_frame(s2.cur)
        s2.cur = fid
        s2.bind(name, VInt(Len(pre)))
        s2.assume(Eq(smt.At(o.seq, Len(pre)), last))
        t_last = self.truthy(self.ev1(gen.elt, s2), s2)
        t_last = Implies(Eq(smt.At(o.seq, Len(pre)), last), t_last)
        return [(VBool(And(t_pre, t_last) if kind == 'all' else Or(t_pre, t_last)), st)]

    def symbolic_domain(self, comp, st):
        """(bound var, guard, binder) for `for x in range(a, b)` / `for x in seq` in pure mode."""
        it = comp.iter
        if isinstance(it, ast.Call) and isinstance(it.func, ast.Name) and it.func.id == 'range':
            args = [self.ev1(a, st) for a in it.args]
            if not all(isinstance(a, VInt) for a in args):
                return None
            if all(a.t.lit is not None for a in args) and len(args) <= 2:
                lo = args[0].t.lit[1] if len(args) == 2 else 0
                hi = args[-1].t.lit[1]
                if hi - lo <= 16:
                    return None     # small concrete range: unroll
            lo = args[0].t if len(args) >= 2 else IntV(0)
            hi = args[1].t if len(args) >= 2 else args[0].t
            if len(args) == 3:
                return None
            if not isinstance(comp.target, ast.Name):
                return None
            var = smt.bound(self.ctx, comp.target.id, INT)
            guard = And(Le(lo, var), Lt(var, hi))
            name = comp.target.id
            return var, guard, (lambda s: s.bind(name, VInt(var)))
        # iteration over a symbolic sequence: quantify over the index
        try:
            v = self.ev1(it, st)
        except Undecided:
            return None
        if isinstance(comp.target, ast.Name):
            from . import reclists
            name = comp.target.id
            o = st.heap.get(v.loc) if isinstance(v, VRef) else None
            if isinstance(o, HRecSeq):
                var = smt.bound(self.ctx, 'ix', INT)
                return (var, And(Le(IntV(0), var), Lt(var, o.n)),
                        (lambda s, v=v, o=o: s.bind(name, reclists.element_view(self, v, o, var, s))))
            if isinstance(o, HIdxList):
                var = smt.bound(self.ctx, 'ix', INT)
                return (var, And(Le(IntV(0), var), Lt(var, Len(o.idx))),
                        (lambda s, o=o: s.bind(name, reclists.idx_element(self, o, var, s))))
            if isinstance(v, VRecList):
                var = smt.bound(self.ctx, 'ix', INT)
                return (var, And(Le(IntV(0), var), Lt(var, v.n)),
                        (lambda s, v=v: s.bind(name, self.rec_element(v, var, s))))
        try:
            seq, elem = self.seq_of(v, st)
        except Undecided:
            return None
        if seq.lit is not None:
            return None
        if isinstance(v, VRef) and isinstance(st.heap[v.loc], HPyList):
            return None
        if not isinstance(comp.target, ast.Name):
            return None
        var = smt.bound(self.ctx, 'ix', INT)
        guard = And(Le(IntV(0), var), Lt(var, Len(seq)))
        name = comp.target.id
        return var, guard, (lambda s: s.bind(name, wrap(smt.At(seq, var), elem)))

    def binder_call(self, kind, node, st):
        """exists/forall(lambda x, y: body) with Int-sorted binders (spec level)."""
        lam = node.args[0]
        if not isinstance(lam, ast.Lambda):
            raise Undecided('%s needs a lambda' % kind, node)
        s = st.copy()
        fid = s.new_frame(s.cur)
        s.cur = fid
        vs = []
        strs = kind.endswith('_str')
        for a in lam.args.args:
            var = smt.bound(self.ctx, a.arg, STR if strs else INT)
            vs.append(var)
            s.bind(a.arg, VStr(var) if strs else VInt(var))
        body = self.truthy(self.ev1(lam.body, s), s)
        q = smt.ForAll(vs, body) if kind.startswith('forall') else smt.Exists(vs, body)
        return [(VBool(q), st)]

    def concrete_items(self, v, st):
        if isinstance(v, VTuple):
            return list(v.items)
        if isinstance(v, VRef):
            o = st.heap[v.loc]
            if isinstance(o, HPyList):
                return list(o.items)
            if isinstance(o, HDict):
                return [StrV_(k) for k in o.entries]
            if isinstance(o, HList) and o.seq.lit is not None and len(o.seq.lit[1]) == 0:
                return []
            if isinstance(o, HRecSeq) and o.n.lit is not None and o.n.lit[1] <= 8:
                from . import reclists
                return [reclists.element_view(self, v, o, IntV(j), st) for j in range(o.n.lit[1])]
        if isinstance(v, VPy) and isinstance(v.obj, (list, tuple, range, set, frozenset, dict)):
            return [self.lift(x, st) for x in v.obj]
        if isinstance(v, VSeq) and v.t.lit is not None and len(v.t.lit[1]) == 0:
            return []
        if isinstance(v, VIter):
            return v.items
        return None

    def call_value(self, fv, args, kwargs, st, node=None):
        if isinstance(fv, VBound):
            return self.call_method(fv.recv, fv.name, args, kwargs, st, node)
        if isinstance(fv, VFunc):
            return self.inline_call(fv, args, kwargs, st, node)
        if isinstance(fv, VPy):
            obj = fv.obj
            try:
                model = self.models.get(obj)
            except TypeError:
                model = None
            if model is not None:
                return model(self, args, kwargs, st, node)
            if isinstance(obj, type) and issubclass(obj, BaseException):
                attrs = {'args': VTuple(args)}
                if obj.__module__.startswith('xdoctest'):
                    # constructor parameters become attributes (GotWantException(msg, got, want) ...)
                    try:
                        sig = inspect.signature(obj.__init__)
                        names = [p for p in sig.parameters][1:]
                        for n, a in zip(names, args):
                            attrs[n] = a
                    except (TypeError, ValueError):
                        pass
                return [(VExc(obj, attrs), st)]
            import re as _re_mod
            if isinstance(getattr(obj, '__self__', None), _re_mod.Pattern) and hasattr(_re_mod, getattr(obj, '__name__', '')):
                # compiled_pattern.sub(...) etc.: the module-level function with the pattern as first argument
                fn_mod = getattr(_re_mod, obj.__name__)
                if fn_mod in self.models:
                    return self.models[fn_mod](self, [VPy(obj.__self__)] + args, kwargs, st, node)
            # pure builtin on fully concrete arguments: evaluate natively
            cargs = [self.concrete(a, st) for a in args]
            ckw = {k: self.concrete(a, st) for k, a in kwargs.items()}
            from .symexec import _pure_natives
            natives = _pure_natives()
            try:
                is_native = obj in natives
            except TypeError:
                is_native = False
            if is_native and all(ok for ok, _ in cargs) and all(ok for ok, _ in ckw.values()):
                try:
                    r = obj(*[x for _, x in cargs], **{k: x for k, (_, x) in ckw.items()})
                except Exception as ex:
                    return [(Raised(VExc(type(ex))), st)]
                return [(self.lift(r, st), st)]
            if isinstance(obj, types.MethodType) and isinstance(obj.__self__, type) \
                    and getattr(obj, '__module__', '').startswith('xdoctest'):
                # a classmethod reached through its class: the class is the first argument
                return self.call_repo_function(obj.__func__, [VPy(obj.__self__)] + args, kwargs, st, node)
            if isinstance(obj, (types.FunctionType, types.MethodType)) and getattr(obj, '__module__', '').startswith('xdoctest'):
                return self.call_repo_function(obj, args, kwargs, st, node)
            if isinstance(obj, type) and issubclass(obj, tuple) and hasattr(obj, '_fields') and obj.__name__ in C.RECORDS:
                # namedtuple with a record declaration: an immutable record
                vals = dict(zip(obj._fields, args))
                vals.update(kwargs)
                fields = {}
                for f, fty in C.RECORDS[obj.__name__].items():
                    pt = parse_type(fty)
                    v = vals[f]
                    if pt[0] == 'val' and not isinstance(v, VVal):
                        self.ctx.sort('Val')
                        if isinstance(v, VBool):
                            v = VVal(self.model_app('val_of_bool', [v.t], 'Val'))
                        elif isinstance(v, VStr):
                            v = VVal(self.model_app('val_of_str', [v.t], 'Val'))
                        elif isinstance(v, VNone):
                            v = VVal(self.val_const(None))
                    fields[f] = v
                return [(st.alloc(HInst(obj.__name__, fields)), st)]
            if isinstance(obj, type) and obj.__module__.startswith('xdoctest'):
                return self.construct(obj, args, kwargs, st, node)
            if isinstance(obj, types.FunctionType) and getattr(obj, '__module__', '').startswith('specs'):
                return self.call_spec(obj, args, kwargs, st, node)
            name = getattr(obj, '__qualname__', None) or getattr(obj, '__name__', repr(obj))
            raise Undecided('call to unmodelled %s.%s' % (getattr(obj, '__module__', '?'), name), node)
        raise Undecided('call of %r' % (fv,), node)

    def call_method(self, recv, name, args, kwargs, st, node):
        if isinstance(recv, VExc) and recv.cls.__module__.startswith('xdoctest'):
            # a method of one of the library's own exception classes: through its contract
            for k in recv.cls.__mro__:
                if name in vars(k) and isinstance(vars(k)[name], types.FunctionType):
                    return self.call_repo_function(vars(k)[name], [recv] + args, kwargs, st, node,
                                                   qual='%s:%s.%s' % (k.__module__, k.__qualname__, name))
        if isinstance(recv, VStr):
            return self.call_model('str.' + name, [recv] + args, kwargs, st, node)
        if isinstance(recv, VRef):
            o = st.heap[recv.loc]
            if isinstance(o, (HList, HPyList, HObjList, HRecSeq, HIdxList)):
                return self.call_model('list.' + name, [recv] + args, kwargs, st, node)
            from . import flagdict as _fd
            if isinstance(o, (HDict, HMap, _fd.HFlagDict)):
                return self.call_model('dict.' + name, [recv] + args, kwargs, st, node)
            if isinstance(o, HSet):
                return self.call_model('set.' + name, [recv] + args, kwargs, st, node)
            if isinstance(o, HInst):
                return self.call_method_on_instance(recv, o, name, args, kwargs, st, node)
        if isinstance(recv, VSeq):
            return self.call_model('list.' + name, [recv] + args, kwargs, st, node)
        if isinstance(recv, VTuple):
            return self.call_model('tuple.' + name, [recv] + args, kwargs, st, node)
        from . import flagdict
        if isinstance(recv, flagdict.VFlags):
            if name == 'set' and len(args) == 2 and isinstance(args[0], VStr):
                return [(flagdict.VFlags(flagdict.store(recv.present, args[0].t, TRUE),
                                         flagdict.store(recv.bval, args[0].t, self.truthy(args[1], st))), st)]
            if name == 'has' and len(args) == 1:
                return [(VBool(flagdict.sel(recv.present, args[0].t)), st)]
            raise Undecided('method %s of a flags value' % name, node)
        if isinstance(recv, flagdict.VSetVal):
            if name == 'with_' and len(args) == 1:
                return [(flagdict.VSetVal(flagdict.store(recv.arr, args[0].t, TRUE)), st)]
            if name == 'without' and len(args) == 1:
                return [(flagdict.VSetVal(flagdict.store(recv.arr, args[0].t, FALSE)), st)]
            raise Undecided('method %s of a set value' % name, node)
        if isinstance(recv, VVal):
            self.trusted_used.add('opaque-object-method: a method call on an opaque value (config.get ...) returns an '
                                  'unconstrained value, raises nothing and has no effect on the verified state')
            return [(VVal(self.ctx.fresh('opq_' + name, sort_of(('val',)))), st)]
        raise Undecided('method %s on %r' % (name, recv), node)

    def call_model(self, key, args, kwargs, st, node):
        m = self.method_models.get(key)
        if m is None:
            raise Undecided('no model for %s' % key, node)
        return m(self, args, kwargs, st, node)

    def call_method_on_instance(self, ref, o, name, args, kwargs, st, node):
        if o.cls in C.DICT_RECORDS and name == 'get' and args and isinstance(args[0], VStr) and args[0].t.lit is not None:
            k = args[0].t.lit[1]
            if k in o.fields:
                return [(o.fields[k], st)]
            return [(args[1] if len(args) > 1 else NONE, st)]
        if o.cls in C.DICT_RECORDS and name == 'update':
            # entries are copied in: every tracked key may change (over-approximation)
            self.havoc_object(ref, st, 'upd', node)
            return [(NONE, st)]
        im = self.method_models.get('%s.%s' % (o.cls, name))
        if im is not None:
            return im(self, [ref] + args, kwargs, st, node)
        cls = self.real_class(o.cls)
        if cls is None:
            raise Undecided('unknown class %s' % o.cls, node)
        fn = None
        for k in cls.__mro__:
            if name in vars(k):
                fn = vars(k)[name]
                owner = k
                break
        if fn is None:
            return self._safe_result(FALSE, NONE, AttributeError, st, node)
        if isinstance(fn, staticmethod):
            return self.call_repo_function(fn.__func__, args, kwargs, st, node,
                                           qual='%s:%s.%s' % (owner.__module__, owner.__qualname__, name))
        if isinstance(fn, classmethod):
            return self.call_repo_function(fn.__func__, [VPy(cls)] + args, kwargs, st, node,
                                           qual='%s:%s.%s' % (owner.__module__, owner.__qualname__, name))
        return self.call_repo_function(fn, [ref] + args, kwargs, st, node,
                                       qual='%s:%s.%s' % (owner.__module__, owner.__qualname__, name))

    def construct(self, cls, args, kwargs, st, node):
        ref = st.alloc(HInst(cls.__name__, {}))
        init = None
        for k in cls.__mro__:
            if '__init__' in vars(k):
                init = vars(k)['__init__']
                owner = k
                break
        if init is None or owner is object:
            return [(ref, st)]
        out = []
        for r, s in self.call_repo_function(init, [ref] + args, kwargs, st, node,
                                            qual='%s:%s.__init__' % (owner.__module__, owner.__qualname__)):
            out.append((r if isinstance(r, Raised) else ref, s))
        return out

    def call_repo_function(self, fn, args, kwargs, st, node, qual=None):
        if qual is None:
            qual = '%s:%s' % (fn.__module__, fn.__qualname__)
        # a contract may select which view (contract variant 'f#name') of a callee it reasons with
        use = self.cur_contract.opts.get('use', {}) if self.cur_contract else {}
        c = C.CONTRACTS.get(use.get(qual, qual))
        if c is not None:
            return self.apply_contract(c, fn, args, kwargs, st, node)
        inline = set(self.cur_contract.opts.get('inline', ())) if self.cur_contract else set()
        if qual in inline or qual.split(':')[1] in inline or qual in ALWAYS_INLINE:
            modname, fq = qual.split(':')
            fnode = find_function(modname, fq)
            if fnode is None:
                raise Undecided('cannot find source of %s' % qual, node)
            vf = VFunc(fnode, None, self.defaults_of(fn), fq, modname)
            return self.inline_call(vf, args, kwargs, st, node)
        raise Undecided('call to repo function without contract: %s' % qual, node)

    def defaults_of(self, fn):
        try:
            sig = inspect.signature(fn)
        except (TypeError, ValueError):
            return {}
        return {n: p.default for n, p in sig.parameters.items() if p.default is not inspect.Parameter.empty}

    def bind_params(self, argspec, defaults, args, kwargs, st, node, lift_defaults=True):
        """Map call arguments to parameter names (positional, keyword, defaults)."""
        names = [a.arg for a in argspec.posonlyargs + argspec.args]
        bound = {}
        if len(args) > len(names):
            if argspec.vararg is None:
                raise Undecided('too many positional arguments', node)
            bound[argspec.vararg.arg] = VTuple(args[len(names):])
            args = args[:len(names)]
        elif argspec.vararg is not None:
            bound[argspec.vararg.arg] = VTuple([])
        for n, a in zip(names, args):
            bound[n] = a
        for k, v in kwargs.items():
            if k in bound:
                raise Undecided('duplicate argument %s' % k, node)
            bound[k] = v
        if argspec.kwarg is not None:
            extra = {k: v for k, v in kwargs.items() if k not in names and k not in [a.arg for a in argspec.kwonlyargs]}
            for k in extra:
                del bound[k]
            bound[argspec.kwarg.arg] = st.alloc(HDict(extra))
        for a in names + [a.arg for a in argspec.kwonlyargs]:
            if a not in bound:
                if a in defaults:
                    d = defaults[a]
                    bound[a] = d if isinstance(d, V) else self.lift(d, st)
                else:
                    raise Undecided('missing argument %s' % a, node)
        return bound

    def inline_call(self, vf, args, kwargs, st, node):
        fnode = vf.node
        if self.cur_contract is not None and not isinstance(fnode, ast.Lambda) and vf.frame is not None:
            cf = self.cur_contract.func.split('#')[0]
            nq = '%s:%s.%s' % (vf.modname, cf, vf.name)
            nc = C.CONTRACTS.get(nq)
            if nc is None and '.' in cf:
                # a sibling nested function of the nested function under verification
                nq = '%s:%s.%s' % (vf.modname, cf.rsplit('.', 1)[0], vf.name)
                nc = C.CONTRACTS.get(nq)
            if nc is not None:
                nq2 = self.cur_contract.opts.get('use', {}).get(nq)
                if nq2 is not None:
                    nq, nc = nq2, C.CONTRACTS[nq2]
            if nc is not None and nc is not self.cur_contract:
                # a nested function under its own contract: closure variables are passed as extra named arguments
                kw2 = dict(kwargs)
                for cname in nc.opts.get('closure', {}):
                    cv = st.lookup(cname)
                    if cv is None:
                        raise Undecided('closure variable %s of %s is not bound' % (cname, nq), node)
                    kw2['__closure__' + cname] = cv
                return self.apply_contract(nc, None, args, kw2, st, node)
        if st.depth > 12:
            raise Undecided('inlining too deep', node)
        defaults = vf.defaults if isinstance(vf.defaults, dict) else {}
        bound = self.bind_params(fnode.args, defaults, args, kwargs, st, node)
        saved_cur = st.cur
        fid = st.new_frame(vf.frame)
        st.cur = fid
        st.depth += 1
        for k, v in bound.items():
            st.frames[fid][k] = v
        saved_mod = (self.module, self.modname)
        if vf.modname and vf.modname != self.modname:
            self.modname = vf.modname
            self.module = importlib.import_module(vf.modname)
        saved_try = self.in_try
        out = []
        try:
            if isinstance(fnode, ast.Lambda):
                for r, s in self.ev(fnode.body, st):
                    out.append((r, s))
            else:
                for kind, payload, s in self.run_block(fnode.body, st):
                    if kind == 'normal':
                        out.append((NONE, s))
                    elif kind == 'return':
                        out.append((payload, s))
                    elif kind == 'raise':
                        out.append((Raised(payload), s))
                    else:
                        raise Undecided('break/continue escaped function', node)
        finally:
            self.module, self.modname = saved_mod
            self.in_try = saved_try
        for r, s in out:
            s.cur = saved_cur
            s.depth -= 1
        return out

    def call_spec(self, fn, args, kwargs, st, node):
        """Call of a spec function S.f: inline (non-recursive) or uninterpreted + unfolding."""
        from . import specs_support
        return specs_support.call_spec(self, fn, args, kwargs, st, node)

    # ---------------------------------------------------- contract application
    def apply_contract(self, c, fn, args, kwargs, st, node):
        if c.opts.get('signature'):
            # a function outside the tree (stdlib base class method): parameters are bound positionally by the stated signature
            fnode = ast.parse('def f(%s): pass' % ', '.join(c.opts['signature'])).body[0]
        else:
            try:
                fnode = find_function(c.module, c.func)
            except Undecided:
                fnode = None
        if fnode is None:
            raise Undecided('contract %s: function not found in source' % c.qualname, node)
        closure_vals = {k[len('__closure__'):]: v for k, v in kwargs.items() if k.startswith('__closure__')}
        kwargs = {k: v for k, v in kwargs.items() if not k.startswith('__closure__')}
        if fn is None and c.opts.get('closure') is not None:
            # nested function: defaults from the def node
            dflt = {}
            pos = fnode.args.posonlyargs + fnode.args.args
            for a, d in zip(pos[len(pos) - len(fnode.args.defaults):], fnode.args.defaults):
                dflt[a.arg] = self.ev1(d, st)
            bound = self.bind_params(fnode.args, dflt, args, kwargs, st, node)
        else:
            bound = self.bind_params(fnode.args, self.defaults_of(fn) if fn is not None else {}, args, kwargs, st, node)
        bound.update(closure_vals)
        if c.trusted:
            self.trusted_used.add('contract:' + c.qualname)
        if self.pure or c.opts.get('substitute'):
            # under a binder / inside a clause only *functional* contracts can be used: the call denotes
            # the expression the contract gives (its definedness condition is collected for the caller)
            if 'functional' not in c.opts:
                raise Undecided('call of %s in a pure context needs a functional contract' % c.qualname, node)
            saved = (self.module, self.modname)
            try:
                self.modname = c.module
                self.module = importlib.import_module(c.module)
                if c.opts.get('defined_when'):
                    self.pending_defined.append(self.clause(c.opts['defined_when'], st, bound))
                return [(self.term(c.opts['functional'], st, bound), st)]
            finally:
                self.module, self.modname = saved
        pre_state = st.copy()
        saved = (self.module, self.modname)
        try:
            self.modname = c.module
            self.module = importlib.import_module(c.module)
            # preconditions are obligations of the caller
            for name, text in c.requires:
                g = self.clause(text, st, bound)
                self.oblige('pre', '%s.%s' % (c.func, name), st, g, node)
                st.assume(g)
            # frame: havoc what the callee may modify
            self.havoc_modifies(c, bound, st, node)
            # process-global cells that end up holding an existing object: one continuation per alternative
            if c.opts.get('global_alias'):
                outs = []
                for gname, alts in c.opts['global_alias'].items():
                    key = tuple(gname.rsplit('.', 1))
                    for cond_text, expr in alts:
                        s_k = st.copy()
                        cond = self.clause(cond_text, s_k, bound, old=pre_state)
                        if not self.feasible(s_k, cond):
                            continue
                        s_k.assume(cond)
                        saved_old = self.old_state
                        s_k.globals[key] = self.term(expr, s_k, bound, old=pre_state)
                        outs.extend(self._finish_contract(c, bound, s_k, pre_state, node))
                return outs
            return self._finish_contract(c, bound, st, pre_state, node)
        finally:
            self.module, self.modname = saved

    def _finish_contract(self, c, bound, st, pre_state, node):
        if True:
            out = []
            # exceptional outcomes (a class is governed by the FIRST entry that covers it, as in check_raise)
            normal_guard = []
            earlier_bases = []
            for clsname, when in c.raises.items():
                maybe = clsname.endswith('?')
                clsname = clsname.rstrip('?')
                star = clsname.endswith('*')
                base = clsname.rstrip('*')
                if base == 'LIVE':
                    classes = [None]
                else:
                    cls = self.exc_class(base)
                    if cls is None:
                        raise Undecided('unknown exception class %s in contract %s' % (base, c.qualname))
                    classes = [cls] + (self.subclasses_of(cls) if star else [])
                per_class = when is not None and 'exc' in __import__('re').findall(r'[A-Za-z_]+', when)
                cond = TRUE if (when is None or per_class) else self.clause(when, st, bound, old=pre_state)
                if when is not None and not maybe:
                    if per_class:
                        raise Undecided('a definite raise clause cannot mention exc (%s)' % c.qualname, node)
                    normal_guard.append(Not(cond))
                classes = [k for k in classes if k is None or not any(issubclass(k, b0) for b0 in earlier_bases)]
                if base != 'LIVE':
                    earlier_bases.append(self.exc_class(base))
                for cls in classes:
                    s = st.copy()
                    exc = (s.handling[-1] if s.handling else s.live_exc) if cls is None else VExc(cls, {}, tag='callee:' + c.func)
                    if exc is None:
                        exc = VExc(Exception, {}, tag='live')
                    if per_class:
                        b3 = dict(bound)
                        b3['exc'] = exc
                        cond = self.clause(when, s, b3, old=pre_state)
                    if not self.feasible(s, cond):
                        continue
                    s.assume(cond)
                    if c.log:
                        self.log_event(s, c.qualname, bound, 'raise:' + ('LIVE' if cls is None else cls.__name__))
                    out.append((Raised(exc), s))
            # normal outcome
            for g in normal_guard:
                st.assume(g)
            if normal_guard and not self.feasible(st):
                return out
            rty = parse_type(c.returns)
            result = NONE if rty[0] == 'none' else self.fresh_result(rty, c.func, st)
            # results that ARE an existing object (aliases) cannot be fresh values
            for idx, expr in c.opts.get('result_alias', {}).items():
                av = self.term(expr, st, bound)
                if idx is None:
                    result = av
                elif isinstance(idx, str):
                    # a field of the fresh result object IS an existing object
                    o_r = st.heap[result.loc]
                    f_r = dict(o_r.fields)
                    f_r[idx] = av
                    st.heap[result.loc] = HInst(o_r.cls, f_r, o_r.view)
                else:
                    items = list(result.items)
                    items[idx] = av
                    result = VTuple(items)
            b2 = dict(bound)
            b2['result'] = result
            for name, text in c.ensures:
                try:
                    st.assume(self.clause(text, st, b2, old=pre_state))
                except Undecided as ex:
                    # a clause about state this caller does not track is simply not used (assuming less is sound)
                    self.skipped_callee_clauses.add('%s:%s (%s)' % (c.qualname, name, str(ex)[:80]))
            if not self.feasible(st):
                # never let an inconsistent callee contract silently remove the continuation
                raise Undecided('the ensures of %s contradict the caller state (aliasing result? use result_alias)' % c.qualname, node)
            if c.log:
                self.log_event(st, c.qualname, b2, 'normal')
            out.append((result, st))
            return out

    def fresh_result(self, rty, base, st):
        if rty[0] == 'opt':
            return VOptSym(self.ctx.fresh(base + '_isnone', BOOL), self.fresh(rty[1], base + '_res', st))
        return self.fresh(rty, base + '_res', st)

    def subclasses_of(self, cls):
        """Representative subclasses of cls: one per distinguishable behaviour w.r.t. the exception
        classes the function under verification mentions (except clauses, isinstance, contract raises)."""
        lat = exception_lattice()
        out = []
        for base, subs in lat.items():
            for s in subs:
                if issubclass(s, cls) and s is not cls and s not in out:
                    out.append(s)
        mentioned = self.mentioned_exceptions()
        if mentioned is None:
            return out
        seen = {tuple(issubclass(cls, m) for m in mentioned)}
        reps = []
        for s in out:
            sig = tuple(issubclass(s, m) for m in mentioned)
            if sig not in seen:
                seen.add(sig)
                reps.append(s)
        return reps

    def mentioned_exceptions(self):
        c = self.cur_contract
        if c is None:
            return None
        cache = self.__dict__.setdefault('_mentioned', {})
        if c.qualname in cache:
            return cache[c.qualname]
        fnode = find_function(c.module, c.func)
        names = set()
        for n in ast.walk(fnode):
            if isinstance(n, ast.ExceptHandler) and n.type is not None:
                for m in ast.walk(n.type):
                    if isinstance(m, ast.Name):
                        names.add(m.id)
                    elif isinstance(m, ast.Attribute):
                        names.add(m.attr)
            if isinstance(n, ast.Call) and isinstance(n.func, ast.Name) and n.func.id == 'isinstance' and len(n.args) == 2:
                for m in ast.walk(n.args[1]):
                    if isinstance(m, ast.Name):
                        names.add(m.id)
                    elif isinstance(m, ast.Attribute):
                        names.add(m.attr)
        for k in c.raises:
            names.add(k.rstrip('*?'))
        import re as _re
        for _, text in c.requires + c.ensures + c.reach:
            names.update(_re.findall(r'[A-Za-z_][A-Za-z_0-9]*', text))
        for when in c.raises.values():
            if when:
                names.update(_re.findall(r'[A-Za-z_][A-Za-z_0-9]*', when))
        classes = []
        for nm in sorted(names):
            k = self.exc_class(nm)
            if isinstance(k, type) and issubclass(k, BaseException) and k not in classes:
                classes.append(k)
        cache[c.qualname] = classes
        return classes

    def havoc_modifies(self, c, bound, st, node):
        for expr in (c.modifies or ()):
            if expr in c.globals:
                modname, attr = expr.rsplit('.', 1)
                st.globals[(modname, attr)] = self.fresh_result(parse_type(c.globals[expr]), 'hv_' + attr, st)
                continue
            self.havoc_expr(expr, bound, st, node)

    def havoc_expr(self, expr, bound, st, node, base='hv'):
        """Havoc the object / field denoted by an access path such as 'self.text' or 'xs'."""
        if expr.startswith('obj(') and expr.endswith(')'):
            # the object the path denotes is mutated in place (the path itself is not re-assigned)
            s0 = self.clause_state(st, bound)
            self.pure += 1
            try:
                v = self.ev1(ast.parse(expr[4:-1], mode='eval').body, s0)
            finally:
                self.pure -= 1
            self.havoc_object(v, st, base, node)
            return
        if expr.startswith('flags(') and expr.endswith(')'):
            # only the flag entries of a state dict change: the REQUIRES set object and its members stay
            from . import flagdict
            s0 = self.clause_state(st, bound)
            self.pure += 1
            try:
                v = self.ev1(ast.parse(expr[6:-1], mode='eval').body, s0)
            finally:
                self.pure -= 1
            o = st.heap[v.loc]
            P = self.ctx.fresh(base + '_has', flagdict.ARR)
            st.assume(Eq(flagdict.sel(P, flagdict.REQ), flagdict.sel(o.present, flagdict.REQ)))
            st.heap[v.loc] = flagdict.HFlagDict(P, self.ctx.fresh(base + '_flag', flagdict.ARR), o.req)
            return
        n = ast.parse(expr, mode='eval').body
        s = self.clause_state(st, bound)
        self.pure += 1
        try:
            if isinstance(n, ast.Attribute):
                owner = self.ev1(n.value, s)
                if isinstance(owner, VRef) and isinstance(st.heap[owner.loc], HInst):
                    o = st.heap[owner.loc]
                    cur = o.fields.get(n.attr)
                    fields = dict(o.fields)
                    fty = C.RECORDS.get(o.cls, {}).get(n.attr)
                    ov = (self.cur_contract.opts.get('entry_types', {}) if self.cur_contract else {}).get('%s.%s' % (o.cls, n.attr))
                    if ov is not None:
                        fty = ov
                    if fty is not None:
                        p = parse_type(fty)
                        fields[n.attr] = self.fresh_result(p, '%s_%s' % (base, n.attr), st)
                    elif cur is not None:
                        fields[n.attr] = self.fresh_like(cur, '%s_%s' % (base, n.attr), st)
                    else:
                        raise Undecided('cannot havoc undeclared field %s' % expr, node)
                    st.heap[owner.loc] = HInst(o.cls, fields, o.view)
                    return
            v = self.ev1(n, s)
        finally:
            self.pure -= 1
        self.havoc_object(v, st, base, node)

    def havoc_object(self, v, st, base, node=None):
        if isinstance(v, VRef):
            o = st.heap[v.loc]
            if isinstance(o, HList):
                st.heap[v.loc] = HList(self.ctx.fresh(base, o.seq.sort), o.elem)
                return
            if isinstance(o, HSet):
                st.heap[v.loc] = HSet(self.ctx.fresh(base, o.arr.sort))
                return
            if isinstance(o, HDict):
                st.heap[v.loc] = HDict({k: self.fresh_like(x, '%s_%s' % (base, k), st) for k, x in o.entries.items()})
                return
            if isinstance(o, HInst):
                fields = {k: self.fresh_like(x, '%s_%s' % (base, k), st) for k, x in o.fields.items()}
                for f, fty in C.RECORDS.get(o.cls, {}).items():
                    # an object under construction: its declared fields come into being (primitive ones; the others stay absent,
                    # and reading an absent field is undecided, never a silent default)
                    p = parse_type(fty)
                    if f not in fields and p[0] in ('int', 'bool', 'str'):
                        fields[f] = self.fresh_result(p, '%s_%s' % (base, f), st)
                st.heap[v.loc] = HInst(o.cls, fields, o.view)
                return
            if isinstance(o, HOpaque):
                return
            from . import flagdict
            if isinstance(o, flagdict.HFlagDict):
                self.havoc_object(o.req, st, base + '_req', node)
                st.heap[v.loc] = flagdict.HFlagDict(self.ctx.fresh(base + '_has', flagdict.ARR),
                                                    self.ctx.fresh(base + '_flag', flagdict.ARR), o.req)
                return
        raise Undecided('cannot havoc %r' % (v,), node)

    def fresh_like(self, v, base, st):
        """A fresh unconstrained value of the same shape as v."""
        if isinstance(v, (VInt, VBool, VStr, VVal)):
            return type(v)(self.ctx.fresh(base, v.t.sort))
        if isinstance(v, VNone):
            return v
        if isinstance(v, VTuple):
            return VTuple([self.fresh_like(i, '%s_%d' % (base, k), st) for k, i in enumerate(v.items)])
        if isinstance(v, VOptSym):
            return VOptSym(self.ctx.fresh(base + '_isnone', BOOL), self.fresh_like(v.val, base, st))
        if isinstance(v, VSeq):
            return VSeq(self.ctx.fresh(base, v.t.sort), v.elem)
        if isinstance(v, VRef):
            o = st.heap[v.loc]
            if isinstance(o, HList):
                return st.alloc(HList(self.ctx.fresh(base, o.seq.sort), o.elem))
            if isinstance(o, HSet):
                return st.alloc(HSet(self.ctx.fresh(base, o.arr.sort)))
            if isinstance(o, HInst):
                return st.alloc(HInst(o.cls, {k: self.fresh_like(x, '%s_%s' % (base, k), st) for k, x in o.fields.items()}))
            if isinstance(o, HDict):
                return st.alloc(HDict({k: self.fresh_like(x, '%s_%s' % (base, k), st) for k, x in o.entries.items()}))
        if isinstance(v, (VPy, VFunc, VExc, VUntracked)):
            return v
        raise Undecided('cannot havoc value %r' % (v,))

    # ---------------------------------------------------------- statements
    def run_block(self, stmts, st):
        states = [st]
        results = []
        for stmt in stmts:
            nxt = []
            for s in states:
                for kind, payload, s2 in self.exec_stmt(stmt, s):
                    if kind == 'normal':
                        self.compact(s2)
                        nxt.append(s2)
                    else:
                        results.append((kind, payload, s2))
            states = nxt
            if len(states) + len(results) > self.max_paths:
                raise Undecided('path explosion (> %d paths)' % self.max_paths, stmt)
            if not states:
                break
        results.extend(('normal', None, s) for s in states)
        return results

    def exec_stmt(self, node, st):
        if os.environ.get('PYVC_TRACE_LINE') and str(getattr(node, 'lineno', '')) in os.environ['PYVC_TRACE_LINE'].split(','):
            print('TRACE line', node.lineno, type(node).__name__, 'handling', st.handling[-1:] if st.handling else None)
        m = getattr(self, 'exec_' + type(node).__name__, None)
        if m is None:
            raise Undecided('unsupported statement %s' % type(node).__name__, node)
        out = m(node, st)
        aa = self.cur_contract.opts.get('assume_after') if (self.cur_contract is not None and st.depth == 0) else None
        if aa:
            # assumed facts about the result of an EXTERNAL call, stated in the contract at the statement that makes the call
            # (reported with the trusted base: they are assumptions, not proof)
            src = ast.unparse(node)
            for prefix, clauses in aa.items():
                if not src.startswith(prefix):
                    continue
                for kind, payload, s2 in out:
                    if kind != 'normal':
                        continue
                    for text in clauses:
                        self.trusted_used.add('assumed after `%s...` in %s: %s' % (prefix, self.cur_contract.qualname, text[:160]))
                        s2.assume(self.clause(text, s2, dict(s2.frames[s2.cur])))
        return out

    def _each(self, results, fn):
        """Helper: for expression results, raise -> outcome, else fn(v, s) -> outcomes."""
        out = []
        for r, s in results:
            if isinstance(r, Raised):
                out.append(('raise', r.exc, s))
            else:
                out.extend(fn(r, s))
        return out

    def exec_Pass(self, node, st):
        return [('normal', None, st)]

    def exec_Expr(self, node, st):
        if isinstance(node.value, ast.Constant) and isinstance(node.value.value, str):
            return [('normal', None, st)]        # docstring / string statement
        if isinstance(node.value, ast.Yield):
            # generator under contract: the yielded values are a ghost event stream; the consumer runs between
            # two yields but cannot touch the generator's locals (DESIGN 2.2)
            def go(v, s):
                self.log_event(s, 'yield', {'value': v}, 'normal')
                return [('normal', None, s)]
            if node.value.value is None:
                return go(NONE, st)
            return self._each(self.ev(node.value.value, st), go)
        return self._each(self.ev(node.value, st), lambda v, s: [('normal', None, s)])

    def exec_Return(self, node, st):
        if node.value is None:
            return [('return', NONE, st)]
        return self._each(self.ev(node.value, st), lambda v, s: [('return', v, s)])

    def exec_Break(self, node, st):
        return [('break', None, st)]

    def exec_Continue(self, node, st):
        return [('continue', None, st)]

    def exec_Global(self, node, st):
        raise Undecided('global statement', node)

    def exec_Nonlocal(self, node, st):
        return [('normal', None, st)]

    def exec_Import(self, node, st):
        for a in node.names:
            mod = importlib.import_module(a.name)
            if a.asname:
                st.bind(a.asname, VPy(mod))
            else:
                st.bind(a.name.split('.')[0], VPy(importlib.import_module(a.name.split('.')[0])))
        return [('normal', None, st)]

    def exec_ImportFrom(self, node, st):
        modname = node.module
        if node.level:
            pkg = self.modname.rsplit('.', node.level)[0]
            modname = pkg + ('.' + node.module if node.module else '')
        mod = importlib.import_module(modname)
        for a in node.names:
            if hasattr(mod, a.name):
                obj = getattr(mod, a.name)
            else:
                obj = importlib.import_module(modname + '.' + a.name)
            st.bind(a.asname or a.name, self.lift(obj, st))
        return [('normal', None, st)]

    def exec_FunctionDef(self, node, st):
        defaults = {}
        args = node.args
        pos = args.posonlyargs + args.args
        for a, d in zip(pos[len(pos) - len(args.defaults):], args.defaults):
            defaults[a.arg] = self.ev1(d, st)
        for a, d in zip(args.kwonlyargs, args.kw_defaults):
            if d is not None:
                defaults[a.arg] = self.ev1(d, st)
        st.bind(node.name, VFunc(node, st.cur, defaults, node.name, self.modname))
        return [('normal', None, st)]

    def exec_Assign(self, node, st):
        def go(v, s):
            for t in node.targets:
                self.assign_target(t, v, s, node)
                if isinstance(t, ast.Name) and self.cur_contract is not None and s.depth == 0 and not self.pure:
                    # intermediate facts the contract attaches to an assignment: proved here, then used
                    for name, text in self.cur_contract.opts.get('facts_after', {}).get(t.id, ()):
                        g = self.inv_clause(text, s, self.entry_state)
                        self.oblige('fact', '%s@%s' % (name, t.id), s, g, node)
                        s.assume(g)
            return [('normal', None, s)]
        return self._each(self.ev(node.value, st), go)

    def exec_AnnAssign(self, node, st):
        if node.value is None:
            return [('normal', None, st)]

        def go(v, s):
            self.assign_target(node.target, v, s, node)
            return [('normal', None, s)]
        return self._each(self.ev(node.value, st), go)

    def assign_target(self, t, v, st, node=None):
        if isinstance(t, ast.Name):
            st.bind(t.id, v)
            return
        if isinstance(t, (ast.Tuple, ast.List)):
            items = self.unpack_value(v, len(t.elts), st, node)
            for e, i in zip(t.elts, items):
                self.assign_target(e, i, st, node)
            return
        if isinstance(t, ast.Attribute):
            owner = self.ev1(t.value, st)
            if isinstance(owner, VRef) and isinstance(st.heap[owner.loc], HInst):
                o = st.heap[owner.loc]
                if o.view is not None and self.mutable_field(o.cls, t.attr):
                    if not isinstance(v, (VInt, VBool, VStr)):
                        raise Undecided('mutable record-list field %s.%s assigned %r' % (o.cls, t.attr, v), node)
                    self.recfield_write(o.view[0], t.attr, o.view[1], v, st)
                    return
                f = dict(o.fields)
                f[t.attr] = v
                st.heap[owner.loc] = HInst(o.cls, f, o.view)
                return
            import types as _types
            if isinstance(owner, VPy) and isinstance(owner.obj, _types.ModuleType):
                key = (owner.obj.__name__, t.attr)
                declared = self.cur_contract.globals if self.cur_contract else {}
                if '%s.%s' % key not in declared and key not in st.globals:
                    raise Undecided('write to undeclared process-global %s.%s (declare it in globals=)' % key, node)
                st.globals[key] = v
                return
            raise Undecided('attribute assignment on %r' % (owner,), node)
        if isinstance(t, ast.Subscript):
            owner = self.ev1(t.value, st)
            key = self.ev1(t.slice, st)
            self.store_subscript(owner, key, v, st, node)
            return
        raise Undecided('assignment target %s' % type(t).__name__, node)

    def unpack_value(self, v, n, st, node):
        if isinstance(v, VTuple) or (isinstance(v, VRef) and isinstance(st.heap[v.loc], HPyList)):
            return self.unpack(v, n, st, node)
        if isinstance(v, VExcInfo):
            return v.items(n)
        if isinstance(v, VRef) and isinstance(st.heap.get(v.loc), HInst) and st.heap[v.loc].cls in C.TUPLE_RECORDS:
            o = st.heap[v.loc]
            names = C.TUPLE_RECORDS[o.cls] if isinstance(C.TUPLE_RECORDS, dict) and C.TUPLE_RECORDS[o.cls] else list(C.RECORDS[o.cls])
            if len(names) == n:
                return [o.fields[f] for f in names]
        raise Undecided('cannot unpack %r into %d targets' % (v, n), node)

    def store_subscript(self, owner, key, v, st, node):
        if isinstance(owner, VRef):
            o = st.heap[owner.loc]
            if isinstance(o, HOpaque):
                return
            from . import flagdict
            if isinstance(o, flagdict.HFlagDict):
                flagdict.setitem(self, owner, o, key, v, st, node)
                return
            if isinstance(o, HDict) and not o.entries and isinstance(key, VRef):
                # a dict keyed by objects (timings per example): write-only as far as the engine is concerned
                st.heap[owner.loc] = HOpaque('dict keyed by objects')
                return
            if isinstance(o, HDict) and isinstance(key, VStr):
                if key.t.lit is not None:
                    e = dict(o.entries)
                    e[key.t.lit[1]] = v
                    st.heap[owner.loc] = HDict(e)
                    return
                raise Undecided('dict store with symbolic key (fork it with an if/contract)', node)
            if isinstance(o, HMap) and isinstance(key, VInt):
                vt = self.coerce(v, o.vty, st)
                st.heap[owner.loc] = HMap(smt.mk('store', [o.present, key.t, TRUE], o.present.sort),
                                          smt.mk('store', [o.vals, key.t, vt], o.vals.sort), o.vty)
                return
            if isinstance(o, HPyList) and isinstance(key, VInt) and key.t.lit is not None:
                items = list(o.items)
                items[key.t.lit[1]] = v
                st.heap[owner.loc] = HPyList(items)
                return
            if isinstance(o, HList) and isinstance(key, VInt) and isinstance(v, (VInt, VStr, VBool)):
                k, inr = self.index_term(o.seq, key.t, st, node, 'list')
                self.oblige('safe', 'IndexError', st, inr, node)
                st.assume(inr)
                n = Len(o.seq)
                new = Concat(smt.Substr(o.seq, IntV(0), k), smt.Unit(v.t),
                             smt.Substr(o.seq, Add(k, IntV(1)), Sub(n, Add(k, IntV(1)))))
                st.heap[owner.loc] = HList(new, o.elem)
                return
            if isinstance(o, HInst):
                rs = self.call_method_on_instance(owner, o, '__setitem__', [key, v], {}, st, node)
                if len(rs) != 1 or isinstance(rs[0][0], Raised):
                    raise Undecided('__setitem__ forks', node)
                return
        raise Undecided('subscript store on %r' % (owner,), node)

    def coerce(self, v, ty, st):
        """Term of the sort of ty for value v (Optional values are injected into Val when ty is val)."""
        if ty[0] == 'val':
            if isinstance(v, VVal):
                return v.t
            if isinstance(v, VOptSym) and isinstance(v.val, VStr):
                return Ite(v.isnone, self.val_const(None), self.model_app('val_of_str', [v.val.t], 'Val'))
            if isinstance(v, VStr):
                self.ctx.sort('Val')
                return self.model_app('val_of_str', [v.t], 'Val')
            if isinstance(v, VNone):
                return self.val_const(None)
            if isinstance(v, VPy):
                return self.val_const(v.obj)
            if isinstance(v, VRecList):
                # a list object kept as an opaque value (distinct from None; its content is not tracked through the container)
                self.ctx.sort('Val')
                t = self.ctx.fresh('stored_list', 'Val')
                st.assume(Ne(t, self.val_const(None)))
                return t
        if getattr(v, 'ty', None) == ty:
            return v.t
        raise Undecided('cannot store %r as %r' % (v, ty))

    def exec_AugAssign(self, node, st):
        t = node.target
        load = ast.copy_location(ast.fix_missing_locations(
            ast.Name(id=t.id, ctx=ast.Load()) if isinstance(t, ast.Name) else
            (ast.Attribute(value=t.value, attr=t.attr, ctx=ast.Load()) if isinstance(t, ast.Attribute) else
             ast.Subscript(value=t.value, slice=t.slice, ctx=ast.Load()))), node)
        ast.fix_missing_locations(load)
        out = []
        for vals, s in self.ev_list([load, node.value], st):
            if isinstance(vals, Raised):
                out.append(('raise', vals.exc, s))
                continue
            cur, rhs = vals
            # in-place list extension keeps identity
            if isinstance(node.op, ast.Add) and isinstance(cur, VRef) and isinstance(s.heap[cur.loc], (HPyList, HList)):
                for r, s2 in self.call_model('list.extend', [cur, rhs], {}, s, node):
                    out.append(('raise', r.exc, s2) if isinstance(r, Raised) else ('normal', None, s2))
                continue
            for r, s2 in self.binop(node.op, cur, rhs, s, node):
                self.assign_target(t, r, s2, node)
                out.append(('normal', None, s2))
        return out

    def exec_Delete(self, node, st):
        for t in node.targets:
            if isinstance(t, ast.Subscript):
                owner = self.ev1(t.value, st)
                if isinstance(owner, VRef) and isinstance(st.heap[owner.loc], HList):
                    o = st.heap[owner.loc]
                    n = Len(o.seq)
                    if isinstance(t.slice, ast.Slice):
                        if t.slice.lower is None and t.slice.upper is None:
                            st.heap[owner.loc] = HList(smt.Empty(o.seq.sort), o.elem)
                            continue
                        raise Undecided('del of a proper slice', node)
                    key = self.ev1(t.slice, st)
                    k, inr = self.index_term(o.seq, key.t, st, node, 'list')
                    self.oblige('safe', 'IndexError', st, inr, node)
                    st.assume(inr)
                    if key.t.lit is not None and key.t.lit[1] == 0:
                        new = smt.Substr(o.seq, IntV(1), Sub(n, IntV(1)))
                    elif key.t.lit is not None and key.t.lit[1] == -1:
                        new = smt.Substr(o.seq, IntV(0), Sub(n, IntV(1)))
                    else:
                        new = Concat(smt.Substr(o.seq, IntV(0), k),
                                     smt.Substr(o.seq, Add(k, IntV(1)), Sub(n, Add(k, IntV(1)))))
                    st.heap[owner.loc] = HList(new, o.elem)
                    continue
                if isinstance(owner, VRef) and isinstance(st.heap[owner.loc], HPyList):
                    o = st.heap[owner.loc]
                    if isinstance(t.slice, ast.Slice) and t.slice.lower is None and t.slice.upper is None:
                        st.heap[owner.loc] = HPyList([])
                        continue
                    key = self.ev1(t.slice, st)
                    if isinstance(key, VInt) and key.t.lit is not None:
                        items = list(o.items)
                        del items[key.t.lit[1]]
                        st.heap[owner.loc] = HPyList(items)
                        continue
                raise Undecided('del on %r' % (owner,), node)
            elif isinstance(t, ast.Name):
                st.frames[st.cur].pop(t.id, None)
            else:
                raise Undecided('del target', node)
        return [('normal', None, st)]

    def exec_If(self, node, st):
        out = []
        for c, s in self.ev(node.test, st):
            if isinstance(c, Raised):
                out.append(('raise', c.exc, s))
                continue
            cond = self.truthy(c, s)
            for flag, s2 in self.fork_on(s, cond):
                self.narrow(node.test, flag, s2)
                out.extend(self.run_block(node.body if flag else node.orelse, s2))
        return out

    def narrow(self, test, flag, st):
        """Refine Optional-typed locals after a branch on `x is None` / `x` / `not x`."""
        if isinstance(test, ast.UnaryOp) and isinstance(test.op, ast.Not):
            return self.narrow(test.operand, not flag, st)
        name = None
        is_none = None
        if isinstance(test, ast.Compare) and len(test.ops) == 1 and isinstance(test.left, ast.Name) \
                and isinstance(test.comparators[0], ast.Constant) and test.comparators[0].value is None:
            if isinstance(test.ops[0], ast.Is):
                name, is_none = test.left.id, flag
            elif isinstance(test.ops[0], ast.IsNot):
                name, is_none = test.left.id, not flag
        elif isinstance(test, ast.Name) and flag:
            name, is_none = test.id, False
        elif isinstance(test, ast.BoolOp) and isinstance(test.op, ast.And) and flag:
            for v in test.values:
                self.narrow(v, True, st)
            return
        elif isinstance(test, ast.BoolOp) and isinstance(test.op, ast.Or) and not flag:
            for v in test.values:
                self.narrow(v, False, st)
            return
        if name is None:
            # attribute of a local instance: `if self.want_lines:` / `self.x is None`
            attr = None
            if isinstance(test, ast.Attribute) and isinstance(test.value, ast.Name) and flag:
                attr, is_none = test, False
            elif isinstance(test, ast.Compare) and len(test.ops) == 1 and isinstance(test.left, ast.Attribute) \
                    and isinstance(test.left.value, ast.Name) and isinstance(test.comparators[0], ast.Constant) \
                    and test.comparators[0].value is None and isinstance(test.ops[0], (ast.Is, ast.IsNot)):
                attr = test.left
                is_none = flag if isinstance(test.ops[0], ast.Is) else not flag
            if attr is not None:
                owner = st.lookup(attr.value.id)
                if isinstance(owner, VRef) and isinstance(st.heap.get(owner.loc), HInst):
                    o = st.heap[owner.loc]
                    v = o.fields.get(attr.attr)
                    if isinstance(v, VOptSym):
                        f = dict(o.fields)
                        f[attr.attr] = NONE if is_none else v.val
                        st.heap[owner.loc] = HInst(o.cls, f, o.view)
            return
        v = st.frames[st.cur].get(name)
        if isinstance(v, VOptSym):
            st.frames[st.cur][name] = NONE if is_none else v.val

    def exec_Assert(self, node, st):
        out = []
        for c, s in self.ev(node.test, st):
            if isinstance(c, Raised):
                out.append(('raise', c.exc, s))
                continue
            cond = self.truthy(c, s)
            for r, s2 in self._safe_result(cond, NONE, AssertionError, s, node, name='assert'):
                out.append(('raise', r.exc, s2) if isinstance(r, Raised) else ('normal', None, s2))
        return out

    def exec_Raise(self, node, st):
        if node.exc is None:
            if st.handling:
                return [('raise', st.handling[-1], st)]
            exc = st.live_exc or VExc(Exception, {}, tag='live')
            return [('raise', exc, st)]

        def go(v, s):
            if isinstance(v, VPy) and isinstance(v.obj, type) and issubclass(v.obj, BaseException):
                v = VExc(v.obj, {})
            if isinstance(v, VExc):
                return [('raise', v, s)]
            raise Undecided('raise of %r' % (v,), node)
        return self._each(self.ev(node.exc, st), go)

    # ---- try / with -----------------------------------------------------
    def handler_matches(self, h, exc, st):
        if h.type is None:
            return True
        tv = self.ev1(h.type, st)
        classes = []
        if isinstance(tv, VTuple):
            classes = [i.obj for i in tv.items]
        elif isinstance(tv, VPy):
            classes = [tv.obj] if isinstance(tv.obj, type) else list(tv.obj)
        else:
            raise Undecided('except clause type %r' % (tv,), h)
        if exc.tag == 'live':
            raise Undecided('handler may catch the caller-provided live exception', h)
        return any(issubclass(exc.cls, k) for k in classes)

    def exec_Try(self, node, st):
        has_handlers = bool(node.handlers)
        if has_handlers:
            self.in_try += 1
        try:
            body_res = self.run_block(node.body, st)
        finally:
            if has_handlers:
                self.in_try -= 1
        out = []
        for kind, payload, s in body_res:
            if kind == 'raise':
                exc = payload
                handled = False
                for h in node.handlers:
                    if self.handler_matches(h, exc, s):
                        handled = True
                        s.handling.append(exc)
                        if h.name:
                            s.bind(h.name, exc)
                        for k2, p2, s2 in self.run_block(h.body, s):
                            if s2.handling and s2.handling[-1] is exc:
                                s2.handling.pop()
                            out.append((k2, p2, s2))
                        break
                if not handled:
                    out.append((kind, payload, s))
            elif kind == 'normal' and node.orelse:
                out.extend(self.run_block(node.orelse, s))
            else:
                out.append((kind, payload, s))
        if node.finalbody:
            final = []
            for kind, payload, s in out:
                for k2, p2, s2 in self.run_block(node.finalbody, s):
                    if k2 == 'normal':
                        final.append((kind, payload, s2))
                    else:
                        final.append((k2, p2, s2))
            out = final
        return out

    def exec_With(self, node, st):
        if len(node.items) != 1:
            # nested with items: desugar
            inner = ast.With(items=node.items[1:], body=node.body)
            ast.copy_location(inner, node)
            outer = ast.With(items=node.items[:1], body=[inner])
            ast.copy_location(outer, node)
            return self.exec_With(outer, st)
        item = node.items[0]
        out = []
        for cm, s in self.ev(item.context_expr, st):
            if isinstance(cm, Raised):
                out.append(('raise', cm.exc, s))
                continue
            for ev, s1 in self.cm_enter(cm, s, node):
                if isinstance(ev, Raised):
                    out.append(('raise', ev.exc, s1))
                    continue
                if item.optional_vars is not None:
                    self.assign_target(item.optional_vars, ev, s1, node)
                for kind, payload, s2 in self.run_block(node.body, s1):
                    exc = payload if kind == 'raise' else None
                    for xr, s3 in self.cm_exit(cm, exc, s2, node):
                        if isinstance(xr, Raised):
                            out.append(('raise', xr.exc, s3))
                        elif kind == 'raise':
                            sup = self.truthy(xr, s3)
                            for flag, s4 in self.fork_on(s3, sup):
                                out.append(('normal', None, s4) if flag else (kind, payload, s4))
                        else:
                            out.append((kind, payload, s3))
        return out

    def cm_enter(self, cm, st, node):
        if isinstance(cm, VRef) and isinstance(st.heap[cm.loc], HInst):
            return self.call_method_on_instance(cm, st.heap[cm.loc], '__enter__', [], {}, st, node)
        if isinstance(cm, VCtxMgr):
            return cm.enter(self, st, node)
        raise Undecided('context manager %r' % (cm,), node)

    def cm_exit(self, cm, exc, st, node):
        if exc is None:
            args = [NONE, NONE, NONE]
        else:
            args = [VPy(exc.cls), exc, VVal(self.ctx.fresh('tb', sort_of(('val',))))]
        if isinstance(cm, VRef) and isinstance(st.heap[cm.loc], HInst):
            return self.call_method_on_instance(cm, st.heap[cm.loc], '__exit__', args, {}, st, node)
        if isinstance(cm, VCtxMgr):
            return cm.exit(self, exc, st, node)
        raise Undecided('context manager %r' % (cm,), node)

    # ---- loops ----------------------------------------------------------
    def loop_ordinal(self, node):
        key = (node.lineno, node.col_offset)
        if key not in self.loop_ordinals:
            raise Undecided('loop not in ordinal table (nested function from another module?)', node)
        return self.loop_ordinals[key]

    def iter_domain(self, it_node, st):
        """[(domain, state)] where domain = ('concrete', [V]) | ('sym', n, getter)."""
        out = []
        if isinstance(it_node, ast.Call) and isinstance(it_node.func, ast.Name) and st.lookup(it_node.func.id) is None:
            fname = it_node.func.id
            if fname == 'enumerate' and len(it_node.args) >= 1:
                start = IntV(0)
                for dom, s in self.iter_domain(it_node.args[0], st):
                    if len(it_node.args) == 2 or it_node.keywords:
                        sn = it_node.args[1] if len(it_node.args) == 2 else it_node.keywords[0].value
                        start = self.ev1(sn, s).t
                    if dom[0] == 'concrete':
                        out.append((('concrete', [VTuple([VInt(Add(start, IntV(i))), v]) for i, v in enumerate(dom[1])]), s))
                    else:
                        n, get = dom[1], dom[2]
                        out.append((('sym', n, (lambda i, s_, get=get, start=start: VTuple([VInt(Add(start, i)), get(i, s_)]))), s))
                return out
            if fname == 'range':
                for vals, s in self.ev_list(it_node.args, st):
                    if isinstance(vals, Raised):
                        raise Undecided('range args raise', it_node)
                    if all(isinstance(v, VInt) and v.t.lit is not None for v in vals):
                        r = range(*[v.t.lit[1] for v in vals])
                        if len(r) <= 64:
                            out.append((('concrete', [VInt(IntV(i)) for i in r]), s))
                            continue
                    if len(vals) == 3:
                        raise Undecided('symbolic range with step', it_node)
                    lo = vals[0].t if len(vals) == 2 else IntV(0)
                    hi = vals[-1].t
                    n = smt.Max(Sub(hi, lo), IntV(0))
                    out.append((('sym', n, (lambda i, s_, lo=lo: VInt(Add(lo, i)))), s))
                return out
            if fname == 'zip' and len(it_node.args) == 2:
                for d1, s1 in self.iter_domain(it_node.args[0], st):
                    for d2, s2 in self.iter_domain(it_node.args[1], s1):
                        if d1[0] == 'concrete' and d2[0] == 'concrete':
                            out.append((('concrete', [VTuple([a, b]) for a, b in zip(d1[1], d2[1])]), s2))
                        elif d1[0] == 'sym' and d2[0] == 'sym':
                            n = smt.Min(d1[1], d2[1])
                            out.append((('sym', n, (lambda i, s_, g1=d1[2], g2=d2[2]: VTuple([g1(i, s_), g2(i, s_)]))), s2))
                        else:
                            raise Undecided('zip of concrete and symbolic', it_node)
                return out
        if isinstance(it_node, ast.BinOp) and isinstance(it_node.op, ast.Add) and isinstance(it_node.right, ast.List) \
                and len(it_node.right.elts) == 1 and isinstance(it_node.right.elts[0], ast.Constant) \
                and it_node.right.elts[0].value is None:
            # xs + [None]: the elements of xs followed by None (an optional element: None exactly at the last position)
            from .symexec import VOptSym
            for dom, s in self.iter_domain(it_node.left, st):
                if dom[0] == 'concrete':
                    out.append((('concrete', list(dom[1]) + [NONE]), s))
                elif dom[0] == 'sym':
                    n0, g0 = dom[1], dom[2]
                    out.append((('sym', Add(n0, IntV(1)),
                                 (lambda i, s_, n0=n0, g0=g0: VOptSym(Ge(i, n0), g0(i, s_)))), s))
                else:
                    raise Undecided('xs + [None] over %r' % (dom[0],), it_node)
            return out
        if isinstance(it_node, ast.Subscript) and isinstance(it_node.slice, ast.Slice) and it_node.slice.upper is None \
                and it_node.slice.step is None and isinstance(it_node.slice.lower, ast.Constant) \
                and isinstance(it_node.slice.lower.value, int) and it_node.slice.lower.value >= 0:
            # xs[k:]: element i is xs[i + k] (plain index terms instead of nth-of-extract)
            k0 = it_node.slice.lower.value
            doms = self.iter_domain(it_node.value, st)
            if all(d[0] == 'sym' for d, _ in doms):
                for dom, s in doms:
                    n0, g0 = dom[1], dom[2]
                    out.append((('sym', smt.Max(Sub(n0, IntV(k0)), IntV(0)),
                                 (lambda i, s_, g0=g0, k0=k0: g0(Add(i, IntV(k0)), s_))), s))
                return out
        for v, s in self.ev(it_node, st):
            if isinstance(v, Raised):
                out.append((('raise', v.exc), s))
                continue
            items = self.concrete_items(v, s)
            if items is not None:
                out.append((('concrete', items), s))
                continue
            if isinstance(v, VRecList):
                out.append((('sym', v.n, v.getter(self)), s))
                continue
            if isinstance(v, VRef) and isinstance(s.heap.get(v.loc), HInst) and s.heap[v.loc].cls == 'EnumIter':
                out.append((('iter', v), s))
                continue
            if isinstance(v, VRef) and isinstance(s.heap.get(v.loc), (HRecSeq, HIdxList)):
                from . import reclists
                o = s.heap[v.loc]
                if isinstance(o, HRecSeq):
                    out.append((('sym', o.n, (lambda i, s_, v=v, o=o: reclists.element_view(self, v, o, i, s_))), s))
                else:
                    out.append((('sym', Len(o.idx), (lambda i, s_, o=o: reclists.idx_element(self, o, i, s_))), s))
                continue
            seq, elem = self.seq_of(v, s)
            out.append((('sym', Len(seq), (lambda i, s_, seq=seq, elem=elem: wrap(smt.At(seq, i), elem))), s))
        return out

    def exec_For(self, node, st):
        ordn = self.loop_ordinal(node)
        spec = self.cur_contract.loops.get(ordn) if self.cur_contract and self.depth0(st) else None
        out = []
        for dom, s in self.iter_domain(node.iter, st):
            if dom[0] == 'raise':
                out.append(('raise', dom[1], s))
                continue
            if dom[0] == 'iter':
                if spec is None:
                    raise Undecided('loop #%d over an explicit iterator needs an invariant' % ordn, node)
                out.extend(self.for_over_iterator(node, ordn, spec, dom[1], s))
                continue
            if dom[0] == 'concrete' and spec is None:
                out.extend(self.unroll_for(node, dom[1], s))
            else:
                if spec is None:
                    raise Undecided('loop #%d (%s) over a symbolic iterable needs an invariant'
                                    % (ordn, ast.unparse(node.iter)), node)
                if dom[0] == 'concrete':
                    items = dom[1]
                    n = IntV(len(items))
                    raise Undecided('invariant given for a concrete loop #%d' % ordn, node)
                out.extend(self.for_with_invariant(node, ordn, spec, dom[1], dom[2], s))
        return out

    def depth0(self, st):
        return st.depth == 0

    def unroll_for(self, node, items, st):
        out = []
        states = [st]
        for item in items:
            nxt = []
            for s in states:
                self.assign_target(node.target, item, s, node)
                for kind, payload, s2 in self.run_block(node.body, s):
                    if kind in ('normal', 'continue'):
                        nxt.append(s2)
                    elif kind == 'break':
                        out.append(('normal', None, s2))
                    else:
                        out.append((kind, payload, s2))
            states = nxt
        for s in states:
            out.extend(self.run_block(node.orelse, s) if node.orelse else [('normal', None, s)])
        return out

    def check_header(self, spec, text, ordn, node):
        if spec.header is not None and spec.header != text:
            raise Undecided('loop #%d header changed: contract has %r, code has %r'
                            % (ordn, spec.header, text), node)

    def inv_bindings(self, st):
        """Invariants are evaluated in the function's own frame (locals visible)."""
        return None

    def inv_clause(self, text, st, old):
        node = ast.parse(text.strip(), mode='eval').body
        s = st.copy()
        saved_old = self.old_state
        if old is not None:
            o = old.copy()
            self.old_state = o
        self.pure += 1
        try:
            return self.truthy(self.ev1(node, s), s)
        finally:
            self.pure -= 1
            self.old_state = saved_old

    def havoc_loop(self, node, spec, st):
        """Havoc everything the loop body may change."""
        body = node.body
        names = assigned_names(body)
        if isinstance(node, ast.For):
            names |= assigned_names([ast.Assign(targets=[node.target], value=ast.Constant(0))])
        for name in sorted(names | set(spec.types)):
            if name in spec.types and '.' in name:
                continue    # attribute paths are handled below
            if name in spec.types:
                tyname = spec.types[name]
                if tyname.startswith('='):
                    # the variable is an alias of an existing object
                    self.pure += 1
                    try:
                        st.frames[st.cur][name] = self.ev1(ast.parse(tyname[1:], mode='eval').body, st)
                    finally:
                        self.pure -= 1
                    continue
                if tyname.startswith('objlist['):
                    n = self.ctx.fresh(name + '_len', INT)
                    st.assume(Ge(n, IntV(0)))
                    st.frames[st.cur][name] = st.alloc(HObjList(n, self.exc_class(tyname[8:-1])))
                elif tyname.startswith('idxlist['):
                    # references into the record list held by the named variable
                    self.pure += 1
                    try:
                        basev = self.ev1(ast.parse(tyname[8:-1], mode='eval').body, st)
                    finally:
                        self.pure -= 1
                    if not isinstance(basev, VRecList):
                        raise Undecided('idxlist[%s]: not a record list' % tyname[8:-1], node)
                    st.frames[st.cur][name] = st.alloc(HIdxList(basev, self.ctx.fresh(name + '_idx', '(Seq Int)')))
                else:
                    st.frames[st.cur][name] = self.fresh(parse_type(tyname), name, st)
                continue
            cur = st.frames[st.cur].get(name)
            if cur is None:
                continue
            if isinstance(cur, VFunc):
                continue
            if isinstance(cur, VPy):
                import types as _t
                if isinstance(cur.obj, (_t.ModuleType, _t.FunctionType, _t.BuiltinFunctionType, type)):
                    continue        # a module / function / class bound to a name: re-binding it in a loop is not modelled
                # a Python singleton (e.g. NOT_EVALED) held by a variable the body assigns: any value at the loop head
                st.frames[st.cur][name] = VVal(self.ctx.fresh(name, sort_of(('val',))))
                continue
            st.frames[st.cur][name] = self.fresh_like(cur, name, st)
        muts = mutated_exprs(body) if spec.modifies is None else set(spec.modifies)
        for path, tyname in spec.types.items():
            if '.' not in path:
                continue
            muts.discard(path)
            owner_txt, attr = path.rsplit('.', 1)
            self.pure += 1
            try:
                owner = self.ev1(ast.parse(owner_txt, mode='eval').body, st)
                if tyname.startswith('idxlist['):
                    basev = self.ev1(ast.parse(tyname[8:-1], mode='eval').body, st)
                    val = st.alloc(HIdxList(basev, self.ctx.fresh(attr + '_idx', '(Seq Int)')))
                else:
                    val = self.fresh(parse_type(tyname), attr, st)
            finally:
                self.pure -= 1
            o = st.heap[owner.loc]
            f = dict(o.fields)
            f[attr] = val
            st.heap[owner.loc] = HInst(o.cls, f, o.view)
        for expr in sorted(muts):
            if expr.startswith('field(') and expr.endswith(')'):
                lst_txt, fname = [x.strip() for x in expr[6:-1].rsplit(',', 1)]
                self.pure += 1
                try:
                    lv = self.ev1(ast.parse(lst_txt, mode='eval').body, st)
                finally:
                    self.pure -= 1
                if not isinstance(lv, VRecList):
                    raise Undecided('loop havoc of %r: not a record list' % expr, node)
                self.recfield_havoc(lv.base, fname, st)
                continue
            try:
                n = ast.parse(expr[expr.index('(') + 1:-1] if expr.startswith(('obj(', 'flags(')) else expr, mode='eval').body
            except SyntaxError:
                continue
            if isinstance(n, ast.Name) and (n.id in names or n.id in spec.types):
                continue    # rebinding already produced a fresh object
            try:
                if isinstance(n, ast.Attribute) or expr.startswith(('obj(', 'flags(')):
                    self.havoc_expr(expr, dict(st.frames[st.cur]), st, node, base='loop')
                    continue
                self.pure += 1
                try:
                    v = self.ev1(n, st)
                finally:
                    self.pure -= 1
                self.havoc_object(v, st, 'loop_' + expr.replace('.', '_'), node)
            except Undecided as ex:
                raise Undecided('loop havoc of %r: %s' % (expr, ex), node)

    def bind_ghosts(self, spec, st):
        """Ghost let-bindings of a loop spec: name = expression over the current state."""
        for name, text in spec.ghost.items():
            self.pure += 1
            try:
                v = self.ev1(ast.parse(text.strip(), mode='eval').body, st.copy())
            finally:
                self.pure -= 1
            self.pure -= 0
            saved = self.pure
            self.pure = 0
            try:
                v = self.compact_value(v, st, name) if len(getattr(getattr(v, 't', None), 's', '')) > 40 else v
                if hasattr(v, 't') and v.t.lit is None and len(v.t.s) > 40:
                    c = self.ctx.fresh(name, v.t.sort)
                    st.assume(Eq(c, v.t))
                    v = type(v)(c) if not isinstance(v, VSeq) else VSeq(c, v.elem)
            finally:
                self.pure = saved
            st.ghost[name] = v

    def for_with_invariant(self, node, ordn, spec, n, getter, st):
        outer_mark = st.ghost.get('__iter_event_start__', 0)
        out = self._for_with_invariant(node, ordn, spec, n, getter, st)
        for _, _, s_out in out:
            # the event window of an enclosing loop iteration / of the function is restored on leaving this loop
            s_out.ghost['__iter_event_start__'] = outer_mark
        return out

    def _for_with_invariant(self, node, ordn, spec, n, getter, st):
        self.check_header(spec, ast.unparse(node.iter), ordn, node)
        for gname, gtext in spec.entry_ghost.items():
            self.pure += 1
            try:
                gv = self.ev1(ast.parse(gtext.strip(), mode='eval').body, st.copy())
            finally:
                self.pure -= 1
            st.ghost[gname] = self.snapshot(gv, st)
        idx = '_i%d' % ordn
        old = self.entry_state
        out = []
        # ghost: the first element of the iterable (meaningful when it is not empty)
        try:
            st.ghost['_first%d' % ordn] = getter(IntV(0), st)
        except Undecided:
            pass
        # 1. invariant holds on entry (index 0)
        st.ghost[idx] = VInt(IntV(0))
        st.ghost['_n%d' % ordn] = VInt(n)
        self.bind_ghosts(spec, st)
        for name, text in spec.invariants:
            self.oblige('inv-init', '%s@loop%d' % (name, ordn), st, self.inv_clause(text, st, old), node)
        # 2. arbitrary iteration
        s1 = st.copy()
        self.havoc_loop(node, spec, s1)
        i = self.ctx.fresh('i%d' % ordn, INT)
        s1.ghost[idx] = VInt(i)
        s1.assume(And(Le(IntV(0), i), Le(i, n)))
        self.bind_ghosts(spec, s1)
        for name, text in spec.invariants:
            t_inv = self.inv_clause(text, s1, old)
            if t_inv.lit is not None and not t_inv.lit[1]:
                raise Undecided('invariant %s of loop #%d is literally false on the havocked state '
                                '(an alias the engine cannot express? use an "=expr" type)' % (name, ordn), node)
            s1.assume(t_inv)
        # 3. exit
        cut = spec.exit_post is not None
        s_after = s1.copy() if cut else None
        s_exit = s1.copy()
        if self.feasible(s_exit, Eq(i, n)):
            s_exit.assume(Eq(i, n))
            if cut:
                if node.orelse:
                    raise Undecided('exit_post on a loop with an else clause', node)
                for name, text in spec.exit_post:
                    self.oblige('loop-exit', '%s@loop%d' % (name, ordn), s_exit, self.inv_clause(text, s_exit, old), node,
                                note='exit by exhaustion')
            else:
                out.extend(self.run_block(node.orelse, s_exit) if node.orelse else [('normal', None, s_exit)])
        # 4. body
        s_body = s1
        if self.feasible(s_body, Lt(i, n)):
            s_body.assume(Lt(i, n))
            self.assign_target(node.target, getter(i, s_body), s_body, node)
            s_body.ghost['__iter_event_start__'] = len(s_body.events)
            iter_snapshot = s_body.copy()
            for name, text in spec.body_facts:
                g = self.inv_clause(text, s_body, old)
                self.oblige('inv-fact', '%s@loop%d' % (name, ordn), s_body, g, node)
                s_body.assume(g)
            for kind, payload, s2 in self.run_block(node.body, s_body):
                self.iter_state = iter_snapshot
                try:
                    for name, text in spec.body_always:
                        self.oblige('always', '%s@loop%d' % (name, ordn), s2, self.inv_clause(text, s2, old), node,
                                    note='iteration outcome: %s' % kind)
                finally:
                    self.iter_state = None
                if kind in ('normal', 'continue'):
                    # relational postconditions of one iteration (before(e) = value at iteration start)
                    self.iter_state = iter_snapshot
                    try:
                        for name, text in spec.body_post:
                            self.oblige('step', '%s@loop%d' % (name, ordn), s2, self.inv_clause(text, s2, old), node)
                    finally:
                        self.iter_state = None
                    s2.ghost[idx] = VInt(Add(i, IntV(1)))
                    self.bind_ghosts(spec, s2)
                    for name, text in spec.invariants:
                        self.oblige('inv-keep', '%s@loop%d' % (name, ordn), s2, self.inv_clause(text, s2, old), node)
                elif kind == 'break':
                    if cut:
                        for name, text in spec.exit_post:
                            self.oblige('loop-exit', '%s@loop%d' % (name, ordn), s2, self.inv_clause(text, s2, old), node,
                                        note='exit by break')
                    else:
                        s2.ghost['__last_iter__'] = iter_snapshot
                        out.append(('normal', None, s2))
                else:
                    s2.ghost['__last_iter__'] = iter_snapshot
                    out.append((kind, payload, s2))
        if cut:
            # one continuation: loop-head state, everything the loop may change havocked again, exit_post assumed
            self.havoc_loop(node, spec, s_after)
            s_after.ghost.pop('_i%d' % ordn, None)
            for name, text in spec.exit_post:
                t_post = self.inv_clause(text, s_after, old)
                if t_post.lit is not None and not t_post.lit[1]:
                    raise Undecided('exit_post %s of loop #%d is literally false on the havocked state' % (name, ordn), node)
                s_after.assume(t_post)
            out.append(('normal', None, s_after))
        return out

    def for_over_iterator(self, node, ordn, spec, it, st):
        """`for x in it` where `it` is an EnumIter that the body (or a callee) may advance further: the invariant is stated
        over it.pos; one iteration takes the element at pos and sets pos := pos + 1 before the body runs."""
        self.check_header(spec, ast.unparse(node.iter), ordn, node)
        old = self.entry_state
        out = []
        outer_mark = st.ghost.get('__iter_event_start__', 0)
        for name, text in spec.invariants:
            self.oblige('inv-init', '%s@loop%d' % (name, ordn), st, self.inv_clause(text, st, old), node)
        s1 = st.copy()
        self.havoc_loop(node, spec, s1)
        o = s1.heap[it.loc]
        seq = o.fields['seq']
        n = Len(seq.t)
        p = self.ctx.fresh('pos%d' % ordn, INT)
        s1.assume(And(Le(IntV(0), p), Le(p, n)))
        f = dict(o.fields)
        f['pos'] = VInt(p)
        s1.heap[it.loc] = HInst(o.cls, f, o.view)
        for name, text in spec.invariants:
            t_inv = self.inv_clause(text, s1, old)
            if t_inv.lit is not None and not t_inv.lit[1]:
                raise Undecided('invariant %s of loop #%d is literally false on the havocked state' % (name, ordn), node)
            s1.assume(t_inv)
        s_exit = s1.copy()
        if self.feasible(s_exit, Eq(p, n)):
            s_exit.assume(Eq(p, n))
            out.extend(self.run_block(node.orelse, s_exit) if node.orelse else [('normal', None, s_exit)])
        s_body = s1
        if self.feasible(s_body, Lt(p, n)):
            s_body.assume(Lt(p, n))
            item = VTuple([VInt(Add(o.fields['start'].t, p)), wrap(smt.At(seq.t, p), seq.elem)])
            self.assign_target(node.target, item, s_body, node)
            ob = s_body.heap[it.loc]
            fb = dict(ob.fields)
            fb['pos'] = VInt(Add(p, IntV(1)))
            s_body.heap[it.loc] = HInst(ob.cls, fb, ob.view)
            s_body.ghost['__iter_event_start__'] = len(s_body.events)
            iter_snapshot = s_body.copy()
            for name, text in spec.body_facts:
                g = self.inv_clause(text, s_body, old)
                self.oblige('inv-fact', '%s@loop%d' % (name, ordn), s_body, g, node)
                s_body.assume(g)
            for kind, payload, s2 in self.run_block(node.body, s_body):
                self.iter_state = iter_snapshot
                try:
                    for name, text in spec.body_always:
                        self.oblige('always', '%s@loop%d' % (name, ordn), s2, self.inv_clause(text, s2, old), node,
                                    note='iteration outcome: %s' % kind)
                    if kind in ('normal', 'continue'):
                        for name, text in spec.body_post:
                            self.oblige('step', '%s@loop%d' % (name, ordn), s2, self.inv_clause(text, s2, old), node)
                finally:
                    self.iter_state = None
                if kind in ('normal', 'continue'):
                    for name, text in spec.invariants:
                        self.oblige('inv-keep', '%s@loop%d' % (name, ordn), s2, self.inv_clause(text, s2, old), node)
                elif kind == 'break':
                    out.append(('normal', None, s2))
                else:
                    out.append((kind, payload, s2))
        for _, _, s_out in out:
            s_out.ghost['__iter_event_start__'] = outer_mark
        return out

    def exec_While(self, node, st):
        ordn = self.loop_ordinal(node)
        spec = self.cur_contract.loops.get(ordn) if self.cur_contract and self.depth0(st) else None
        if spec is None:
            return self.unroll_while(node, st, int(os.environ.get('PYVC_UNROLL', '0')))
        self.check_header(spec, ast.unparse(node.test), ordn, node)
        if spec.exit_post is not None or spec.body_facts:
            raise Undecided('exit_post / body_facts are not supported on while loop #%d' % ordn, node)
        old = self.entry_state
        out = []
        for name, text in spec.invariants:
            self.oblige('inv-init', '%s@loop%d' % (name, ordn), st, self.inv_clause(text, st, old), node)
        s1 = st.copy()
        self.havoc_loop(node, spec, s1)
        for name, text in spec.invariants:
            s1.assume(self.inv_clause(text, s1, old))
        dec0 = None
        if spec.decreases:
            self.pure += 1
            try:
                dec0 = self.ev1(ast.parse(spec.decreases, mode='eval').body, s1).t
            finally:
                self.pure -= 1
        else:
            raise Undecided('while loop #%d needs a decreases term' % ordn, node)
        for c, s in self.ev(node.test, s1):
            if isinstance(c, Raised):
                out.append(('raise', c.exc, s))
                continue
            for flag, s2 in self.fork_on(s, self.truthy(c, s)):
                if not flag:
                    out.extend(self.run_block(node.orelse, s2) if node.orelse else [('normal', None, s2)])
                    continue
                self.oblige('dec', 'nonneg@loop%d' % ordn, s2, Ge(dec0, IntV(0)), node)
                outer_mark = s2.ghost.get('__iter_event_start__', 0)
                s2.ghost['__iter_event_start__'] = len(s2.events)
                iter_snapshot = s2.copy()
                for kind, payload, s3 in self.run_block(node.body, s2):
                    self.iter_state = iter_snapshot
                    try:
                        for name, text in spec.body_always:
                            self.oblige('always', '%s@loop%d' % (name, ordn), s3, self.inv_clause(text, s3, old), node,
                                        note='iteration outcome: %s' % kind)
                        if kind in ('normal', 'continue'):
                            for name, text in spec.body_post:
                                self.oblige('step', '%s@loop%d' % (name, ordn), s3, self.inv_clause(text, s3, old), node)
                    finally:
                        self.iter_state = None
                    s3.ghost['__iter_event_start__'] = outer_mark
                    if kind in ('normal', 'continue'):
                        for name, text in spec.invariants:
                            self.oblige('inv-keep', '%s@loop%d' % (name, ordn), s3, self.inv_clause(text, s3, old), node)
                        self.pure += 1
                        try:
                            dec1 = self.ev1(ast.parse(spec.decreases, mode='eval').body, s3).t
                        finally:
                            self.pure -= 1
                        self.oblige('dec', 'decreases@loop%d' % ordn, s3, Lt(dec1, dec0), node)
                    elif kind == 'break':
                        out.append(('normal', None, s3))
                    else:
                        out.append((kind, payload, s3))
        return out

    def unroll_while(self, node, st, bound):
        raise Undecided('while loop without invariant', node)

    # ------------------------------------------------------- verification
    def union_fields(self, tyname, seen=None):
        """Union-typed record fields reachable from a type: [('Cls.field', n_alternatives)]."""
        out = []
        ty = parse_type(tyname) if isinstance(tyname, str) else tyname
        seen = seen if seen is not None else set()
        if ty[0] in ('opt', 'list'):
            return self.union_fields(ty[1], seen)
        if ty[0] == 'tuple':
            for t in ty[1]:
                out.extend(self.union_fields(t, seen))
            return out
        if ty[0] == 'obj' and ty[1] in C.RECORDS and ty[1] not in seen:
            seen.add(ty[1])
            for f, fty in C.RECORDS[ty[1]].items():
                ov = (self.cur_contract.opts.get('entry_types', {}) if self.cur_contract else {}).get('%s.%s' % (ty[1], f))
                p = parse_type(ov if ov is not None else fty)
                if p[0] == 'union':
                    out.append(('%s.%s' % (ty[1], f), len(p[1])))
                    for alt in p[1]:
                        out.extend(self.union_fields(alt, seen))
                elif '%s.%s' % (ty[1], f) in (self.cur_contract.opts.get('entry_types', {}) if self.cur_contract else {}):
                    pass
                else:
                    inner = self.nested_union(p)
                    if inner is not None:
                        out.append(('%s.%s' % (ty[1], f), len(inner[1])))
                    out.extend(self.union_fields(p, seen))
        return out

    def nested_union(self, ty):
        """The (single) union met inside opt/tuple wrappers of a type, expanded; None if there is none."""
        if ty[0] == 'excunder':
            return self.expand_type(ty)
        if ty[0] == 'union':
            return ty
        if ty[0] == 'opt':
            return self.nested_union(ty[1])
        if ty[0] == 'tuple':
            found = [u for u in (self.nested_union(t) for t in ty[1]) if u is not None]
            if len(found) > 1:
                raise Undecided('more than one union inside one field type')
            return found[0] if found else None
        return None

    def entry_states(self, c, fnode, fn):
        """Initial symbolic states: one per choice of Optional-None parameters and union alternatives."""
        import itertools
        ufields = []
        for pname, tyname in c.params.items():
            pty = parse_type(tyname)
            if pty[0] != 'union':
                inner = self.nested_union(pty)
                if inner is not None:
                    ufields.append(('param:' + pname, len(inner[1])))
            for item in self.union_fields(tyname):
                if item not in ufields:
                    ufields.append(item)
        defaults = self.defaults_of(fn) if fn is not None else {}
        names = [a.arg for a in fnode.args.posonlyargs + fnode.args.args + fnode.args.kwonlyargs]
        if 'region' in c.opts:
            # a region of a long function: the live-in locals are the declared parameters
            names = list(c.params)
        names = names + [n for n in c.opts.get('closure', {}) if n not in names]
        result = []
        for combo in itertools.product(*[range(n) for _, n in ufields]):
            self.union_choice = {name: k for (name, _), k in zip(ufields, combo)}
            sts = [State()]
            fid = sts[0].new_frame(None)
            sts[0].cur = fid
            for name in names:
                tyname = c.params.get(name) or c.opts.get('closure', {}).get(name)
                nxt = []
                for s in sts:
                    if tyname is None:
                        if name in defaults:
                            s.frames[fid][name] = self.lift(defaults[name], s)
                            nxt.append(s)
                            continue
                        raise Undecided('contract %s gives no type for parameter %s' % (c.qualname, name))
                    ty = parse_type(tyname)
                    alts = ty[1] if ty[0] == 'union' else [ty]
                    for k, alt in enumerate(alts):
                        s_k = s if k == len(alts) - 1 else s.copy()
                        if alt[0] == 'opt':
                            s2 = s_k.copy()
                            s2.frames[fid][name] = NONE
                            s_k.frames[fid][name] = self.fresh(alt[1], name, s_k, 'param:' + name)
                            nxt.extend([s_k, s2])
                        else:
                            s_k.frames[fid][name] = self.fresh(alt, name, s_k, 'param:' + name)
                            nxt.append(s_k)
                sts = nxt
            if 'closure' in c.opts and '.' in c.func:
                # a nested function: its sibling nested functions are callable (through their own contracts)
                outer = find_function(c.module, c.func.rsplit('.', 1)[0])
                if outer is not None:
                    for sub in ast.walk(outer):
                        if isinstance(sub, ast.FunctionDef) and sub is not fnode and sub is not outer:
                            for s in sts:
                                if sub.name not in s.frames[fid]:
                                    s.frames[fid][sub.name] = VFunc(sub, fid, {}, sub.name, c.module)
            for s in sts:
                # *args / **kwargs of the function under verification: empty (a precondition of the contract)
                if 'region' not in c.opts:
                    if fnode.args.kwarg is not None and fnode.args.kwarg.arg not in s.frames[fid]:
                        s.frames[fid][fnode.args.kwarg.arg] = s.alloc(HDict({}))
                    if fnode.args.vararg is not None and fnode.args.vararg.arg not in s.frames[fid]:
                        s.frames[fid][fnode.args.vararg.arg] = VTuple([])
                for gname, gty in c.globals.items():
                    modname, attr = gname.rsplit('.', 1)
                    s.globals[(modname, attr)] = self.fresh_result(parse_type(gty), attr, s)
                s.ghost['__union__'] = dict(self.union_choice)
            result.extend(sts)
        return result

    def rec_element(self, rl, i, st):
        """Read-only view of element i of a symbolic list of records: field f is (f_arr i)."""
        regs = dict(st.ghost.get('__reclists__', {}))
        regs[rl.base] = rl
        st.ghost['__reclists__'] = regs
        cache = st.ghost.setdefault('__views__', {})
        key = (rl.base, i.s)
        if key in cache and cache[key] in st.heap:
            return VRef(cache[key])
        fields = C.RECORDS.get(rl.cls)
        if fields is None:
            raise Undecided('no record declaration for %s' % rl.cls)
        vals = {}
        for f, fty in fields.items():
            p = parse_type(fty)
            vals[f] = self.field_fn(rl.base, f, p, i, st)
        ref = st.alloc(HInst(rl.cls, vals, view=(rl.base, i)))
        st.ghost['__views__'] = dict(cache)
        st.ghost['__views__'][key] = ref.loc
        return ref

    # ---- mutable fields of record-list elements -------------------------------------------------
    # A contract may declare opts['mutable_fields'] = ['Cls.field', ...] (primitive fields).  Such a field of element i of a
    # record list `base` is read as  updates applied to  fn(i),  where (fn, updates) is the list's current field state in
    # st.ghost['__recfields__'][(base, field)]; writing through an element view appends an update; a loop that declares
    # modifies=['field(xs, f)'] replaces fn by a fresh function (its invariant then describes it for all indices).
    def mutable_field(self, cls, f):
        c = self.cur_contract
        return c is not None and ('%s.%s' % (cls, f)) in c.opts.get('mutable_fields', ())

    def recfield_read(self, base, f, p, i, st):
        fn, ups = st.ghost.get('__recfields__', {}).get((base, f), ('%s_%s' % (base.replace('!', '_'), f), ()))
        t = self.ctx.app(self.ctx.fun(fn, [INT], sort_of(p)), i)
        for k, v in ups:
            t = Ite(Eq(i, k), v, t)
        return wrap(t, p)

    def recfield_write(self, base, f, i, v, st):
        d = dict(st.ghost.get('__recfields__', {}))
        fn, ups = d.get((base, f), ('%s_%s' % (base.replace('!', '_'), f), ()))
        d[(base, f)] = (fn, ups + ((i, v.t),))
        st.ghost['__recfields__'] = d

    def recfield_havoc(self, base, f, st):
        d = dict(st.ghost.get('__recfields__', {}))
        d[(base, f)] = (self.ctx.fresh_name('%s_%s_v' % (base.replace('!', '_'), f)), ())
        st.ghost['__recfields__'] = d

    def field_fn(self, base, f, p, i, st):
        from .symexec import VOptSym
        name = '%s_%s' % (base.replace('!', '_'), f)
        if p[0] == 'opt':
            isn = self.ctx.app(self.ctx.fun(name + '_isnone', [INT], BOOL), i)
            return VOptSym(isn, self.field_fn(base, f + '_v', p[1], i, st))
        if p[0] == 'none':
            return NONE
        if p[0] in ('int', 'bool', 'str', 'val'):
            return wrap(self.ctx.app(self.ctx.fun(name, [INT], sort_of(p)), i), p)
        if p[0] == 'list' and p[1][0] in ('int', 'bool', 'str'):
            return st.alloc(HList(self.ctx.app(self.ctx.fun(name, [INT], sort_of(p)), i), p[1]))
        if p[0] == 'reclist':
            # a list of records held by element i: its own length and per-element field functions (the symbols are
            # named after the index TERM: two syntactically different indices are treated as different elements)
            tag = ''.join(ch if ch.isalnum() else '_' for ch in i.s)
            n = self.ctx.app(self.ctx.fun(name + '_len', [INT], INT), i)
            st.assume(Ge(n, IntV(0)))
            return VRecList(n, p[1], '%s_at_%s' % (name, tag))
        if p[0] == 'obj' and p[1] in C.RECORDS:
            # nested record: its fields are functions of the same index
            vals = {g: self.field_fn(base, f + '__' + g, parse_type(gty), i, st) for g, gty in C.RECORDS[p[1]].items()}
            return st.alloc(HInst(p[1], vals, view=(base + '.' + f, i)))
        return VUntracked('field %s of an element of a record list (type %r)' % (f, p))

    def verify_function(self, c):
        """Generate all obligations of one function against its contract."""
        self.cur_contract = c
        self.cur_fn = c.qualname
        self.modname = c.module
        self.module = importlib.import_module(c.module)
        fnode = find_function(c.module, c.func)
        if fnode is None:
            raise Undecided('function %s not found in %s' % (c.func, source_of_module(c.module)))
        fn = self.real_function(c)
        self.loop_ordinals = {(n.lineno, n.col_offset): i for i, n in enumerate(loops_in(fnode))}
        for ordn in c.loops:
            if ordn >= len(self.loop_ordinals):
                raise Undecided('contract %s names loop #%d but the function has %d loops'
                                % (c.qualname, ordn, len(self.loop_ordinals)))
        n_before = len(self.obligations)
        n_normal = 0
        for st in self.entry_states(c, fnode, fn):
            params = dict(st.frames[st.cur])
            st.live_exc = VExc(BaseException, {}, tag='live')
            for name, text in c.requires:
                st.assume(self.clause(text, st, params))
            if not self.feasible(st):
                continue
            for h in c.hints:
                self.apply_hint(h, st)
            self.entry_state = st.copy()
            self.covers.append(self.oblige('reach', 'requires', st, TRUE, fnode, expect='sat'))
            for name, text in c.reach:
                self.covers.append(self.oblige('reach', name, st, self.clause(text, st, params), fnode, expect='sat'))
            entry = self.entry_state
            for kind, payload, s in self.run_block(self.region_body(c, fnode), st):
                self.stats['paths'] += 1
                self.iter_state = s.ghost.get('__last_iter__')
                if c.modifies is not None:
                    self.check_frame(c, entry, s, params, fnode, kind)
                if kind in ('normal', 'return'):
                    n_normal += 1
                    if n_normal <= int(os.environ.get('PYVC_EXIT_COVERS', '6')):
                        # the hypotheses of (some) normal exits must be satisfiable: an `unsat` here means a contradictory
                        # contract / axiom set or an unsound solver answer -- everything would be "proved" from it
                        self.covers.append(self.oblige('reach', 'normal-exit', s, TRUE, fnode, expect='sat'))
                    result = NONE if kind == 'normal' else payload
                    b = dict(params)
                    b['result'] = result
                    for name, text in c.ensures:
                        self.oblige('post', name, s, self.clause(text, s, b, old=entry), fnode)
                    for clsname, when in c.raises.items():
                        if when is not None and not clsname.endswith('?'):
                            self.oblige('post', 'no-%s' % clsname.rstrip('*'), s,
                                        Not(self.clause(when, s, b, old=entry)), fnode)
                    # facts about the function's own locals at a normal exit (not visible to callers)
                    for name, text in c.opts.get('exit_facts', ()):
                        self.oblige('exit-fact', name, s, self.inv_clause(text, s, entry), fnode)
                elif kind == 'raise':
                    self.check_raise(c, payload, s, params, entry, fnode)
                else:
                    raise Undecided('break/continue escaped %s' % c.qualname)
        if n_normal == 0 and not c.opts.get('never_returns'):
            # vacuity guard: a function all of whose paths raise or are infeasible proves every postcondition
            raise Undecided('no path of %s returns normally (modelling gap or contradictory requires)' % c.qualname)
        return self.obligations[n_before:]

    def region_body(self, c, fnode):
        """The statements under verification: the whole body, or -- for a contract with opts['region'] --
        the top-level statements from the one whose source starts with region['from'] to the end,
        minus those whose source starts with an entry of region['drop'] (mechanical extraction;
        what is dropped is stated by the contract and repeated in the evidence)."""
        reg = c.opts.get('region')
        if not reg:
            return fnode.body
        srcs = [ast.unparse(n) for n in fnode.body]
        starts = [k for k, t in enumerate(srcs) if t.startswith(reg['from'])]
        if len(starts) != 1:
            raise Undecided('region start %r found %d times in %s' % (reg['from'], len(starts), c.qualname))
        out = []
        dropped = set()
        drops = tuple(reg.get('drop', ()))

        class Drop(ast.NodeTransformer):
            def generic_visit(self, node):
                for field in ('body', 'orelse', 'finalbody'):
                    stmts = getattr(node, field, None)
                    if isinstance(stmts, list) and stmts and isinstance(stmts[0], ast.stmt):
                        kept = []
                        for st_ in stmts:
                            src = ast.unparse(st_)
                            hit = [d for d in drops if src.startswith(d)]
                            if hit:
                                dropped.update(hit)
                                continue
                            kept.append(self.visit(st_))
                        if not kept and field == 'body':
                            kept = [ast.copy_location(ast.Pass(), stmts[0])]
                        setattr(node, field, kept)
                for h in getattr(node, 'handlers', []) or []:
                    self.visit(h)
                return node

        import copy as _copy
        # imports and nested function definitions made earlier in the function stay (they only bind names)
        for k in range(0, starts[0]):
            if isinstance(fnode.body[k], (ast.Import, ast.ImportFrom, ast.FunctionDef)):
                out.append(fnode.body[k])
        for k in range(starts[0], len(srcs)):
            hit = [d for d in drops if srcs[k].startswith(d)]
            if hit:
                dropped.update(hit)
                continue
            out.append(Drop().visit(_copy.deepcopy(fnode.body[k])))
        missing = set(drops) - dropped
        if missing:
            raise Undecided('region of %s: statements to drop not found: %r' % (c.qualname, sorted(missing)))
        self.trusted_used.add('region:%s verified from %r to the end of the function, dropping %r; live-in locals are parameters'
                              % (c.qualname, reg['from'], list(reg.get('drop', ()))))
        return out

    def check_frame(self, c, entry, s, params, fnode, kind):
        """Frame obligations: every heap object / global cell that existed at entry and is not named
        by ``modifies`` is unchanged at this exit."""
        allowed_locs = set()
        allowed_fields = set()
        allowed_globals = set()
        allowed_recfields = set()
        for expr in c.modifies:
            if expr.startswith('field(') and expr.endswith(')'):
                lst_txt, fname_ = [x.strip() for x in expr[6:-1].rsplit(',', 1)]
                es0 = self.clause_state(entry, params)
                self.pure += 1
                try:
                    lv = self.ev1(ast.parse(lst_txt, mode='eval').body, es0)
                finally:
                    self.pure -= 1
                if not isinstance(lv, VRecList):
                    raise Undecided('modifies %r: not a record list' % expr)
                allowed_recfields.add((lv.base, fname_))
                continue
            if expr.startswith('flags(') and expr.endswith(')'):
                expr = expr[6:-1]       # the dict object (its REQUIRES set is a separate heap object and stays framed)
            if expr.startswith('obj(') and expr.endswith(')'):
                expr = expr[4:-1]
                es0 = self.clause_state(entry, params)
                self.pure += 1
                try:
                    v0 = self.ev1(ast.parse(expr, mode='eval').body, es0)
                finally:
                    self.pure -= 1
                if isinstance(v0, VRef):
                    allowed_locs.add(v0.loc)
                    o0_ = entry.heap.get(v0.loc)
                    if type(o0_).__name__ == 'HFlagDict':
                        allowed_locs.add(o0_.req.loc)
                continue
            if expr in c.globals:
                key = tuple(expr.rsplit('.', 1))
                allowed_globals.add(key)
                if isinstance(entry.globals.get(key), VRef):
                    allowed_locs.add(entry.globals[key].loc)    # the object the cell refers to may be mutated
                continue
            n = ast.parse(expr, mode='eval').body
            es = self.clause_state(entry, params)
            self.pure += 1
            try:
                if isinstance(n, ast.Attribute):
                    owner = self.ev1(n.value, es)
                    if isinstance(owner, VRef) and isinstance(entry.heap.get(owner.loc), HInst):
                        allowed_fields.add((owner.loc, n.attr))
                        # the object a modifiable field points to may be mutated as well
                        tgt = entry.heap[owner.loc].fields.get(n.attr)
                        if isinstance(tgt, VRef):
                            allowed_locs.add(tgt.loc)
                        continue
                v = self.ev1(n, es)
            finally:
                self.pure -= 1
            if isinstance(v, VRef):
                allowed_locs.add(v.loc)
        tag = '' if kind in ('normal', 'return') else '@raise'

        def same(a, b):
            if a is b:
                return TRUE
            if isinstance(a, VOptSym):
                # the exit value may be the narrowed form of the entry value (after `x is None` tests)
                if isinstance(b, VNone):
                    return a.isnone
                if isinstance(b, VOptSym):
                    return And(Eq(a.isnone, b.isnone), Or(a.isnone, same(a.val, b.val)))
                return And(Not(a.isnone), same(a.val, b))
            if isinstance(b, VOptSym):
                return FALSE
            if isinstance(a, VTuple) and isinstance(b, VTuple) and len(a.items) == len(b.items):
                return And(*[same(x, y) for x, y in zip(a.items, b.items)])
            if isinstance(a, VExc) or isinstance(b, VExc):
                return BoolV(a is b)
            if isinstance(a, VRef) and isinstance(b, VRef):
                return BoolV(a.loc == b.loc)
            if hasattr(a, 't') and hasattr(b, 't') and type(a) is type(b):
                return Eq(a.t, b.t)
            try:
                return self.v_is(a, b, s)
            except Undecided:
                return FALSE
        rf0 = entry.ghost.get('__recfields__', {})
        for key_, val_ in s.ghost.get('__recfields__', {}).items():
            if rf0.get(key_) != val_ and key_ not in allowed_recfields:
                self.oblige('frame', 'field-%s-of-the-elements-of-%s%s' % (key_[1], key_[0].split('!')[0], tag), s, FALSE, fnode,
                            note='elements of a record list are written but the contract does not name field(%s, %s)' % key_)
        for loc, o0 in entry.heap.items():
            o1 = s.heap.get(loc)
            if o1 is o0 or loc in allowed_locs:
                continue
            name = 'obj%d' % loc
            if isinstance(o0, HInst) and isinstance(o1, HInst):
                for f in sorted(set(o0.fields) | set(o1.fields)):
                    if (loc, f) in allowed_fields:
                        continue
                    a, b = o0.fields.get(f), o1.fields.get(f)
                    if a is None or b is None:
                        g = FALSE
                    else:
                        g = same(a, b)
                    if g.lit is not None and g.lit[1]:
                        continue
                    self.oblige('frame', '%s.%s%s' % (o0.cls, f, tag), s, g, fnode,
                                note='field %s of a %s object is not in modifies' % (f, o0.cls))
            elif isinstance(o0, HList) and isinstance(o1, HList):
                self.oblige('frame', name + tag, s, Eq(o0.seq, o1.seq), fnode, note='list not in modifies')
            elif isinstance(o0, HSet) and isinstance(o1, HSet):
                self.oblige('frame', name + tag, s, Eq(o0.arr, o1.arr), fnode, note='set not in modifies')
            elif type(o0).__name__ == 'HFlagDict' and type(o1).__name__ == 'HFlagDict':
                from . import flagdict
                g = And(self.v_eq(flagdict.flags_value(o0), flagdict.flags_value(o1), s), BoolV(o0.req.loc == o1.req.loc))
                self.oblige('frame', name + tag, s, g, fnode, note='state dict not in modifies')
            elif isinstance(o0, HMap) and isinstance(o1, HMap):
                self.oblige('frame', name + tag, s, And(Eq(o0.present, o1.present), Eq(o0.vals, o1.vals)), fnode)
            elif isinstance(o0, HDict) and isinstance(o1, HDict):
                if set(o0.entries) != set(o1.entries):
                    self.oblige('frame', name + '-keys' + tag, s, FALSE, fnode, note='dict key set changed')
                else:
                    for k in o0.entries:
                        g = same(o0.entries[k], o1.entries[k])
                        if not (g.lit is not None and g.lit[1]):
                            self.oblige('frame', '%s[%s]%s' % (name, k, tag), s, g, fnode, note='dict entry not in modifies')
            else:
                self.oblige('frame', name + tag, s, FALSE, fnode, note='object changed shape')
        for key, v0 in entry.globals.items():
            if key in allowed_globals:
                continue
            v1 = s.globals.get(key)
            g = same(v0, v1) if v1 is not None else FALSE
            if not (g.lit is not None and g.lit[1]):
                self.oblige('frame', '%s.%s%s' % (key[0], key[1], tag), s, g, fnode,
                            note='process-global %s.%s is not in modifies' % key)

    def check_raise(self, c, exc, s, params, entry, fnode):
        b = dict(params)
        b['exc'] = exc
        matched = False
        for clsname, when in c.raises.items():
            base = clsname.rstrip('*?')
            if base == 'LIVE':
                ok = exc.tag == 'live'
            else:
                cls = self.exc_class(base)
                ok = exc.tag != 'live' and cls is not None and issubclass(exc.cls, cls)
            if ok:
                matched = True
                g = TRUE if when is None else self.clause(when, s, b, old=entry)
                self.oblige('raises', clsname.rstrip('*?'), s, g, fnode,
                            note='exception %r escapes' % (exc,))
                break
        if not matched:
            self.oblige('raises', 'unexpected-%s' % ('LIVE' if exc.tag == 'live' else exc.cls.__name__), s, FALSE, fnode,
                        note='exception %r escapes but the contract does not allow it' % (exc,))

    # ---------------------------------------------------------------- lemmas
    def lemma_vars(self, lm, as_bound):
        from .symexec import State
        st = State()
        fid = st.new_frame(None)
        st.cur = fid
        vs = []
        for name, tyname in lm.forall.items():
            ty = parse_type(tyname)
            sort = sort_of(ty)
            t = smt.bound(self.ctx, name, sort) if as_bound else self.ctx.fresh(name, sort)
            vs.append(t)
            st.frames[fid][name] = wrap(t, ty)
        return st, vs

    def lemma_term(self, lm):
        """The lemma as a quantified hypothesis (with its trigger patterns)."""
        st, vs = self.lemma_vars(lm, True)
        b = dict(st.frames[st.cur])
        saved = (self.module, self.modname)
        self.module, self.modname = importlib.import_module('specs'), 'specs'
        try:
            pre = And(*[self.clause(t, st, b) for _, t in lm.requires])
            post = And(*[self.clause(t, st, b) for _, t in lm.ensures])
            pats = []
            for pat in (lm.patterns or []):
                pats.append([self.term(t, st, b).t for t in pat])
        finally:
            self.module, self.modname = saved
        return smt.ForAll(vs, Implies(pre, post), patterns=pats)

    def verify_lemma(self, lm):
        """Obligations proving a lemma over spec functions (optionally by induction)."""
        self.cur_contract = None
        self.cur_fn = 'lemma:' + lm.name
        self.module, self.modname = importlib.import_module('specs'), 'specs'
        n_before = len(self.obligations)
        st, vs = self.lemma_vars(lm, False)
        b = dict(st.frames[st.cur])
        for _, t in lm.requires:
            st.assume(self.clause(t, st, b))
        if lm.induction:
            # induction hypothesis: the lemma itself for every smaller measure
            ih_st, ih_vs = self.lemma_vars(lm, True)
            ib = dict(ih_st.frames[ih_st.cur])
            pre = And(*[self.clause(t, ih_st, ib) for _, t in lm.requires])
            post = And(*[self.clause(t, ih_st, ib) for _, t in lm.ensures])
            m_ih = self.term(lm.induction['measure'], ih_st, ib).t
            m_cur = self.term(lm.induction['measure'], st, b).t
            pats = [[self.term(t, ih_st, ib).t for t in pat] for pat in (lm.patterns or [])]
            st.assume(smt.ForAll(ih_vs, Implies(And(Ge(m_ih, IntV(0)), Lt(m_ih, m_cur), pre), post), patterns=pats))
        for h in lm.hints:
            self.apply_hint(h, st)
        self.covers.append(self.oblige('reach', 'requires', st, TRUE, None, expect='sat'))
        for name, t in lm.ensures:
            ob = self.oblige('lemma', name, st, self.clause(t, st, b), None)
            ob.fuel = lm.fuel
        return self.obligations[n_before:]

    def apply_hint(self, h, st):
        kind, _, rest = h.partition(' ')
        if kind == 'lemma':
            lm = C.LEMMAS[rest.strip()]
            st.assume(self.lemma_term(lm))
            self.lemmas_used.add(lm.name)
        else:
            raise Undecided('unknown hint %r' % h)

    lemmas_used = set()
    pat_stack = []

    def note_pattern(self, t, idx):
        """Remember an element access indexed exactly by an enclosing bound variable (trigger candidate)."""
        for var, cands in self.pat_stack:
            if idx.s == var.s:
                cands.append(t)

    def real_function(self, c):
        obj = self.module
        try:
            for part in c.func.split('.'):
                obj = vars(obj)[part] if isinstance(obj, type) else getattr(obj, part)
        except (AttributeError, KeyError):
            return None
        if isinstance(obj, (staticmethod, classmethod)):
            obj = obj.__func__
        if isinstance(obj, property):
            obj = obj.fget
        return obj


ALWAYS_INLINE = {
    'xdoctest.doctest_example:DocTest.valid_testnames',
    'xdoctest.doctest_example:DocTest.unique_callname',
    'xdoctest.doctest_example:DocTest._block_prefix',
    'xdoctest.parser:_hasprefix',
    'xdoctest.doctest_part:DoctestPart.want',
    'xdoctest.doctest_part:DoctestPart.n_lines',
    'xdoctest.doctest_part:DoctestPart.n_exec_lines',
    'xdoctest.doctest_part:DoctestPart.n_want_lines',
    'xdoctest.doctest_part:DoctestPart.source',
}


def StrV_(k):
    return VStr(StrV(k))


class VUntracked(V):
    """A value the engine does not track; any use makes the function undecided."""

    def __init__(self, what):
        self.what = what

    def __repr__(self):
        return 'VUntracked(%s)' % self.what


class VIter(V):
    def __init__(self, items):
        self.items = items


class VRecList(V):
    """Symbolic-length list of records; field f of element i is (f_arr i)."""

    def __init__(self, n, cls, base, full_n=None):
        self.n = n
        self.cls = cls
        self.base = base
        self.full_n = full_n if full_n is not None else n    # length of the underlying list (n < full_n for a prefix)

    def getter(self, eng):
        def get(i, st):
            return eng.rec_element(self, i, st)
        return get


class VCtxMgr(V):
    def __init__(self, enter, exit):
        self.enter = enter
        self.exit = exit


class VExcInfo(V):
    """sys.exc_info() triple."""

    def __init__(self, exc):
        self.exc = exc

    def items(self, n=3):
        assert n == 3
        tb = self.exc.attrs.get('__tb__')
        if tb is None:
            smt.CTX.sort('Val')
            tb = VVal(smt.CTX.fresh('tb', 'Val'))
            self.exc.attrs['__tb__'] = tb
        return [VPy(self.exc.cls), self.exc, tb]
