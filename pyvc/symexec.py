"""
pyvc.symexec -- forward symbolic execution of real Python function bodies
(taken from /repo with ``ast`` on every run) against sidecar contracts.

Part 1: state, name resolution, expression evaluation.
"""
import ast
import builtins
import importlib
import os
import sys
import types

from . import smt
from .smt import (T, INT, BOOL, STR, IntV, BoolV, StrV, TRUE, FALSE, And, Or, Not,
                  Implies, Ite, Eq, Ne, Add, Sub, Mul, Lt, Le, Gt, Ge, Len, Concat,
                  Substr, At, Contains, PrefixOf, SuffixOf, Max, Min)
from .vals import (VEmptyList, EMPTY_LIST, Undecided, V, VInt, VBool, VStr, VNone, NONE, VVal, VSeq, VTuple,
                   VRef, VFunc, VPy, VBound, VExc, Raised, HList, HPyList, HDict,
                   HSet, HInst, HObjList, HMap, HRecSeq, HIdxList, HOpaque, parse_type, sort_of, wrap, T_INT, T_BOOL, T_STR,
                   T_NONE, T_VAL)
from . import contracts as C


def repo_root():
    return os.environ.get('VERIF_REPO', '/repo')


# ------------------------------------------------------------------- state

class State(object):
    """One symbolic path: frames, heap, path condition."""

    def __init__(self):
        self.frames = {}        # frame id -> {name: V}
        self.parents = {}       # frame id -> parent frame id (closures)
        self.cur = None         # current frame id
        self.heap = {}          # loc -> heap object
        self.pc = []            # [T]
        self.alts = []          # [(variant, T)] alternative encodings of builtin facts
        self.handling = []      # stack of exceptions being handled (for bare raise)
        self.live_exc = None    # exception active at function entry (bare raise outside handler)
        self.ghost = {}         # ghost variables (loop indices, traces)
        self.nloc = [1000]
        self.depth = 0
        self.globals = {}       # (module name, attribute) -> V : mutable process-global cells
        self.events = []        # ghost log of calls to contracted / external functions

    def copy(self):
        s = State.__new__(State)
        s.frames = {k: dict(v) for k, v in self.frames.items()}
        s.parents = dict(self.parents)
        s.cur = self.cur
        s.heap = dict(self.heap)
        s.pc = list(self.pc)
        s.alts = list(self.alts)
        s.handling = list(self.handling)
        s.live_exc = self.live_exc
        s.ghost = dict(self.ghost)
        s.nloc = self.nloc
        s.depth = self.depth
        s.globals = dict(self.globals)
        s.events = list(self.events)
        s.feas_mark = getattr(self, 'feas_mark', -1)
        return s

    def assume(self, t):
        if t.lit is not None and t.lit[1]:
            return
        self.pc.append(t)

    def alloc(self, obj):
        self.nloc[0] += 1
        loc = self.nloc[0]
        self.heap[loc] = obj
        return VRef(loc)

    def new_frame(self, parent=None):
        self.nloc[0] += 1
        fid = self.nloc[0]
        self.frames[fid] = {}
        self.parents[fid] = parent
        return fid

    def lookup(self, name):
        fid = self.cur
        while fid is not None:
            fr = self.frames[fid]
            if name in fr:
                return fr[name]
            fid = self.parents.get(fid)
        return None

    def bind(self, name, v):
        self.frames[self.cur][name] = v

    def rebind_existing(self, name, v):
        """Assignment to a nonlocal: write into the frame that holds it."""
        fid = self.cur
        while fid is not None:
            if name in self.frames[fid]:
                self.frames[fid][name] = v
                return True
            fid = self.parents.get(fid)
        return False


class Obligation(object):
    def __init__(self, oid, kind, fn, line, hyps, alts, goal, note='', expect='unsat', fuel=1):
        self.id = oid
        self.kind = kind
        self.fn = fn
        self.line = line
        self.hyps = list(hyps)
        self.alts = list(alts)
        self.goal = goal
        self.note = note
        self.expect = expect
        self.fuel = fuel

    def texts(self, ctx):
        """SMT-LIB text per encoding variant."""
        variants = sorted(set(v for v, _ in self.alts)) or ['core']
        out = []
        for v in variants:
            hyps = self.hyps + [t for (vv, t) in self.alts if vv == v]
            if self.expect == 'unsat':
                out.append(smt.build_query(ctx, hyps, self.goal, fuel=self.fuel))
            else:
                out.append(smt.build_query(ctx, hyps + [self.goal], None, fuel=self.fuel))
        return out


PURE_BUILTINS = None


def _pure_natives():
    """Python callables that may be evaluated natively when every argument is concrete."""
    import re as _re
    global PURE_BUILTINS
    if PURE_BUILTINS is None:
        PURE_BUILTINS = {len, str, int, bool, repr, min, max, abs, sorted, tuple, list,
                         _re.escape, _re.compile, str.format, str.join, str.lower, str.upper,
                         str.strip, str.replace, str.split, isinstance, chr, ord, range}
    return PURE_BUILTINS


# ------------------------------------------------------------------ engine

class Engine(object):
    def __init__(self, ctx=None):
        self.ctx = ctx or smt.CTX
        self.obligations = []
        self.cur_contract = None
        self.cur_fn = None
        self.modname = None
        self.module = None
        self.pure = 0               # >0 while translating contract clauses / spec bodies
        self.models = {}            # python object -> model callable
        self.method_models = {}     # (type kind, name) -> callable
        self.sat_cache = {}
        self.stats = {'paths': 0, 'pruned': 0, 'sat_checks': 0}
        self.covers = []
        self.trusted_used = set()
        self.loop_ordinals = {}
        self.spec_module = None
        self.old_state = None
        self.result_value = None
        self.exc_value = None
        self.max_paths = int(os.environ.get('PYVC_MAX_PATHS', '4000'))
        from . import models, models_run  # noqa: models_run registers the oracles used by DocTest.run
        models.install(self)
        try:
            models_run.install_repo_models(self)
        except ImportError:
            pass

    # ---- obligations ----------------------------------------------------
    def oblige(self, kind, name, st, goal, node=None, note='', expect='unsat'):
        line = getattr(node, 'lineno', None) if node is not None else None
        fn = self.cur_fn or '?'
        oid = '%s::%s:%s' % (fn, kind, name) + ('@L%s' % line if line else '')
        base, n = oid, 1
        used = self._oids if hasattr(self, '_oids') else set()
        self._oids = used
        while oid in used:
            n += 1
            oid = '%s#%d' % (base, n)
        used.add(oid)
        if goal.lit is not None and goal.lit[1] and expect == 'unsat':
            # trivially true: still counted, recorded as discharged by folding
            ob = Obligation(oid, kind, fn, line, [], [], goal, note + ' [folded]', expect)
        else:
            ob = Obligation(oid, kind, fn, line, st.pc, st.alts, goal, note, expect,
                            fuel=(self.cur_contract.opts.get('fuel', 1) if self.cur_contract else 1))
        self.obligations.append(ob)
        return ob

    # ---- term naming ------------------------------------------------------
    ABBREV_LIMIT = 90

    def abbrev(self, t, st, base='t'):
        """Name a large term: fresh constant + defining equation in the path condition."""
        if t.lit is not None or len(t.s) <= self.ABBREV_LIMIT:
            return t
        if any(x.startswith('?') for x in t.syms):
            return t
        cache = self.__dict__.setdefault('_abbrev', {})
        c = cache.get(t.s)
        if c is None:
            c = self.ctx.fresh(base, t.sort)
            cache[t.s] = c
        st.assume(Eq(c, t))
        snoc = self.ctx.__dict__.setdefault('snoc', {})
        if t.s in snoc:
            snoc[c.s] = snoc[t.s]        # the name stands for prefix ++ [x] too
        return c

    def compact_value(self, v, st, base):
        if isinstance(v, (VInt, VBool, VStr, VVal)):
            t = self.abbrev(v.t, st, base)
            return v if t is v.t else type(v)(t)
        if isinstance(v, VSeq):
            t = self.abbrev(v.t, st, base)
            return v if t is v.t else VSeq(t, v.elem)
        if isinstance(v, VTuple):
            return VTuple([self.compact_value(i, st, base) for i in v.items])
        return v

    def compact(self, st):
        """Abbreviate large terms held by local variables and heap objects."""
        if self.pure:
            return
        fr = st.frames.get(st.cur)
        if fr is not None:
            for k, v in list(fr.items()):
                nv = self.compact_value(v, st, k)
                if nv is not v:
                    fr[k] = nv
        for loc, o in list(st.heap.items()):
            if isinstance(o, HList) and len(o.seq.s) > self.ABBREV_LIMIT:
                st.heap[loc] = HList(self.abbrev(o.seq, st, 'lst'), o.elem)
            elif isinstance(o, HInst):
                changed = None
                for k, v in o.fields.items():
                    nv = self.compact_value(v, st, k)
                    if nv is not v:
                        changed = changed or dict(o.fields)
                        changed[k] = nv
                if changed:
                    st.heap[loc] = HInst(o.cls, changed, o.view)
            elif isinstance(o, HSet) and len(o.arr.s) > self.ABBREV_LIMIT:
                st.heap[loc] = HSet(self.abbrev(o.arr, st, 'set'))

    # ---- feasibility ----------------------------------------------------
    def feasible(self, st, extra=None):
        if (extra is None or (extra.lit is not None and extra.lit[1])) and getattr(st, 'feas_mark', -1) == len(st.pc):
            return True         # nothing was assumed since the last successful check of this path
        r = self._feasible(st, extra)
        if r and extra is None:
            st.feas_mark = len(st.pc)
        return r

    def _feasible(self, st, extra=None):
        hyps = st.pc + ([extra] if extra is not None else [])
        for h in hyps:
            if h.lit is not None and not h.lit[1]:
                return False
        if os.environ.get('PYVC_NOPRUNE'):
            return True
        # only the cheap core facts are used for pruning (no quantified alts, no quantified hypotheses:
        # dropping hypotheses can only make pruning weaker, never unsound)
        hyps = [h for h in hyps if '(forall ' not in h.s and '(exists ' not in h.s]
        key = '\n'.join(sorted(set(h.s for h in hyps)))
        r = self.sat_cache.get(key)
        if r is None:
            from . import solve
            text = smt.build_query(self.ctx, hyps, None, fuel=0, with_axioms=False)
            self.stats['sat_checks'] += 1
            r = solve.quick_sat(text, int(os.environ.get('PYVC_PRUNE_MS', '15')))
            if os.environ.get('PYVC_PROGRESS') and self.stats['sat_checks'] % 200 == 0:
                print('progress: %d feasibility checks, %d pruned, %d obligations' % (self.stats['sat_checks'], self.stats['pruned'], len(self.obligations)), flush=True)
            self.sat_cache[key] = r
        if r == 'unsat':
            self.stats['pruned'] += 1
            return False
        return True

    def known(self, st, cond):
        """True / False if the condition (or its negation) is literally a conjunct of the path condition, else None.
        Used to keep specification terms small: a spec-level `if flag:` on a path that already branched on the same flag."""
        if cond.lit is not None:
            return cond.lit[1]
        atoms = getattr(st, '_atoms', None)
        if atoms is None or atoms[0] != len(st.pc):
            atoms = (len(st.pc), set(h.s for h in st.pc))
            st._atoms = atoms
        if cond.s in atoms[1]:
            return True
        if Not(cond).s in atoms[1]:
            return False
        return None

    def fork_on(self, st, cond):
        """Split the path on a Bool term; returns [(True, st1), (False, st2)] (feasible ones)."""
        if cond.lit is not None:
            return [(cond.lit[1], st)]
        out = []
        ncond = Not(cond)
        # syntactic fast path: the condition (or its negation) is already a conjunct of the path condition
        atoms = getattr(st, '_atoms', None)
        if atoms is None or atoms[0] != len(st.pc):
            atoms = (len(st.pc), set(h.s for h in st.pc))
            st._atoms = atoms
        if cond.s in atoms[1]:
            return [(True, st)]
        if ncond.s in atoms[1]:
            return [(False, st)]
        t_ok = self.feasible(st, cond)
        f_ok = self.feasible(st, ncond)
        if t_ok and f_ok:
            s1, s2 = st, st.copy()
            s1.assume(cond)
            s2.assume(ncond)
            s1.feas_mark = len(s1.pc)
            s2.feas_mark = len(s2.pc)
            return [(True, s1), (False, s2)]
        if t_ok:
            st.assume(cond)
            st.feas_mark = len(st.pc)
            return [(True, st)]
        if f_ok:
            st.assume(ncond)
            st.feas_mark = len(st.pc)
            return [(False, st)]
        return []

    # ---- values ---------------------------------------------------------
    def lift(self, obj, st):
        """Concrete Python object -> symbolic value."""
        if obj is None:
            return NONE
        if isinstance(obj, bool):
            return VBool(BoolV(obj))
        if isinstance(obj, int):
            return VInt(IntV(obj))
        if isinstance(obj, str):
            return VStr(StrV(obj))
        if type(obj) is tuple and all(isinstance(x, (str, int, bool, type(None), tuple)) for x in obj):
            return VTuple([self.lift(x, st) for x in obj])
        if isinstance(obj, list) and st is not None and all(isinstance(x, (str, int, bool, type(None), tuple)) for x in obj):
            return st.alloc(HPyList([self.lift(x, st) for x in obj]))
        return VPy(obj)

    def concrete(self, v, st=None):
        """(True, python value) if the value is fully concrete."""
        if isinstance(v, (VInt, VBool, VStr)):
            if v.t.lit is not None:
                return True, v.t.lit[1]
            return False, None
        if isinstance(v, VNone):
            return True, None
        if isinstance(v, VPy):
            return True, v.obj
        if isinstance(v, VTuple):
            vals = [self.concrete(i, st) for i in v.items]
            if all(ok for ok, _ in vals):
                return True, tuple(x for _, x in vals)
            return False, None
        if isinstance(v, VRef) and st is not None:
            o = st.heap.get(v.loc)
            if isinstance(o, HPyList):
                vals = [self.concrete(i, st) for i in o.items]
                if all(ok for ok, _ in vals):
                    return True, [x for _, x in vals]
        return False, None

    def fresh(self, ty, base, st, ukey=None):
        """A fresh symbolic value of a declared type.  ``ukey`` names the union choice that applies
        to a union met inside the type (record field 'Cls.field' or 'param:name')."""
        k = ty[0]
        if k == 'excunder':
            ty = self.expand_type(ty)
            k = ty[0]
        if k == 'union':
            choice = self.union_choice.get(ukey)
            if choice is None:
                raise Undecided('union type %r needs an alternative (entry_states), key %r' % (ty, ukey))
            return self.fresh(ty[1][choice], base, st, ukey)
        if k == 'exc':
            cls = ty[1] if isinstance(ty[1], type) else self.exc_class(ty[1])
            if cls is None:
                raise Undecided('unknown exception class %r' % (ty[1],))
            return VExc(cls, {}, tag='param')
        if k in ('int', 'bool', 'str', 'val'):
            return wrap(self.ctx.fresh(base, sort_of(ty)), ty)
        if k == 'none':
            return NONE
        if k == 'list':
            if ty[1][0] in ('int', 'bool', 'str', 'list'):
                return st.alloc(HList(self.ctx.fresh(base, sort_of(ty)), ty[1]))
            raise Undecided('fresh list of %r' % (ty[1],))
        if k == 'tuple':
            return VTuple([self.fresh(t, '%s_%d' % (base, i), st, ukey) for i, t in enumerate(ty[1])])
        if k == 'obj':
            fields = C.RECORDS.get(ty[1])
            if fields is None:
                raise Undecided('no record declaration for class %s' % ty[1])
            vals = {}
            overrides = self.cur_contract.opts.get('entry_types', {}) if self.cur_contract is not None else {}
            for f, fty in fields.items():
                fkey = '%s.%s' % (ty[1], f)
                # a contract may widen the entry type of a field it does not read (e.g. to an opaque Optional[Val])
                fty_p = parse_type(overrides.get(fkey, fty))
                choice = self.union_choice.get(fkey) if fty_p[0] == 'union' else None
                if fty_p[0] == 'union':
                    if choice is None:
                        raise Undecided('union-typed field %s.%s needs an alternative (entry_states)' % (ty[1], f))
                    fty_p = fty_p[1][choice]
                if fty_p[0] == 'opt':
                    # optional fields: represented by a pair (is-none flag, value)
                    vals[f] = VOptSym(self.ctx.fresh('%s_%s_isnone' % (base, f), BOOL),
                                      self.fresh(fty_p[1], '%s_%s' % (base, f), st, fkey))
                else:
                    vals[f] = self.fresh(fty_p, '%s_%s' % (base, f), st, fkey)
            return st.alloc(HInst(ty[1], vals))
        if k == 'map':
            ks, vs = sort_of(ty[1]), sort_of(ty[2])
            return st.alloc(HMap(self.ctx.fresh(base + '_has', '(Array %s Bool)' % ks),
                                 self.ctx.fresh(base + '_val', '(Array %s %s)' % (ks, vs)), ty[2]))
        if k == 'reclist':
            from .executor import VRecList
            n = self.ctx.fresh(base + '_len', INT)
            st.assume(Ge(n, IntV(0)))
            return VRecList(n, ty[1], self.ctx.fresh_name(base))
        if k == 'const':
            return VStr(StrV(ty[1]))
        if k == 'flagdict':
            from . import flagdict
            return flagdict.fresh(self, base, st)
        if k == 'idxlist':
            # references into some record list the caller cannot see: only the index sequence is known
            return st.alloc(HIdxList(None, self.ctx.fresh(base + '_idx', '(Seq Int)')))
        if k == 'recseq':
            from . import reclists
            return reclists.fresh_recseq(self, ty[1], base, st)
        if k == 'logger':
            from . import models
            return VPy(models.NOOP_CALLABLE)
        if k in ('opt', 'optsym'):
            return VOptSym(self.ctx.fresh(base + '_isnone', BOOL), self.fresh(ty[1], base, st, ukey))
        if k == 'dict':
            raise Undecided('fresh dict must be built by the contract (use record/initial state)')
        if k == 'set':
            arr = self.ctx.fresh(base, '(Array String Bool)')
            return st.alloc(HSet(arr))
        raise Undecided('cannot create fresh value of type %r' % (ty,))

    def expand_type(self, ty):
        """('excunder', Base) -> union of ('exc', cls): Base itself plus one representative subclass per
        behaviour that the function under verification / its contract can distinguish."""
        if ty[0] != 'excunder':
            return ty
        base = self.exc_class(ty[1])
        if base is None:
            raise Undecided('unknown exception class %r' % (ty[1],))
        classes = [base] + list(self.subclasses_of(base))
        return ('union', tuple(('exc', c) for c in classes))

    def seq_of(self, v, st):
        """Seq term and element type of a list-like value."""
        if isinstance(v, VOptSym) and self.pure:
            v = v.val       # spec level: an Optional list stands for its value (None excluded by requires)
        if isinstance(v, VSeq):
            return v.t, v.elem
        if isinstance(v, VRef):
            o = st.heap[v.loc]
            if isinstance(o, HInst) and o.cls in C.ASLIST:
                return self.seq_of(o.fields[C.ASLIST[o.cls]], st)      # the object used as the list it is
            if isinstance(o, HList):
                return o.seq, o.elem
            if isinstance(o, HIdxList):
                return o.idx, ('int',)
            if isinstance(o, HPyList):
                if not o.items:
                    raise Undecided('element type of empty concrete list unknown')
                items = [i.val if isinstance(i, VOptSym) and self.pure else i for i in o.items]
                o = HPyList(items)
                elem = o.items[0].ty
                if elem[0] not in ('int', 'bool', 'str'):
                    raise Undecided('concrete list of %r as Seq' % (elem,))
                seq = smt.Empty('(Seq %s)' % sort_of(elem))
                seq = Concat(*[smt.Unit(i.t) for i in o.items]) if o.items else seq
                return seq, elem
        if isinstance(v, VTuple) and v.items and all(isinstance(i, (VStr, VInt, VBool)) for i in v.items):
            elem = v.items[0].ty
            return Concat(*[smt.Unit(i.t) for i in v.items]), elem
        raise Undecided('not a sequence value: %r' % (v,))

    def truthy(self, v, st):
        if isinstance(v, VBool):
            return v.t
        if isinstance(v, VInt):
            return Ne(v.t, IntV(0))
        if isinstance(v, VStr):
            return Gt(Len(v.t), IntV(0))
        if isinstance(v, (VNone, VEmptyList)):
            return FALSE
        if isinstance(v, VSeq):
            return Gt(Len(v.t), IntV(0))
        if isinstance(v, VOptSym):
            return And(Not(v.isnone), self.truthy(v.val, st))
        if isinstance(v, VVal):
            self.trusted_used.add('builtin:bool(opaque value) (uninterpreted py_truthy)')
            return self.model_app('py_truthy', [v.t], BOOL)
        if isinstance(v, VTuple):
            return BoolV(len(v.items) > 0)
        if type(v).__name__ == 'VRecList':
            return Gt(v.n, IntV(0))
        if isinstance(v, VRef):
            o = st.heap[v.loc]
            if isinstance(o, HList):
                return Gt(Len(o.seq), IntV(0))
            if isinstance(o, HPyList):
                return BoolV(len(o.items) > 0)
            if isinstance(o, HObjList):
                return Gt(o.n, IntV(0))
            if isinstance(o, HRecSeq):
                return Gt(o.n, IntV(0))
            if isinstance(o, HIdxList):
                return Gt(Len(o.idx), IntV(0))
            if isinstance(o, HDict):
                return BoolV(len(o.entries) > 0)
            if isinstance(o, HInst):
                return TRUE
            from . import flagdict as _fd
            if isinstance(o, _fd.HFlagDict):
                return Not(Eq(o.present, _fd.const_arr(False)))
        if isinstance(v, (VPy,)):
            try:
                return BoolV(bool(v.obj))
            except Exception:
                pass
        if isinstance(v, (VFunc, VExc)):
            return TRUE
        raise Undecided('truthiness of %r' % (v,))

    def v_ite(self, c, a, b, st):
        if c.lit is not None:
            return a if c.lit[1] else b
        # `v if x is None else x` / `x if x is not None else v`: the Optional is not None in its own branch
        if isinstance(b, VOptSym) and c.s == b.isnone.s:
            b = b.val
        if isinstance(a, VOptSym) and c.s == Not(a.isnone).s:
            a = a.val
        if type(a) is type(b) and isinstance(a, (VInt, VBool, VStr, VVal)):
            return type(a)(Ite(c, a.t, b.t))
        if isinstance(a, VTuple) and isinstance(b, VTuple) and len(a.items) == len(b.items):
            return VTuple([self.v_ite(c, x, y, st) for x, y in zip(a.items, b.items)])
        if isinstance(a, VNone) and isinstance(b, VNone):
            return NONE
        if isinstance(a, VEmptyList) or isinstance(b, VEmptyList):
            if isinstance(a, VEmptyList) and isinstance(b, VEmptyList):
                return a
            other = b if isinstance(a, VEmptyList) else a
            so, eo = self.seq_of(other, st)
            e = smt.Empty(so.sort)
            return VSeq(Ite(c, e, so) if isinstance(a, VEmptyList) else Ite(c, so, e), eo)
        try:
            sa, ea = self.seq_of(a, st)
            sb, eb = self.seq_of(b, st)
            if ea == eb:
                return VSeq(Ite(c, sa, sb), ea)
        except Undecided:
            pass
        if isinstance(a, VRef) and isinstance(b, VRef) and a.loc == b.loc:
            return a
        raise Undecided('cannot merge %r and %r' % (a, b))

    def v_eq(self, a, b, st):
        """Python == as a Bool term."""
        from . import flagdict
        if isinstance(a, flagdict.VSetVal) or isinstance(b, flagdict.VSetVal):
            def arr_of(x):
                if isinstance(x, flagdict.VSetVal):
                    return x.arr
                if isinstance(x, VRef) and isinstance(st.heap.get(x.loc), HSet):
                    return st.heap[x.loc].arr
                raise Undecided('== between a set value and %r' % (x,))
            return Eq(arr_of(a), arr_of(b))
        if isinstance(a, flagdict.VFlags) and isinstance(b, flagdict.VFlags):
            k = smt.bound(self.ctx, 'k', STR)
            same_vals = smt.ForAll([k], Implies(flagdict.sel(a.present, k), Eq(flagdict.sel(a.bval, k), flagdict.sel(b.bval, k))))
            return And(Eq(a.present, b.present), same_vals)
        if isinstance(a, VOptSym) or isinstance(b, VOptSym):
            if isinstance(b, VOptSym) and not isinstance(a, VOptSym):
                a, b = b, a
            if isinstance(b, VNone):
                return a.isnone
            if isinstance(b, VOptSym):
                return Or(And(a.isnone, b.isnone), And(Not(a.isnone), Not(b.isnone), self.v_eq(a.val, b.val, st)))
            return And(Not(a.isnone), self.v_eq(a.val, b, st))
        if isinstance(a, VNone) or isinstance(b, VNone):
            return BoolV(isinstance(a, VNone) and isinstance(b, VNone))
        if isinstance(a, (VInt, VBool)) and isinstance(b, (VInt, VBool)):
            if type(a) is type(b):
                return Eq(a.t, b.t)
            ai = a.t if isinstance(a, VInt) else Ite(a.t, IntV(1), IntV(0))
            bi = b.t if isinstance(b, VInt) else Ite(b.t, IntV(1), IntV(0))
            return Eq(ai, bi)
        if isinstance(a, VStr) and isinstance(b, VStr):
            return Eq(a.t, b.t)
        if isinstance(a, VVal) and isinstance(b, VVal):
            return Eq(a.t, b.t)
        if isinstance(a, VVal) and isinstance(b, VStr) or isinstance(b, VVal) and isinstance(a, VStr):
            vv, ss = (a, b) if isinstance(a, VVal) else (b, a)
            self.ctx.sort('Val')
            return Eq(vv.t, self.model_app('val_of_str', [ss.t], 'Val'))
        if isinstance(a, VVal) and isinstance(b, VRef) or isinstance(b, VVal) and isinstance(a, VRef):
            vv, rr = (a, b) if isinstance(a, VVal) else (b, a)
            if isinstance(st.heap.get(rr.loc), HInst):
                return Eq(vv.t, self.obj_val(rr.loc))       # default equality of instances is identity
        if isinstance(a, VTuple) and isinstance(b, VTuple):
            if len(a.items) != len(b.items):
                return FALSE
            return And(*[self.v_eq(x, y, st) for x, y in zip(a.items, b.items)])
        if isinstance(a, VPy) and isinstance(b, VPy):
            return BoolV(a.obj == b.obj)
        if isinstance(a, (VStr, VInt, VBool)) != isinstance(b, (VStr, VInt, VBool)) and \
                isinstance(a, (VStr, VInt, VBool, VPy)) and isinstance(b, (VStr, VInt, VBool, VPy)):
            if isinstance(a, VPy) or isinstance(b, VPy):
                ok1, x = self.concrete(a)
                ok2, y = self.concrete(b)
                if ok1 and ok2:
                    return BoolV(x == y)
        if isinstance(a, (VStr,)) and isinstance(b, (VInt, VBool)) or isinstance(b, (VStr,)) and isinstance(a, (VInt, VBool)):
            return FALSE
        for x, y in ((a, b), (b, a)):
            if isinstance(x, VRef) and isinstance(st.heap.get(x.loc), (HInst, HSet)) and isinstance(y, (VStr, VInt, VBool)):
                return FALSE        # an instance without __eq__ / a set never equals a str/int/bool
        def _is_empty(x):
            return isinstance(x, VEmptyList) or isinstance(x, VRef) and isinstance(st.heap.get(x.loc), HPyList) and not st.heap[x.loc].items
        if _is_empty(a) or _is_empty(b):
            other = b if _is_empty(a) else a
            if _is_empty(other):
                return TRUE
            try:
                so, _ = self.seq_of(other, st)
                return Eq(Len(so), IntV(0))
            except Undecided:
                pass
        try:
            sa, ea = self.seq_of(a, st)
            sb, eb = self.seq_of(b, st)
        except Undecided:
            sa = None
        if sa is not None:
            if ea != eb:
                raise Undecided('== on lists of different element types')
            return Eq(sa, sb)
        if isinstance(a, VRef) and isinstance(b, VRef):
            oa, ob = st.heap[a.loc], st.heap[b.loc]
            if isinstance(oa, HPyList) and isinstance(ob, HPyList):
                if len(oa.items) != len(ob.items):
                    return FALSE
                return And(*[self.v_eq(x, y, st) for x, y in zip(oa.items, ob.items)])
            if isinstance(oa, HInst) and isinstance(ob, HInst):
                return BoolV(a.loc == b.loc)    # default object identity equality
        raise Undecided('== between %r and %r' % (a, b))

    def v_is(self, a, b, st):
        if isinstance(a, VOptSym) or isinstance(b, VOptSym):
            if isinstance(b, VOptSym) and not isinstance(a, VOptSym):
                a, b = b, a
            if isinstance(b, VNone):
                return a.isnone
            if not isinstance(b, VOptSym):
                return And(Not(a.isnone), self.v_is(a.val, b, st))
            raise Undecided('is between optional values')
        if isinstance(a, VNone) or isinstance(b, VNone):
            return BoolV(isinstance(a, VNone) and isinstance(b, VNone))
        if isinstance(a, VExc) and isinstance(b, VExc):
            return BoolV(a is b)
        if isinstance(a, VExc) or isinstance(b, VExc):
            ex, other = (a, b) if isinstance(a, VExc) else (b, a)
            if isinstance(other, VVal):
                if '__id__' not in ex.attrs:
                    self.ctx.sort('Val')
                    ex.attrs['__id__'] = VVal(self.ctx.fresh('exc_id', 'Val'))
                return Eq(other.t, ex.attrs['__id__'].t)
            return FALSE
        if isinstance(a, VRef) and isinstance(b, VRef):
            oa, ob = st.heap.get(a.loc), st.heap.get(b.loc)
            va, vb = getattr(oa, 'view', None), getattr(ob, 'view', None)
            if va is not None and vb is not None:
                # two read-only views of list elements: same object iff same list and same index
                return Eq(va[1], vb[1]) if va[0] == vb[0] else FALSE
            return BoolV(a.loc == b.loc)
        if isinstance(a, VPy) and isinstance(b, VPy):
            return BoolV(a.obj is b.obj)
        if isinstance(a, VVal) and isinstance(b, VVal):
            return Eq(a.t, b.t)
        if isinstance(a, VVal) and isinstance(b, VRef) or isinstance(b, VVal) and isinstance(a, VRef):
            vv, rr = (a, b) if isinstance(a, VVal) else (b, a)
            return Eq(vv.t, self.obj_val(rr.loc))
        if isinstance(a, VVal) and isinstance(b, VPy) or isinstance(b, VVal) and isinstance(a, VPy):
            vv, pp = (a, b) if isinstance(a, VVal) else (b, a)
            return Eq(vv.t, self.val_const(pp.obj))
        if isinstance(a, VBool) and isinstance(b, VBool):
            return Eq(a.t, b.t)
        if isinstance(a, VStr) and isinstance(b, VStr):
            return Eq(a.t, b.t)     # identity of equal strings: treated as equality (noted assumption)
        if type(a) is not type(b):
            return FALSE
        raise Undecided('is between %r and %r' % (a, b))

    def obj_val(self, loc):
        """The Val that denotes the heap object at ``loc`` (identity): py_obj is injective."""
        self.ctx.sort('Val')
        if 'py_obj' not in self.ctx.funs:
            self.ctx.fun('py_obj', [INT], 'Val')
            a = smt.bound(self.ctx, 'a', INT)
            b = smt.bound(self.ctx, 'b', INT)
            self.ctx.fun_axioms.setdefault('py_obj', []).append(
                smt.ForAll([a, b], Implies(Eq(self.ctx.app('py_obj', a), self.ctx.app('py_obj', b)), Eq(a, b))))
        return self.ctx.app('py_obj', IntV(loc))

    def val_const(self, obj):
        """A distinguished constant of sort Val for a concrete Python singleton."""
        self.ctx.sort('Val')
        name = 'pyobj_' + getattr(obj, '__name__', type(obj).__name__)
        return self.ctx.const(name, 'Val')

    # ---- name resolution -------------------------------------------------
    def resolve_global(self, name, st):
        mod = self.module
        if mod is not None and name in vars(mod):
            if name == 'DEFAULT_RUNTIME_STATE' and isinstance(vars(mod)[name], dict) and st is not None:
                from . import flagdict
                return flagdict.module_default(self, vars(mod)[name], st)
            return self.lift(vars(mod)[name], st)
        if name == 'S':
            return VPy(importlib.import_module('specs'))
        if hasattr(builtins, name):
            return VPy(getattr(builtins, name))
        raise Undecided('unresolved name %r' % name)

    # ---- expression evaluation -------------------------------------------
    def ev(self, node, st):
        """Evaluate an expression: list of (V | Raised, State)."""
        m = getattr(self, 'ev_' + type(node).__name__, None)
        if m is None:
            raise Undecided('unsupported expression %s' % type(node).__name__, node)
        return m(node, st)

    def ev1(self, node, st):
        """Evaluate in a context where forking / raising is not expected (pure)."""
        rs = self.ev(node, st)
        if len(rs) != 1 or isinstance(rs[0][0], Raised):
            raise Undecided('expression forks or raises in pure context: %s' % ast.unparse(node), node)
        return rs[0][0]

    def ev_list(self, nodes, st):
        """Evaluate expressions left to right: list of ([V...] | Raised, State)."""
        acc = [([], st)]
        for n in nodes:
            nxt = []
            for vals, s in acc:
                if isinstance(vals, Raised):
                    nxt.append((vals, s))
                    continue
                for r, s2 in self.ev(n, s):
                    if isinstance(r, Raised):
                        nxt.append((r, s2))
                    else:
                        nxt.append((vals + [r], s2))
            acc = nxt
        return acc

    def ev_Constant(self, node, st):
        v = node.value
        if v is Ellipsis:
            return [(VPy(Ellipsis), st)]
        if isinstance(v, (bool, int, str, type(None))):
            return [(self.lift(v, st), st)]
        if isinstance(v, bytes):
            return [(VPy(v), st)]
        raise Undecided('constant %r' % (v,), node)

    def ev_Name(self, node, st):
        name = node.id
        v = st.lookup(name)
        if v is None:
            if name in st.ghost:
                return [(st.ghost[name], st)]
            v = self.resolve_global(name, st)
        if v is UNBOUND:
            raise Undecided('possibly unbound local %r' % name, node)
        return [(v, st)]

    def ev_Tuple(self, node, st):
        out = []
        for vals, s in self.ev_list(node.elts, st):
            out.append((vals if isinstance(vals, Raised) else VTuple(vals), s))
        return out

    def ev_List(self, node, st):
        out = []
        for vals, s in self.ev_list(node.elts, st):
            if isinstance(vals, Raised):
                out.append((vals, s))
            elif self.pure and not vals:
                out.append((EMPTY_LIST, s))
            elif self.pure and vals and all(isinstance(v, (VInt, VStr, VBool)) and v.ty == vals[0].ty for v in vals):
                # spec level: a list of primitives is a sequence value (no heap object)
                out.append((VSeq(Concat(*[smt.Unit(v.t) for v in vals]), vals[0].ty), s))
            else:
                out.append((s.alloc(HPyList(vals)), s))
        return out

    def ev_Set(self, node, st):
        out = []
        for vals, s in self.ev_list(node.elts, st):
            if isinstance(vals, Raised):
                out.append((vals, s))
            else:
                out.append((VTuple(vals), s))     # literal sets are only used for membership tests
        return out

    def ev_IfExp(self, node, st):
        out = []
        for c, s in self.ev(node.test, st):
            if isinstance(c, Raised):
                out.append((c, s))
                continue
            cond = self.truthy(c, s)
            if self.pure:
                kn = self.known(s, cond)
                if kn is not None:
                    out.append((self.ev1(node.body if kn else node.orelse, s), s))
                    continue
                a = self.ev1(node.body, s)
                b = self.ev1(node.orelse, s)
                out.append((self.v_ite(cond, a, b, s), s))
                continue
            for flag, s2 in self.fork_on(s, cond):
                out.extend(self.ev(node.body if flag else node.orelse, s2))
        return out

    def ev_BoolOp(self, node, st):
        is_and = isinstance(node.op, ast.And)
        if self.pure:
            vals = []
            for vn in node.values:
                v = self.ev1(vn, st)
                vals.append(v)
                # literal short circuit: later operands may be meaningless (guarded subscripts, attributes of None)
                if isinstance(v, (VBool, VNone)):
                    t = self.truthy(v, st)
                    if t.lit is not None and t.lit[1] != is_and:
                        break
            if all(isinstance(v, VBool) for v in vals):
                ts = [v.t for v in vals]
                return [(VBool(And(*ts) if is_and else Or(*ts)), st)]
            # general python semantics: a and b -> b if a else a
            res = vals[-1]
            for v in reversed(vals[:-1]):
                c = self.truthy(v, st)
                res = self.v_ite(c, res, v, st) if is_and else self.v_ite(c, v, res, st)
            return [(res, st)]
        out = []
        acc = [(None, st)]
        for i, vn in enumerate(node.values):
            last = i == len(node.values) - 1
            nxt = []
            for _, s in acc:
                for r, s2 in self.ev(vn, s):
                    if isinstance(r, Raised):
                        out.append((r, s2))
                        continue
                    if last:
                        out.append((r, s2))
                        continue
                    c = self.truthy(r, s2)
                    for flag, s3 in self.fork_on(s2, c):
                        if flag == is_and:
                            nxt.append((r, s3))     # continue evaluating
                        else:
                            out.append((r, s3))     # short circuit with this value
            acc = nxt
        return out

    def ev_UnaryOp(self, node, st):
        out = []
        for v, s in self.ev(node.operand, st):
            if isinstance(v, Raised):
                out.append((v, s))
            elif isinstance(node.op, ast.Not):
                out.append((VBool(Not(self.truthy(v, s))), s))
            elif isinstance(node.op, ast.USub) and isinstance(v, VInt):
                out.append((VInt(smt.Neg(v.t)), s))
            elif isinstance(node.op, ast.UAdd) and isinstance(v, VInt):
                out.append((v, s))
            else:
                raise Undecided('unary op', node)
        return out

    def ev_BinOp(self, node, st):
        out = []
        for vals, s in self.ev_list([node.left, node.right], st):
            if isinstance(vals, Raised):
                out.append((vals, s))
                continue
            out.extend(self.binop(node.op, vals[0], vals[1], s, node))
        return out

    def binop(self, op, a, b, st, node=None):
        for k, x in enumerate((a, b)):
            if isinstance(x, VOptSym):
                if self.pure:
                    x = x.val
                    a, b = (x, b) if k == 0 else (a, x)
                    continue
                out = []
                for r, s in self._safe_result(Not(x.isnone), NONE, TypeError, st, node, name='operand-is-None'):
                    if isinstance(r, Raised):
                        out.append((r, s))
                    else:
                        out.extend(self.binop(op, x.val if k == 0 else a, b if k == 0 else x.val, s, node))
                return out
        if isinstance(a, VBool) and isinstance(b, (VInt, VBool)) and not isinstance(op, (ast.BitAnd, ast.BitOr)):
            a = VInt(Ite(a.t, IntV(1), IntV(0)))
        if isinstance(b, VBool) and isinstance(a, VInt):
            b = VInt(Ite(b.t, IntV(1), IntV(0)))
        if isinstance(a, VInt) and isinstance(b, VInt):
            if isinstance(op, ast.Add):
                return [(VInt(Add(a.t, b.t)), st)]
            if isinstance(op, ast.Sub):
                return [(VInt(Sub(a.t, b.t)), st)]
            if isinstance(op, ast.Mult):
                return [(VInt(Mul(a.t, b.t)), st)]
            if isinstance(op, (ast.FloorDiv, ast.Mod)):
                # ZeroDivisionError is a safety obligation
                if not self.pure:
                    self.oblige('safe', 'nonzero-divisor', st, Ne(b.t, IntV(0)), node)
                    st.assume(Ne(b.t, IntV(0)))
                f = smt.FloorDiv if isinstance(op, ast.FloorDiv) else smt.Mod
                return [(VInt(f(a.t, b.t)), st)]
            if a.t.lit is not None and b.t.lit is not None:
                import operator
                table = {ast.BitAnd: operator.and_, ast.BitOr: operator.or_, ast.Pow: operator.pow,
                         ast.LShift: operator.lshift, ast.RShift: operator.rshift, ast.BitXor: operator.xor}
                if type(op) in table:
                    return [(VInt(IntV(table[type(op)](a.t.lit[1], b.t.lit[1]))), st)]
            if isinstance(op, (ast.BitAnd, ast.BitOr, ast.BitXor)):
                # bit operations on symbolic ints: uninterpreted (only equalities between such terms are used)
                return [(VInt(self.model_app('py_' + type(op).__name__.lower(), [a.t, b.t], INT)), st)]
        if isinstance(a, VVal) and isinstance(b, VVal) and isinstance(op, (ast.Add, ast.Sub, ast.Mult, ast.Div)):
            # arithmetic on opaque numbers (timings): an opaque number
            self.ctx.sort('Val')
            return [(VVal(self.model_app('py_arith_' + type(op).__name__.lower(), [a.t, b.t], 'Val')), st)]
        if isinstance(a, VStr) and isinstance(b, VStr) and isinstance(op, ast.Add):
            new = Concat(a.t, b.t)
            if a.t.lit is None and b.t.lit is not None:
                # remembered: <text> + <literal> (a format template built by padding a literal template)
                self.ctx.__dict__.setdefault('strcat', {})[new.s] = (a.t, b.t)
            return [(VStr(new), st)]
        if isinstance(a, VStr) and isinstance(b, VInt) and isinstance(op, ast.Mult):
            if a.t.lit is not None and b.t.lit is not None:
                return [(VStr(StrV(a.t.lit[1] * b.t.lit[1])), st)]
            r = self.model_app('str_repeat', [a.t, b.t], STR)
            if a.t.lit is not None:
                self.ctx.__dict__.setdefault('repeat_of', {})[r.s] = a.t.lit[1]     # repetition of a known literal
            return [(VStr(r), st)]
        if isinstance(a, VStr) and isinstance(op, ast.Mod):
            return self.call_model('str.%', [a, b], {}, st, node)
        if isinstance(op, ast.Add):
            # list concatenation -> new list
            def _empty(x):
                return isinstance(x, VEmptyList) or isinstance(x, VRef) and isinstance(st.heap.get(x.loc), HPyList) and not st.heap[x.loc].items
            if self.pure and (_empty(a) or _empty(b)) and not (_empty(a) and _empty(b)):
                other = b if _empty(a) else a
                try:
                    so, eo = self.seq_of(other, st)
                    return [(VSeq(so, eo), st)]
                except Undecided:
                    pass
            try:
                sa, ea = self.seq_of(a, st)
                sb, eb = self.seq_of(b, st)
            except Undecided:
                sa = None
            if sa is not None and ea == eb:
                new = Concat(sa, sb)
                if not self.pure and ea[0] in ('int', 'str', 'bool'):
                    # remembered: the pieces of this concatenation (units for the items of a literal list)
                    def _pieces(x, sx):
                        ox = st.heap.get(x.loc) if isinstance(x, VRef) else None
                        if isinstance(ox, HPyList) and len(ox.items) <= 4:
                            return [('unit', it.t) for it in ox.items]
                        return [('seq', sx)]
                    self.ctx.__dict__.setdefault('cat', {})[new.s] = _pieces(a, sa) + _pieces(b, sb)
                if self.pure:
                    return [(VSeq(new, ea), st)]
                return [(st.alloc(HList(new, ea)), st)]
            if isinstance(a, VRef) and isinstance(b, VRef):
                oa, ob = st.heap[a.loc], st.heap[b.loc]
                if isinstance(oa, HPyList) and isinstance(ob, HPyList):
                    return [(st.alloc(HPyList(oa.items + ob.items)), st)]
            if isinstance(a, VTuple) and isinstance(b, VTuple):
                return [(VTuple(a.items + b.items), st)]
        if isinstance(op, (ast.Add, ast.Sub, ast.Mult)) and ((isinstance(a, VInt) and isinstance(b, VNone))
                                                             or (isinstance(a, VNone) and isinstance(b, VInt))):
            return self._safe_result(FALSE, NONE, TypeError, st, node)       # int + None
        if isinstance(a, VBool) and isinstance(b, VBool):
            if isinstance(op, ast.BitAnd):
                return [(VBool(And(a.t, b.t)), st)]
            if isinstance(op, ast.BitOr):
                return [(VBool(Or(a.t, b.t)), st)]
        raise Undecided('binary op %s on %r, %r' % (type(op).__name__, a, b), node)

    def ev_Compare(self, node, st):
        operands = [node.left] + list(node.comparators)
        if self.pure or len(node.ops) == 1:
            out = []
            for vals, s in self.ev_list(operands, st):
                if isinstance(vals, Raised):
                    out.append((vals, s))
                    continue
                ts = [self.compare(op, vals[i], vals[i + 1], s, node) for i, op in enumerate(node.ops)]
                out.append((VBool(And(*ts)), s))
            return out
        # chained comparison in code: evaluate all (no side effects expected), conjunction
        out = []
        for vals, s in self.ev_list(operands, st):
            if isinstance(vals, Raised):
                out.append((vals, s))
                continue
            ts = [self.compare(op, vals[i], vals[i + 1], s, node) for i, op in enumerate(node.ops)]
            out.append((VBool(And(*ts)), s))
        return out

    def compare(self, op, a, b, st, node=None):
        if isinstance(op, ast.Eq):
            return self.v_eq(a, b, st)
        if isinstance(op, ast.NotEq):
            return Not(self.v_eq(a, b, st))
        if isinstance(op, ast.Is):
            return self.v_is(a, b, st)
        if isinstance(op, ast.IsNot):
            return Not(self.v_is(a, b, st))
        if isinstance(op, (ast.In, ast.NotIn)):
            t = self.contains(b, a, st, node)
            return t if isinstance(op, ast.In) else Not(t)
        if isinstance(a, VBool):
            a = VInt(Ite(a.t, IntV(1), IntV(0)))
        if isinstance(b, VBool):
            b = VInt(Ite(b.t, IntV(1), IntV(0)))
        if isinstance(a, VInt) and isinstance(b, VInt):
            f = {ast.Lt: Lt, ast.LtE: Le, ast.Gt: Gt, ast.GtE: Ge}[type(op)]
            return f(a.t, b.t)
        if isinstance(a, VStr) and isinstance(b, VStr):
            if a.t.lit is not None and b.t.lit is not None:
                import operator
                f = {ast.Lt: operator.lt, ast.LtE: operator.le, ast.Gt: operator.gt, ast.GtE: operator.ge}[type(op)]
                return BoolV(f(a.t.lit[1], b.t.lit[1]))
            f = {ast.Lt: 'str.<', ast.LtE: 'str.<='}
            if type(op) in f:
                return smt.mk(f[type(op)], [a.t, b.t], BOOL)
            g = {ast.Gt: 'str.<', ast.GtE: 'str.<='}
            return smt.mk(g[type(op)], [b.t, a.t], BOOL)
        raise Undecided('comparison %s on %r, %r' % (type(op).__name__, a, b), node)

    def contains(self, container, item, st, node=None):
        """``item in container`` as a Bool term."""
        from . import flagdict
        if isinstance(container, flagdict.VSetVal) and isinstance(item, VStr):
            return flagdict.sel(container.arr, item.t)
        if isinstance(container, flagdict.VFlags) and isinstance(item, VStr):
            return flagdict.sel(container.present, item.t)
        if isinstance(container, VRef) and isinstance(st.heap.get(container.loc), flagdict.HFlagDict) and isinstance(item, VStr):
            return flagdict.contains(self, st.heap[container.loc], item, st)
        if isinstance(container, VStr) and isinstance(item, VStr):
            return Contains(container.t, item.t)
        if isinstance(container, VTuple):
            return Or(*[self.v_eq(item, x, st) for x in container.items])
        if isinstance(container, VPy) and isinstance(container.obj, (set, frozenset, list, tuple, dict)):
            return Or(*[self.v_eq(item, self.lift(x, st), st) for x in container.obj])
        if isinstance(container, VRef):
            o = st.heap[container.loc]
            if isinstance(o, HPyList):
                return Or(*[self.v_eq(item, x, st) for x in o.items])
            if isinstance(o, HDict):
                if isinstance(item, VStr):
                    return Or(*[Eq(item.t, StrV(k)) for k in o.entries])
            if isinstance(o, HSet) and isinstance(item, VStr):
                return smt.mk('select', [o.arr, item.t], BOOL)
            if isinstance(o, HMap) and isinstance(item, VInt):
                return smt.mk('select', [o.present, item.t], BOOL)
            if isinstance(o, HInst) and o.cls in C.DICT_RECORDS and isinstance(item, VStr) and item.t.lit is not None:
                return BoolV(item.t.lit[1] in o.fields)
            if isinstance(o, HObjList):
                raise Undecided('membership in an anonymous object list', node)
            if isinstance(o, HList):
                if isinstance(item, (VStr, VInt, VBool)):
                    return smt.mk('seq.contains', [o.seq, smt.Unit(item.t)], BOOL)
        if isinstance(container, VSeq) and isinstance(item, (VStr, VInt, VBool)):
            return smt.mk('seq.contains', [container.t, smt.Unit(item.t)], BOOL)
        raise Undecided('membership test %r in %r' % (item, container), node)

    # ---- subscripts --------------------------------------------------------
    def norm_index(self, i, n):
        """Python index normalisation for slices: clip(i if i >= 0 else i + n, 0, n)."""
        if i.lit is not None and n.lit is not None:
            k, m = i.lit[1], n.lit[1]
            k = k + m if k < 0 else k
            return IntV(max(0, min(k, m)))
        if i.lit is not None and i.lit[1] == 0:
            return IntV(0)
        if i.lit is not None and i.lit[1] > 0:
            return Min(i, n)
        if i.lit is not None and i.lit[1] < 0:
            return Max(Add(i, n), IntV(0))
        return Ite(Lt(i, IntV(0)), Max(Add(i, n), IntV(0)), Min(i, n))

    def entails(self, st, t):
        """Cheap check that the path condition entails t (used only to simplify terms)."""
        if t.lit is not None:
            return t.lit[1]
        if st is None:
            return False
        return not self.feasible(st, Not(t))

    def norm_index_st(self, i, n, st):
        """norm_index, simplified to ``i`` when the path condition entails 0 <= i <= n."""
        if i.lit is None and st is not None and not self.pure and self.entails(st, And(Le(IntV(0), i), Le(i, n))):
            return i
        return self.norm_index(i, n)

    def slice_seq(self, seq, lo, hi):
        n = Len(seq)
        a = IntV(0) if lo is None else self.norm_index(lo, n)
        b = n if hi is None else self.norm_index(hi, n)
        if lo is None and hi is None:
            return seq
        ln = Sub(b, a)
        # substr with non-positive length is empty in SMT-LIB as in Python
        if hi is None and lo is not None and lo.lit is not None and lo.lit[1] >= 0:
            return Substr(seq, a, Sub(n, a)) if a.lit is None else Substr(seq, a, n)
        return Substr(seq, a, ln)

    def ev_Subscript(self, node, st):
        out = []
        sl = node.slice
        if isinstance(sl, ast.Slice):
            parts = [sl.lower, sl.upper, sl.step]
            present = [p for p in parts if p is not None]
            for vals, s in self.ev_list([node.value] + present, st):
                if isinstance(vals, Raised):
                    out.append((vals, s))
                    continue
                base = vals[0]
                it = iter(vals[1:])
                lo = next(it) if sl.lower is not None else None
                hi = next(it) if sl.upper is not None else None
                step = next(it) if sl.step is not None else None
                # an optional bound (None or an int, decided symbolically): one case each
                cases = [(lo, hi, s)]
                for which in (0, 1):
                    nxt = []
                    for lo_, hi_, s_ in cases:
                        b = (lo_, hi_)[which]
                        if isinstance(b, VOptSym):
                            for flag, s2 in self.fork_on(s_, b.isnone):
                                nb = NONE if flag else b.val
                                nxt.append(((nb, hi_, s2) if which == 0 else (lo_, nb, s2)))
                        else:
                            nxt.append((lo_, hi_, s_))
                    cases = nxt
                for lo_, hi_, s_ in cases:
                    out.append((self.do_slice(base, lo_, hi_, step, s_, node), s_))
            return out
        for vals, s in self.ev_list([node.value, sl], st):
            if isinstance(vals, Raised):
                out.append((vals, s))
                continue
            out.extend(self.do_index(vals[0], vals[1], s, node))
        return out

    def _opt_int(self, v):
        if v is None or isinstance(v, VNone):
            return None
        if isinstance(v, VInt):
            return v.t
        raise Undecided('slice bound %r' % (v,))

    def do_slice(self, base, lo, hi, step, st, node=None):
        if step is not None and not isinstance(step, VNone):
            ok, sv = self.concrete(step)
            if ok and sv == -1 and lo is None and hi is None and isinstance(base, VRef) and isinstance(st.heap[base.loc], HPyList):
                return st.alloc(HPyList(list(reversed(st.heap[base.loc].items))))
            if ok and sv == -1 and lo is None and hi is None:
                try:
                    sq, el = self.seq_of(base, st)
                except Undecided:
                    sq = None
                if sq is not None:
                    r = self.model_app('py_reverse_%s' % el[0], [sq], sq.sort)
                    st.assume(Eq(Len(r), Len(sq)))
                    return VSeq(r, el) if self.pure else st.alloc(HList(r, el))
            raise Undecided('slice step', node)
        lo_t, hi_t = self._opt_int(lo), self._opt_int(hi)
        from .executor import VRecList
        if isinstance(base, VRecList) and (lo_t is None or (lo_t.lit is not None and lo_t.lit[1] == 0)):
            # prefix of a record list
            if hi_t is None:
                return base
            if hi_t.lit is None and self.entails(st, And(Le(IntV(0), hi_t), Le(hi_t, base.n))):
                return VRecList(hi_t, base.cls, base.base, base.full_n)
            return VRecList(self.norm_index(hi_t, base.n), base.cls, base.base, base.full_n)
        if isinstance(base, VStr):
            return VStr(self.slice_seq(base.t, lo_t, hi_t))
        if isinstance(base, VSeq):
            return VSeq(self.slice_seq(base.t, lo_t, hi_t), base.elem)
        if isinstance(base, VRef):
            o = st.heap[base.loc]
            if isinstance(o, HList):
                r = self.slice_seq(o.seq, lo_t, hi_t)
                if self.pure:
                    return VSeq(r, o.elem)
                return st.alloc(HList(r, o.elem))
            if isinstance(o, HPyList):
                lo_c = None if lo_t is None else (lo_t.lit[1] if lo_t.lit is not None else Ellipsis)
                hi_c = None if hi_t is None else (hi_t.lit[1] if hi_t.lit is not None else Ellipsis)
                if lo_c is not Ellipsis and hi_c is not Ellipsis:
                    return st.alloc(HPyList(o.items[lo_c:hi_c]))
        if isinstance(base, VTuple):
            lo_c = None if lo_t is None else (lo_t.lit[1] if lo_t.lit is not None else Ellipsis)
            hi_c = None if hi_t is None else (hi_t.lit[1] if hi_t.lit is not None else Ellipsis)
            if lo_c is not Ellipsis and hi_c is not Ellipsis:
                return VTuple(base.items[lo_c:hi_c])
        raise Undecided('slice of %r' % (base,), node)

    def index_term(self, seq, i, st, node, what):
        """Element access with Python negative-index rule; safety obligation in code mode."""
        n = Len(seq)
        if i.lit is not None:
            idx = i if i.lit[1] >= 0 else Add(n, i)
            inrange = Gt(n, IntV(i.lit[1])) if i.lit[1] >= 0 else Ge(n, IntV(-i.lit[1]))
        else:
            idx = Ite(Lt(i, IntV(0)), Add(i, n), i)
            inrange = And(Ge(i, smt.Neg(n)), Lt(i, n))
        return idx, inrange

    def do_index(self, base, idx, st, node=None):
        from .executor import VRecList
        from . import flagdict
        if isinstance(base, flagdict.VFlags) and isinstance(idx, VStr):
            return [(VBool(flagdict.sel(base.bval, idx.t)), st)]
        if isinstance(base, VRef) and isinstance(st.heap.get(base.loc), flagdict.HFlagDict):
            if self.pure:
                o = st.heap[base.loc]
                if isinstance(idx, VStr) and idx.t.lit is not None and idx.t.lit[1] == 'REQUIRES':
                    return [(o.req, st)]
                if isinstance(idx, VStr) and idx.t.lit is not None:
                    return [(VBool(flagdict.sel(o.bval, idx.t)), st)]
                raise Undecided('spec-level read of a state dict needs a literal key', node)
            return flagdict.getitem(self, base, st.heap[base.loc], idx, st, node)
        if isinstance(base, VRecList) and isinstance(idx, VInt):
            i = idx.t
            k = i if (self.pure or (i.lit is not None and i.lit[1] >= 0)) else Ite(Lt(i, IntV(0)), Add(i, base.n), i)
            inr = And(Ge(i, smt.Neg(base.n)), Lt(i, base.n))
            out = []
            for r, s in self._safe_result(inr, NONE, IndexError, st, node):
                out.append((r, s) if isinstance(r, Raised) else (self.rec_element(base, k, s), s))
            return out
        if isinstance(base, VOptSym):
            if self.pure:
                base = base.val     # spec level: an Optional stands for its value (None excluded by a guard)
            else:
                out = []
                for r, s in self._safe_result(Not(base.isnone), NONE, TypeError, st, node, name='subscript-of-None'):
                    out.extend([(r, s)] if isinstance(r, Raised) else self.do_index(base.val, idx, s, node))
                return out
        if self.pure and isinstance(idx, VInt) and idx.t.s.startswith('q_') and ' ' not in idx.t.s:
            # spec level, index is a bound variable of an enclosing quantifier over a range
            # whose guard keeps it inside [0, len): plain element access (no negative wrap)
            seq = None
            if isinstance(base, (VStr, VSeq)):
                seq, elem = base.t, (('str',) if isinstance(base, VStr) else base.elem)
            elif isinstance(base, VRef) and isinstance(st.heap[base.loc], HList):
                seq, elem = st.heap[base.loc].seq, st.heap[base.loc].elem
            if seq is not None:
                t = At(seq, idx.t)
                self.note_pattern(t, idx.t)
                return [(VStr(t) if isinstance(base, VStr) else wrap(t, elem), st)]
        if isinstance(base, VStr) and isinstance(idx, VInt):
            k, inr = self.index_term(base.t, idx.t, st, node, 'str')
            return self._safe_result(inr, VStr(At(base.t, k)), IndexError, st, node)
        if isinstance(base, VSeq) and isinstance(idx, VInt):
            k, inr = self.index_term(base.t, idx.t, st, node, 'seq')
            return self._safe_result(inr, wrap(At(base.t, k), base.elem), IndexError, st, node)
        if isinstance(base, VTuple) and isinstance(idx, VInt) and idx.t.lit is not None:
            try:
                return [(base.items[idx.t.lit[1]], st)]
            except IndexError:
                return self._safe_result(FALSE, NONE, IndexError, st, node)
        if isinstance(base, VRef):
            o = st.heap[base.loc]
            if isinstance(o, HList) and isinstance(idx, VInt):
                k, inr = self.index_term(o.seq, idx.t, st, node, 'list')
                return self._safe_result(inr, wrap(At(o.seq, k), o.elem), IndexError, st, node)
            if isinstance(o, HPyList) and isinstance(idx, VInt) and idx.t.lit is not None:
                try:
                    return [(o.items[idx.t.lit[1]], st)]
                except IndexError:
                    return self._safe_result(FALSE, NONE, IndexError, st, node)
            if isinstance(o, (HRecSeq, HIdxList)) and isinstance(idx, VInt):
                from . import reclists
                n = o.n if isinstance(o, HRecSeq) else Len(o.idx)
                i = idx.t
                k = i if (self.pure or (i.lit is not None and i.lit[1] >= 0)) else Ite(Lt(i, IntV(0)), Add(i, n), i)
                inr = And(Ge(i, smt.Neg(n)), Lt(i, n))
                out = []
                for r, s in self._safe_result(inr, NONE, IndexError, st, node):
                    if isinstance(r, Raised):
                        out.append((r, s))
                    elif isinstance(o, HRecSeq):
                        out.append((reclists.element_view(self, base, o, k, s), s))
                    else:
                        out.append((reclists.idx_element(self, o, k, s), s))
                return out
            if isinstance(o, HInst) and isinstance(idx, VStr) and idx.t.lit is not None and o.cls in C.DICT_RECORDS:
                # dict-like record (a summary dict ...): key -> field
                if idx.t.lit[1] in o.fields:
                    return [(o.fields[idx.t.lit[1]], st)]
                return self._safe_result(FALSE, NONE, KeyError, st, node)
            if isinstance(o, HObjList) and isinstance(idx, VInt):
                n = o.n
                i = idx.t
                inr = And(Ge(i, smt.Neg(n)), Lt(i, n))
                return self._safe_result(inr, VExc(o.cls, {}, tag='collected'), IndexError, st, node)
            if isinstance(o, HDict):
                return self.dict_get(base, o, idx, st, node)
            if isinstance(o, HMap) and isinstance(idx, VInt):
                has = smt.mk('select', [o.present, idx.t], BOOL)
                val = wrap(smt.mk('select', [o.vals, idx.t], sort_of(o.vty)), o.vty)
                return self._safe_result(has, val, KeyError, st, node)
            if isinstance(o, HInst):
                return self.call_method_on_instance(base, o, '__getitem__', [idx], {}, st, node)
        if isinstance(base, VVal) and isinstance(idx, VInt) and self.pure:
            # spec level: item of an opaque value is an opaque value
            return [(VVal(self.model_app('py_item', [base.t, idx.t], 'Val')), st)]
        if isinstance(base, VVal) and isinstance(idx, VStr):
            # opaque mapping object (a RuntimeState seen from outside): a pure function of (object, key)
            self.trusted_used.add('opaque-mapping-read: obj[key] is a pure boolean function rs_flag(obj, key) '
                                  '(RuntimeState.__getitem__, contract verified under C04)')
            return [(VBool(self.model_app('rs_flag', [base.t, idx.t], BOOL)), st)]
        if isinstance(base, VPy) and isinstance(base.obj, (dict, list, tuple)):
            ok, k = self.concrete(idx)
            if ok:
                try:
                    return [(self.lift(base.obj[k], st), st)]
                except (KeyError, IndexError) as ex:
                    return self._safe_result(FALSE, NONE, type(ex), st, node)
        raise Undecided('subscript of %r with %r' % (base, idx), node)

    def allowed_raise(self, cls):
        """Does the contract of the function under verification allow this class to escape?"""
        c = self.cur_contract
        if c is None:
            return False
        for name in c.raises:
            base = self.exc_class(name.rstrip('*?'))
            if base is not None and issubclass(cls, base):
                return True
        return False

    def _safe_result(self, ok, value, exc_cls, st, node, name=None):
        """An operation that raises exc_cls unless ``ok``.

        In pure mode the operation is total (value returned).  In code mode:
        if a handler/contract may observe the exception the path forks,
        otherwise a ``safe`` obligation is generated and ``ok`` is assumed.
        """
        if self.pure:
            return [(value, st)]
        if ok.lit is not None and ok.lit[1]:
            return [(value, st)]
        if self.in_try > 0 or self.allowed_raise(exc_cls):
            out = []
            for flag, s in self.fork_on(st, ok):
                if flag:
                    out.append((value, s))
                else:
                    out.append((Raised(VExc(exc_cls)), s))
            return out
        self.oblige('safe', name or exc_cls.__name__, st, ok, node)
        st.assume(ok)
        if not self.feasible(st):
            return []
        return [(value, st)]

    in_try = 0
    union_choice = {}

    def dict_get(self, ref, o, key, st, node):
        if isinstance(key, VStr):
            if key.t.lit is not None:
                k = key.t.lit[1]
                if k in o.entries:
                    return [(o.entries[k], st)]
                return self._safe_result(FALSE, NONE, KeyError, st, node)
            # symbolic key: fork per concrete key
            out = []
            for k, v in o.entries.items():
                s = st.copy()
                c = Eq(key.t, StrV(k))
                if self.feasible(s, c):
                    s.assume(c)
                    out.append((v, s))
            none_of = And(*[Ne(key.t, StrV(k)) for k in o.entries])
            if self.feasible(st, none_of):
                s = st.copy()
                out.extend(self._safe_result(Not(none_of), NONE, KeyError, s, node))
            return out
        raise Undecided('dict key %r' % (key,), node)

    def ev_JoinedStr(self, node, st):
        parts = []
        exprs = []
        for v in node.values:
            if isinstance(v, ast.Constant):
                parts.append(v.value)
            else:
                parts.append(None)
                exprs.append(v.value)
        out = []
        for vals, s in self.ev_list(exprs, st):
            if isinstance(vals, Raised):
                out.append((vals, s))
                continue
            it = iter(vals)
            ts = []
            for p in parts:
                if p is not None:
                    ts.append(StrV(p))
                else:
                    ts.append(self.to_str_term(next(it), s))
            out.append((VStr(Concat(*ts) if ts else StrV('')), s))
        return out

    def to_str_term(self, v, st):
        """str(v) as a String term (uninterpreted for opaque values)."""
        if isinstance(v, VStr):
            return v.t
        if isinstance(v, VInt):
            return smt.StrFromInt(v.t)
        ok, c = self.concrete(v, st)
        if ok and isinstance(c, (int, str, bool, type(None))):
            return StrV(str(c))
        if isinstance(v, VVal):
            return self.model_app('py_str', [v.t], STR)
        if isinstance(v, VBool):
            return Ite(v.t, StrV('True'), StrV('False'))
        return self.ctx.fresh('fmt', STR)    # unconstrained text (formatting of compound values)

    def model_app(self, name, args, ret):
        new = name not in self.ctx.funs
        self.ctx.fun(name, [a.sort for a in args], ret)
        if new and name in ('val_of_bool', 'val_of_str'):
            # injections with their projections (S.val_bool / S.val_str)
            proj, srt = ('val_bool', BOOL) if name == 'val_of_bool' else ('val_str', STR)
            self.ctx.fun(proj, ['Val'], srt)
            x = smt.bound(self.ctx, 'x', srt)
            inj = self.ctx.app(name, x)
            self.ctx.fun_axioms.setdefault(name, []).append(
                smt.ForAll([x], Eq(self.ctx.app(proj, inj), x), patterns=[[inj]]))
        self.trusted_used.add('builtin:' + name)
        return self.ctx.app(name, *args)

    def ev_Lambda(self, node, st):
        return [(VFunc(node, st.cur, [], '<lambda>', self.modname), st)]

    def ev_Attribute(self, node, st):
        out = []
        for v, s in self.ev(node.value, st):
            if isinstance(v, Raised):
                out.append((v, s))
            else:
                out.extend(self.get_attr(v, node.attr, s, node))
        return out

    def get_attr(self, v, name, st, node=None):
        if isinstance(v, VPy):
            obj = v.obj
            import types as _types
            if isinstance(obj, _types.ModuleType):
                cell = st.globals.get((obj.__name__, name))
                if cell is not None:
                    return [(cell, st)]
            if not hasattr(obj, name):
                return self._safe_result(FALSE, NONE, AttributeError, st, node)
            return [(self.lift(getattr(obj, name), st), st)]
        if isinstance(v, VRef):
            o = st.heap[v.loc]
            if isinstance(o, HInst):
                if o.view is not None and name in o.fields and self.mutable_field(o.cls, name):
                    # a field the contract declares mutable: read through the list's current field state
                    from .vals import parse_type as _pt
                    return [(self.recfield_read(o.view[0], name, _pt(C.RECORDS[o.cls][name]), o.view[1], st), st)]
                if name in o.fields:
                    return [(o.fields[name], st)]
                if o.cls in C.DICT_RECORDS or ('%s.%s' % (o.cls, name)) in self.method_models:
                    return [(VBound(v, name), st)]
                if o.cls in C.ASSTR and hasattr(str, name):
                    # an object that is a str in one of its variants, used as that str
                    return [(VBound(o.fields[C.ASSTR[o.cls]], name), st)]
                return self.instance_attr(v, o, name, st, node)
            return [(VBound(v, name), st)]
        from . import flagdict as _fd2
        if isinstance(v, VStr) and not hasattr(str, name):
            return self._safe_result(FALSE, NONE, AttributeError, st, node)
        if isinstance(v, VBool) and not hasattr(bool, name):
            # a real AttributeError: reachable only if the path is (an obligation with goal false under the path condition)
            return self._safe_result(FALSE, NONE, AttributeError, st, node)
        if isinstance(v, VVal) and name == '__name__':
            # the name of a class held as an opaque value (exc_info[0].__name__)
            return [(VStr(self.model_app('py_class_name', [v.t], STR)), st)]
        if isinstance(v, (VStr, VSeq, VTuple, VInt, VVal, _fd2.VFlags, _fd2.VSetVal)):
            return [(VBound(v, name), st)]
        if isinstance(v, VExc):
            if name in v.attrs:
                return [(v.attrs[name], st)]
            if name == '__class__':
                return [(VPy(v.cls), st)]
            # attributes the models do not set: stable per (state, exception, attribute)
            cache = dict(st.ghost.get('__excattrs__', {}))
            key = (id(v), name)
            if key in cache:
                return [(cache[key], st)]

            def remember(val, s):
                c2 = dict(s.ghost.get('__excattrs__', {}))
                c2[key] = val
                s.ghost['__excattrs__'] = c2
                return (val, s)
            if name == 'orig_ex':
                # the wrapped original exception: some Exception instance (a SyntaxError or not)
                s2 = st.copy()
                return [remember(VExc(Exception, {}, tag='orig_ex'), st), remember(VExc(SyntaxError, {}, tag='orig_ex'), s2)]
            if name in ('string', 'msg'):
                # SyntaxError family (slot on the class) and the library's DoctestParseError (set in __init__) have it;
                # any other exception class does not: reading it is an AttributeError
                has = hasattr(v.cls, name) or v.cls.__name__ in ('DoctestParseError',)
                if not has:
                    return self._safe_result(FALSE, NONE, AttributeError, st, node)
                return [remember(VStr(self.ctx.fresh('exc_' + name, STR)), st)]
            if name == 'text':
                return [remember(VOptSym(self.ctx.fresh('exc_text_isnone', BOOL), VStr(self.ctx.fresh('exc_text', STR))), st)]
            if name in ('offset', 'lineno'):
                return [remember(VOptSym(self.ctx.fresh('exc_%s_isnone' % name, BOOL), VInt(self.ctx.fresh('exc_' + name, INT))), st)]
            import types as _types2
            if isinstance(getattr(v.cls, name, None), _types2.FunctionType):
                return [(VBound(v, name), st)]       # a method of the exception class
            if not any(name in vars(k) for k in v.cls.__mro__) and name.startswith('__') and name.endswith('__'):
                # a dunder the class does not define (e.g. __name__ of an INSTANCE): no instance has it either
                return self._safe_result(FALSE, NONE, AttributeError, st, node)
            raise Undecided('attribute %s of exception' % name, node)
        if isinstance(v, VNone):
            return self._safe_result(FALSE, NONE, AttributeError, st, node)
        if isinstance(v, VOptSym):
            out = []
            for flag, s in self.fork_on(st, v.isnone):
                if flag:
                    out.extend(self._safe_result(FALSE, NONE, AttributeError, s, node))
                else:
                    out.extend(self.get_attr(v.val, name, s, node))
            return out
        raise Undecided('attribute %s of %r' % (name, v), node)

    def instance_attr(self, ref, o, name, st, node):
        """Attribute of an instance that is not a data field: property or method of the real class."""
        cls = self.real_class(o.cls)
        if cls is not None:
            attr = None
            for k in cls.__mro__:
                if name in vars(k):
                    attr = vars(k)[name]
                    break
            if isinstance(attr, property):
                return self.call_repo_function(attr.fget, [ref], {}, st, node,
                                               qual='%s:%s.%s' % (cls.__module__, cls.__qualname__, name))
            if attr is not None:
                return [(VBound(ref, name), st)]
        # an attribute the record declaration does not know is a gap of the contract files, not an AttributeError
        raise Undecided('attribute %s of a %s object is not declared in its record' % (name, o.cls), node)

    def real_class(self, name):
        name = C.CLASS_ALIAS.get(name, name)
        for modname in ('xdoctest.doctest_example', 'xdoctest.doctest_part', 'xdoctest.directive',
                        'xdoctest.checker', 'xdoctest.parser', 'xdoctest.utils.util_stream',
                        'xdoctest.utils.util_import', 'xdoctest.static_analysis', 'xdoctest.runner',
                        'xdoctest.exceptions', 'xdoctest.plugin'):
            try:
                mod = importlib.import_module(modname)
            except Exception:
                continue
            if hasattr(mod, name) and isinstance(getattr(mod, name), type):
                return getattr(mod, name)
        return None

    def exc_class(self, name):
        if hasattr(builtins, name) and isinstance(getattr(builtins, name), type):
            return getattr(builtins, name)
        for modname in ('xdoctest.exceptions', 'xdoctest.checker'):
            mod = importlib.import_module(modname)
            if hasattr(mod, name):
                return getattr(mod, name)
        if name == 'Skipped':
            from _pytest.outcomes import Skipped
            return Skipped
        return None


class VOptSym(V):
    """Optional value with a symbolic none-flag (used for record fields)."""
    __slots__ = ('isnone', 'val')

    def __init__(self, isnone, val):
        self.isnone = isnone
        self.val = val

    def __repr__(self):
        return 'VOptSym(%s, %r)' % (self.isnone.s, self.val)


class _Unbound(V):
    def __repr__(self):
        return 'UNBOUND'


UNBOUND = _Unbound()
