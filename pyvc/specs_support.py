"""
pyvc.specs_support -- translation of spec functions (``/verif/specs``).

Spec functions are ordinary, executable Python.  Three kinds:

* plain functions: inlined (translated in pure mode) at every use;
* ``@rec(sig)``: recursive definitions -> uninterpreted SMT function plus a
  fuel-limited unfolding fact per ground application occurring in a query;
* ``@uninterp(sig, facts=[...])``: opaque function (the native body is only
  used for replay) with per-application facts (clauses over params/result).
"""
import ast
import inspect
import textwrap

from . import smt
from .smt import BOOL, INT, STR, Eq, Ite, And, Not, TRUE
from .vals import (Undecided, V, VInt, VBool, VStr, VNone, NONE, VSeq, VTuple, VRef,
                   VPy, Raised, HList, parse_type, sort_of, wrap)


class SpecMeta(object):
    def __init__(self, kind, sig, facts=(), note=''):
        self.kind = kind
        args, ret = sig.split('->')
        args = args.strip()
        assert args.startswith('(') and args.endswith(')')
        from .vals import _split_top
        self.argtypes = [parse_type(a) for a in _split_top(args[1:-1])]
        self.ret = parse_type(ret.strip())
        self.facts = list(facts)
        self.note = note


def rec(sig):
    def deco(f):
        f._pyvc = SpecMeta('rec', sig)
        return f
    return deco


def defn(sig):
    """Non-recursive definition kept as a named symbol: every ground application S.f(args) carries the fact
    S.f(args) == body(args) (closed transitively, no fuel) -- keeps terms small where inlining would blow up."""
    def deco(f):
        f._pyvc = SpecMeta('defn', sig)
        return f
    return deco


def uninterp(sig, facts=(), note=''):
    def deco(f):
        f._pyvc = SpecMeta('uninterp', sig, facts, note)
        return f
    return deco


def native(sig, builder):
    """Spec primitive with a direct SMT definition (builder(list of terms) -> term)."""
    def deco(f):
        f._pyvc = SpecMeta('native', sig)
        f._pyvc.builder = builder
        return f
    return deco


_SRC = {}


def fn_ast(fn):
    if fn not in _SRC:
        src = textwrap.dedent(inspect.getsource(fn))
        tree = ast.parse(src)
        node = tree.body[0]
        _SRC[fn] = node
    return _SRC[fn]


def as_term(eng, v, ty, st):
    """Coerce a value to an SMT term of the sort of ``ty``."""
    k = ty[0]
    if k == 'list':
        if type(v).__name__ == 'VEmptyList':
            return smt.Empty('(Seq %s)' % sort_of(ty[1]))
        if isinstance(v, VRef) and st is not None and type(st.heap.get(v.loc)).__name__ == 'HPyList' and not st.heap[v.loc].items:
            return smt.Empty('(Seq %s)' % sort_of(ty[1]))
        seq, elem = eng.seq_of(v, st)
        if elem != ty[1]:
            raise Undecided('spec argument: list element type %r, expected %r' % (elem, ty[1]))
        return seq
    if k == 'bool' and not isinstance(v, VBool):
        return eng.truthy(v, st)
    if k == 'val' and isinstance(v, VRef) and st is not None:
        o = st.heap.get(v.loc)
        if type(o).__name__ == 'HInst' and 'state' in o.fields and hasattr(o.fields['state'], 't'):
            return o.fields['state'].t      # an object with an abstract state stands for that state
    if k == 'val' and isinstance(v, VPy):
        return eng.val_const(v.obj)
    if k == 'val' and isinstance(v, VNone):
        return eng.val_const(None)
    if k in ('int', 'bool', 'str', 'val'):
        if getattr(v, 'ty', None) != ty:
            raise Undecided('spec argument %r is not of type %r' % (v, ty))
        return v.t
    raise Undecided('spec argument type %r' % (ty,))


def pure_block(eng, stmts, st):
    """Value of a straight-line/if-else function body in pure mode."""
    if not stmts:
        return NONE
    s0 = stmts[0]
    rest = stmts[1:]
    if isinstance(s0, ast.Expr) and isinstance(s0.value, ast.Constant):
        return pure_block(eng, rest, st)
    if isinstance(s0, ast.Return):
        return eng.ev1(s0.value, st) if s0.value is not None else NONE
    if isinstance(s0, ast.Assign) and len(s0.targets) == 1:
        v = eng.ev1(s0.value, st)
        eng.assign_target(s0.targets[0], v, st, s0)
        return pure_block(eng, rest, st)
    if isinstance(s0, ast.If):
        c = eng.truthy(eng.ev1(s0.test, st), st)
        kn = eng.known(st, c)
        if kn is not None:
            return pure_block(eng, (s0.body if kn else s0.orelse) + rest, st)
        a = pure_block(eng, s0.body + rest, st.copy())
        b = pure_block(eng, s0.orelse + rest, st.copy())
        return eng.v_ite(c, a, b, st)
    raise Undecided('spec function body: unsupported statement %s' % type(s0).__name__, s0)


def inline_spec(eng, fn, args, st, node):
    import importlib
    fnode = fn_ast(fn)
    names = [a.arg for a in fnode.args.args]
    defaults = {}
    for a, d in zip(names[len(names) - len(fnode.args.defaults):], fnode.args.defaults):
        defaults[a] = d
    s = st.copy()
    fid = s.new_frame(None)
    s.cur = fid
    for i, n in enumerate(names):
        if i < len(args):
            s.frames[fid][n] = args[i]
        elif n in defaults:
            s.frames[fid][n] = eng.ev1(defaults[n], s)
        else:
            raise Undecided('spec %s: missing argument %s' % (fn.__name__, n), node)
    saved = (eng.module, eng.modname)
    eng.module = importlib.import_module(fn.__module__)
    eng.modname = fn.__module__
    eng.pure += 1
    try:
        return pure_block(eng, fnode.body, s)
    finally:
        eng.pure -= 1
        eng.module, eng.modname = saved


def call_spec(eng, fn, args, kwargs, st, node):
    if kwargs:
        raise Undecided('keyword arguments to spec function', node)
    meta = getattr(fn, '_pyvc', None)
    if meta is None:
        return [(inline_spec(eng, fn, args, st, node), st)]
    name = 'S_' + fn.__name__
    ctx = eng.ctx
    if len(args) != len(meta.argtypes):
        raise Undecided('spec %s: arity' % fn.__name__, node)
    ts = [as_term(eng, a, ty, st) for a, ty in zip(args, meta.argtypes)]
    if meta.kind == 'native':
        return [(wrap(meta.builder(ts), meta.ret), st)]
    ctx.fun(name, [sort_of(t) for t in meta.argtypes], sort_of(meta.ret))
    app = ctx.app(name, *ts)
    ground = not any(s.startswith('?') for s in app.syms)
    if not ground:
        for t in ts:
            eng.note_pattern(app, t)
    key = app.s
    if ground:
        app = smt.T(app.s, app.sort, app.syms, app.apps | frozenset([key]))
    argvals = [wrap(t, ty) for t, ty in zip(ts, meta.argtypes)]
    plain = smt.T(app.s, app.sort, app.syms)
    if meta.kind == 'defn':
        if not ground:
            # under a binder the definition is simply inlined
            return [(inline_spec(eng, fn, args, st, node), st)]
        if key not in ctx.unfold:
            def thunk_d():
                from .symexec import State
                body = inline_spec(eng, fn, argvals, State(), None)
                bt = as_term(eng, body, meta.ret, State())
                return Eq(plain, bt)
            ctx.unfold[key] = ('fact', thunk_d)
        return [(wrap(app, meta.ret), st)]
    if meta.kind == 'rec':
        if ground and key not in ctx.unfold:
            def thunk():
                from .symexec import State
                body = inline_spec(eng, fn, argvals, State(), None)
                bt = as_term(eng, body, meta.ret, State())
                return Eq(plain, bt)
            ctx.unfold[key] = ('rec', thunk)
        return [(wrap(app, meta.ret), st)]
    # uninterpreted with per-application facts (the *specification* of the function)
    if ground and key not in ctx.unfold:
        def thunk2():
            import importlib
            from .symexec import State
            fnode = fn_ast(fn)
            names = [a.arg for a in fnode.args.args]
            bound = dict(zip(names, argvals))
            bound['result'] = wrap(plain, meta.ret)
            saved = (eng.module, eng.modname)
            eng.module, eng.modname = importlib.import_module(fn.__module__), fn.__module__
            try:
                return And(*[eng.clause(f, State(), bound) for f in meta.facts])
            finally:
                eng.module, eng.modname = saved
        ctx.unfold[key] = ('fact', thunk2)
    eng.trusted_used.add('spec-uninterpreted:S.%s%s' % (fn.__name__, ' (' + meta.note + ')' if meta.note else ''))
    return [(wrap(app, meta.ret), st)]


def call_spec_by_name(eng, name, args, st, node):
    import importlib
    S = importlib.import_module('specs')
    fn = getattr(S, name)
    rs = call_spec(eng, fn, args, {}, st, node)
    return rs[0][0]
