"""
pyvc.native -- the *executable* reading of contracts.

The same clause texts the prover translates to SMT are evaluated with CPython
on concrete values against the REAL function from /repo: used to replay
counterexamples, to search for a failing input when an obligation fails, and
as a bounded conformance run of every contract (never counted as proof).
"""
import ast
import copy
import importlib
import itertools
import random
import time


class _LiveException(Exception):
    pass


def implies(a, b):
    return (not a) or b


def real_function(c):
    mod = importlib.import_module(c.module)
    obj = mod
    owner = None
    for part in c.func.split('.'):
        owner = obj
        obj = vars(obj)[part] if isinstance(obj, type) else getattr(obj, part)
    if isinstance(obj, (staticmethod, classmethod)):
        obj = obj.__get__(None, owner)
    if isinstance(obj, property):
        obj = obj.fget
    return obj


class _OldRewriter(ast.NodeTransformer):
    """Replace old(e) by a name bound to e evaluated in the pre-state."""

    def __init__(self):
        self.olds = []

    def visit_Call(self, node):
        if isinstance(node.func, ast.Name) and node.func.id == 'old':
            name = '__old%d' % len(self.olds)
            self.olds.append((name, node.args[0]))
            return ast.copy_location(ast.Name(id=name, ctx=ast.Load()), node)
        if isinstance(node.func, ast.Name) and node.func.id == 'implies' and len(node.args) == 2:
            # lazy: the consequent is only evaluated when the guard holds (as in the SMT reading)
            a, b = self.visit(node.args[0]), self.visit(node.args[1])
            return ast.copy_location(ast.BoolOp(op=ast.Or(), values=[ast.UnaryOp(op=ast.Not(), operand=a), b]), node)
        return self.generic_visit(node)


_COMPILED = {}


def compile_clause(text):
    if text not in _COMPILED:
        tree = ast.parse(text.strip(), mode='eval')
        rw = _OldRewriter()
        tree = ast.fix_missing_locations(rw.visit(tree))
        olds = [(n, compile(ast.fix_missing_locations(ast.Expression(e)), '<old>', 'eval')) for n, e in rw.olds]
        _COMPILED[text] = (compile(tree, '<clause>', 'eval'), olds)
    return _COMPILED[text]


def base_ns():
    import specs
    return {'S': specs, 'implies': implies, 'exists': None, 'forall': None}


def eval_clause(text, ns, pre_ns=None):
    code, olds = compile_clause(text)
    ns = dict(ns)
    for name, ocode in olds:
        ns[name] = eval(ocode, dict(pre_ns if pre_ns is not None else ns))
    return bool(eval(code, ns))


def exc_class(name):
    import builtins
    if hasattr(builtins, name):
        return getattr(builtins, name)
    for modname in ('xdoctest.exceptions', 'xdoctest.checker'):
        mod = importlib.import_module(modname)
        if hasattr(mod, name):
            return getattr(mod, name)
    if name == 'Skipped':
        from _pytest.outcomes import Skipped
        return Skipped
    return None


def check_native(c, args, fn=None):
    """Run the real function on concrete args; None if the contract holds or the input is
    outside the precondition, else dict(clause=..., detail=...)."""
    fn = fn or real_function(c)
    ns = dict(vars(importlib.import_module(c.module)))     # clause names resolve as in the function's module
    ns.update(base_ns())
    ns.update(args)
    try:
        for name, text in c.requires:
            if not eval_clause(text, ns):
                return 'skip'
    except Exception:
        return 'skip'
    pre_ns = dict(ns)
    try:
        call_args = copy.deepcopy(args)
        pre_ns.update(copy.deepcopy(args))
    except Exception:
        # values that cannot be copied: old() then sees the same objects (sound only for read-only functions)
        call_args = dict(args)
        pre_ns.update(args)
    live = None
    try:
        if 'LIVE' in c.raises:
            # the function may re-raise the exception that is active at the call: provide one
            try:
                raise _LiveException('live exception provided by the harness')
            except _LiveException as lv:
                live = lv
                result = fn(**call_args)
        else:
            result = fn(**call_args)
        exc = None
    except BaseException as ex:     # noqa
        result = None
        exc = ex
    post = dict(ns)
    post.update(call_args)
    if exc is None:
        post['result'] = result
        for name, text in c.ensures:
            try:
                ok = eval_clause(text, post, pre_ns)
            except RecursionError:
                continue
            except Exception as ex:
                return {'clause': 'post:' + name, 'detail': 'clause raised %r' % (ex,), 'result': repr(result)}
            if not ok:
                return {'clause': 'post:' + name, 'detail': 'clause is false', 'result': repr(result)}
        for clsname, when in c.raises.items():
            if when is None or clsname.endswith('?'):
                continue
            try:
                if eval_clause(when, post, pre_ns):
                    return {'clause': 'post:no-' + clsname.rstrip('*'),
                            'detail': 'returned normally although the raise condition holds', 'result': repr(result)}
            except Exception:
                continue
        return None
    post['exc'] = exc
    for clsname, when in c.raises.items():
        base = clsname.rstrip('*?')
        if base == 'LIVE':
            if exc is live:
                try:
                    ok = True if when is None else eval_clause(when, post, pre_ns)
                except Exception as ex:
                    return {'clause': 'raises:LIVE', 'detail': 'clause raised %r' % (ex,)}
                if ok:
                    return None
                return {'clause': 'raises:LIVE', 'detail': 're-raised the live exception although the condition is false'}
            continue
        if exc is live:
            continue
        cls = exc_class(base)
        if cls is not None and isinstance(exc, cls):
            if when is None:
                return None
            try:
                ok = eval_clause(when, post, pre_ns)
            except Exception as ex:
                return {'clause': 'raises:' + base, 'detail': 'clause raised %r' % (ex,), 'exception': repr(exc)}
            if ok:
                return None
            return {'clause': 'raises:' + base, 'detail': 'raised although the raise condition is false',
                    'exception': repr(exc)}
    return {'clause': 'raises:unexpected-' + type(exc).__name__,
            'detail': 'exception escapes but the contract does not allow it', 'exception': repr(exc)}


# ----------------------------------------------------------- input generation

def strings(alphabet, maxlen):
    for n in range(maxlen + 1):
        for tup in itertools.product(alphabet, repeat=n):
            yield ''.join(tup)


def token_strings(tokens, maxtok):
    seen = set()
    for n in range(maxtok + 1):
        for tup in itertools.product(tokens, repeat=n):
            s = ''.join(tup)
            if s not in seen:
                seen.add(s)
                yield s


def default_gen(c, tier, seed):
    """Type-driven small-scope enumeration (used when a contract names no generator)."""
    from .vals import parse_type
    rnd = random.Random(seed)
    doms = {}
    for name, tyname in c.params.items():
        ty = parse_type(tyname)
        doms[name] = list(domain(ty, tier))
    names = list(doms)
    total = 1
    for n in names:
        total *= max(1, len(doms[n]))
    if total <= 200000:
        for tup in itertools.product(*[doms[n] for n in names]):
            yield dict(zip(names, tup))
    else:
        while True:
            yield {n: rnd.choice(doms[n]) for n in names}


def domain(ty, tier):
    k = ty[0]
    if k == 'int':
        return range(-2, 7)
    if k == 'bool':
        return [False, True]
    if k == 'str':
        return list(strings('ab.\n :', 3))
    if k == 'none':
        return [None]
    if k == 'opt':
        return [None] + list(domain(ty[1], tier))
    if k == 'list':
        inner = list(domain(ty[1], tier))[:12]
        out = [[]]
        for n in (1, 2, 3):
            for tup in itertools.product(inner[:6], repeat=n):
                out.append(list(tup))
        return out
    if k == 'tuple':
        return [tuple(t) for t in itertools.product(*[list(domain(x, tier))[:6] for x in ty[1]])]
    raise NotImplementedError('no default domain for %r' % (ty,))


def search(c, tier, seed, budget_s, max_inputs, gen=None, want_failure=True):
    """Enumerate inputs; returns (n_evaluated, n_valid, distinct_outcomes, first failure or None)."""
    import gens
    g = None
    if gen is not None:
        g = gen
    elif c.gen:
        g = getattr(gens, c.gen)(tier, seed)
    else:
        try:
            g = default_gen(c, tier, seed)
        except NotImplementedError:
            return 0, 0, 0, None, 'no generator'
    fn = real_function(c)
    t0 = time.time()
    n = valid = 0
    outcomes = set()
    failure = None
    for args in g:
        if n >= max_inputs or time.time() - t0 > budget_s:
            break
        n += 1
        r = check_native(c, args, fn)
        if r == 'skip':
            continue
        valid += 1
        if r is not None:
            failure = {'args': args, 'index': n - 1, 'seed': seed, 'tier': tier, **r}
            break
    return n, valid, len(outcomes), failure, None


def regenerate(c, tier, seed, index):
    """The index-th input of the contract's deterministic generator stream (for replay)."""
    import gens
    if c.gen:
        g = getattr(gens, c.gen)(tier, seed)
    else:
        try:
            g = default_gen(c, tier, seed)
        except NotImplementedError:
            return None
    for k, args in enumerate(g):
        if k == index:
            return args
        if k > index:
            break
    return None
