"""Development driver: verify one function and print the obligation table."""
import sys, os, time, importlib
sys.path.insert(0, os.path.join(os.environ.get('VERIF_REPO', '/repo'), 'src'))
sys.path.insert(0, os.path.dirname(os.path.dirname(os.path.abspath(__file__))))
from pyvc import smt, solve, contracts as C
from pyvc.executor import Exec
from pyvc.vals import Undecided

def main():
    modname, qual = sys.argv[1], sys.argv[2]
    importlib.import_module('contracts.' + modname)
    eng = Exec()
    c = C.CONTRACTS[qual]
    t0 = time.time()
    obs = eng.verify_function(c)
    print('generated %d obligations in %.1fs; stats %s' % (len(obs), time.time() - t0, eng.stats))
    jobs = []
    for ob in obs:
        texts = ob.texts(eng.ctx)
        jobs.append({'id': ob.id, 'texts': texts, 'budget_s': float(os.environ.get('BUDGET', '10')), 'expect': ob.expect})
        if os.environ.get('DUMP'):
            os.makedirs('/tmp/scratch/dump', exist_ok=True)
            for i, t in enumerate(texts):
                open('/tmp/scratch/dump/%s.%d.smt2' % (ob.id.replace('/', '_').replace(':', '_'), i), 'w').write(t)
    res = solve.solve_all(jobs)
    bad = 0
    for ob in obs:
        r = res[ob.id]
        flag = 'ok ' if r['ok'] else 'FAIL'
        if not r['ok']:
            bad += 1
        print('%s %-70s %-8s %-10s %.2fs %s' % (flag, ob.id, r['verdict'], r['backend'], r['secs'], ob.note[:60]))
    print('%d/%d ok' % (len(obs) - bad, len(obs)))
    solve.shutdown()

if __name__ == '__main__':
    main()
