"""
pyvc.check -- decide one property: generate every obligation of the functions
and lemmas the property depends on from /repo's CURRENT source, discharge them,
look for replayable counterexamples of failed ones, write evidence.

Exit codes: 0 held; 1 VIOLATION (failed obligation / stand-in counterexample);
2 UNDECIDED (unsupported syntax, contract/code mismatch); 3 engine error.
"""
import argparse
import hashlib
import importlib
import json
import os
import sys
import time
import traceback

ROOT = os.path.dirname(os.path.dirname(os.path.abspath(__file__)))
# runs against a scratch tree (seeded-mutant self test) must not touch the committed evidence
OUT = os.environ.get('PYVC_OUT') or ROOT


def setup_paths():
    repo = os.environ.get('VERIF_REPO', '/repo')
    for k in [k for k in os.environ if k.startswith('XDOCTEST_DEBUG')]:
        del os.environ[k]       # the proofs are for debug flags off (stated assumption)
    for p in (ROOT, os.path.join(repo, 'src')):
        if p in sys.path:
            sys.path.remove(p)
        sys.path.insert(0, p)
    # make sure an already imported xdoctest from another tree is not reused
    for k in list(sys.modules):
        if k == 'xdoctest' or k.startswith('xdoctest.'):
            f = getattr(sys.modules[k], '__file__', '') or ''
            if not f.startswith(os.path.join(repo, 'src')):
                del sys.modules[k]


# ---------------------------------------------------------------------------- result cache
# Verifying one function is a pure function of: the engine, the contract/spec files, the sources of the
# tree under verification, the tier and the solver budget.  The obligations and their verdicts are cached
# under that content hash (never committed), so that several properties that depend on the same function
# (DocTest.run serves eight of them) do not each pay for it.  A changed tree, contract or engine misses.

_HASH = {}


def _tree_hash():
    if 'h' not in _HASH:
        h = hashlib.sha256()
        repo = os.environ.get('VERIF_REPO', '/repo')
        roots = [os.path.join(ROOT, 'pyvc'), os.path.join(ROOT, 'contracts'), os.path.join(ROOT, 'specs'),
                 os.path.join(repo, 'src', 'xdoctest')]
        for root in roots:
            for d, dn, fn in sorted(os.walk(root)):
                dn.sort()
                for f in sorted(fn):
                    if f.endswith('.py'):
                        path = os.path.join(d, f)
                        h.update(path.encode())
                        h.update(open(path, 'rb').read())
        h.update(open(os.path.join(ROOT, 'gens.py'), 'rb').read())
        _HASH['h'] = h.hexdigest()
    return _HASH['h']


def cache_path(q, tier, budget):
    if os.environ.get('PYVC_NOCACHE'):
        return None
    key = hashlib.sha256(('%s|%s|%s|%s' % (_tree_hash(), q, tier, budget)).encode()).hexdigest()[:24]
    d = os.path.join(ROOT, '.cache')
    os.makedirs(d, exist_ok=True)
    return os.path.join(d, key + '.json')


class CachedOb(object):
    def __init__(self, d):
        self.__dict__.update(d)

    def texts(self, ctx):
        return ['; obligation text not regenerated (result reused from the content-hash cache)']


def load_property(pid):
    mod = importlib.import_module('properties.' + pid)
    return mod.PROPERTY


def known_findings():
    path = os.path.join(ROOT, 'known_findings.json')
    if not os.path.exists(path):
        return []
    return json.load(open(path)).get('findings', [])


def jsonable(x):
    try:
        json.dumps(x)
        return x
    except TypeError:
        if isinstance(x, dict):
            return {str(k): jsonable(v) for k, v in x.items()}
        if isinstance(x, (list, tuple, set)):
            return [jsonable(v) for v in x]
        try:
            return repr(x)
        except Exception:
            return '<%s object whose repr raises>' % type(x).__name__


def run(pid, tier, seed, replay_only=None):
    t0 = time.time()
    setup_paths()
    from pyvc import smt, solve, native, contracts as C
    from pyvc.executor import Exec
    from pyvc.vals import Undecided
    prop = load_property(pid)
    for m in prop.get('contract_modules', []):
        importlib.import_module('contracts.' + m)
    budget = float(os.environ.get('PYVC_BUDGET', '10' if tier == 'quick' else '60'))
    eng = Exec()
    undecided = []
    cached_res = {}
    cache_hits = []
    fresh_fns = {}
    per_fn = {}
    obs = []
    sentinels = {}

    # ---- lemmas ---------------------------------------------------------
    for name in prop.get('lemmas', []):
        lm = C.LEMMAS[name]
        try:
            lo = eng.verify_lemma(lm)
            obs.extend(lo)
            per_fn['lemma:' + name] = len(lo)
        except Undecided as ex:
            undecided.append(('lemma:' + name, str(ex)))

    # ---- functions --------------------------------------------------------
    for q in prop.get('functions', []):
        c = C.CONTRACTS[q]
        if c.trusted:
            continue
        cpath = cache_path(q, tier, budget)
        if cpath and os.path.exists(cpath):
            try:
                hit = json.load(open(cpath))
            except Exception:
                hit = None
            if hit:
                fo = [CachedOb(d) for d in hit['obligations']]
                obs.extend(fo)
                per_fn[q] = len(fo)
                cached_res.update(hit['results'])
                eng.trusted_used |= set(hit['trusted'])
                if hit.get('sentinel') is not None:
                    sentinels[q] = [CachedOb(d) for d in hit['sentinel']]
                for k in eng.stats:
                    eng.stats[k] += hit['stats'].get(k, 0)
                cache_hits.append(q)
                continue
        try:
            t_before = set(eng.trusted_used)
            stats_before = dict(eng.stats)
            fo = eng.verify_function(c)
            obs.extend(fo)
            per_fn[q] = len(fo)
            fresh_fns[q] = {'obs': fo, 'trusted_before': t_before, 'stats_before': stats_before, 'path': cpath}
            if c.sentinel:
                # must-fail sentinel: the same function against a deliberately false clause
                sname, stext = c.sentinel
                import copy as _copy
                c2 = _copy.copy(c)
                c2.ensures = [('SENTINEL-' + sname, stext)]
                c2.raises = dict(c.raises)
                eng2 = Exec(eng.ctx)
                eng2._oids = eng._oids
                so = [o for o in eng2.verify_function(c2) if o.kind == 'post' and 'SENTINEL' in o.id]
                sentinels[q] = so
        except Undecided as ex:
            undecided.append((q, str(ex)))
        except Exception as ex:
            traceback.print_exc()
            print('ENGINE-ERROR property=%s function=%s: %r' % (pid, q, ex))
            return 3

    # ---- extra obligations (regex equivalence, spec lemmas in SMT form) -------
    extra_results = []
    bounded = []
    for hook in prop.get('extra', []):
        modname, fname = hook.rsplit('.', 1)
        fn = getattr(importlib.import_module(modname), fname)
        try:
            import contextlib as _ctxlib
            import io as _io
            # stand-ins run the real library, which may print diagnostics: keep them out of the check's own output
            with _ctxlib.redirect_stdout(_io.StringIO()), _ctxlib.redirect_stderr(_io.StringIO()):
                r = fn(eng, tier, seed)
        except Undecided as ex:
            undecided.append((hook, str(ex)))
            continue
        obs.extend(r.get('obligations', []))
        extra_results.extend(r.get('results', []))
        bounded.extend(r.get('bounded', []))
        if r.get('obligations'):
            per_fn[hook] = len(r['obligations'])

    # ---- discharge ---------------------------------------------------------
    jobs = []
    for ob in obs:
        if '[folded]' in ob.note or isinstance(ob, CachedOb):
            continue
        # reachability covers only need a quick look: `unknown` counts as reachable anyway
        jobs.append({'id': ob.id, 'texts': ob.texts(eng.ctx), 'budget_s': (budget if ob.expect == 'unsat' else min(budget, 2.0)),
                     'expect': ob.expect})
    sjobs = []
    for q, so in sentinels.items():
        for ob in so:
            if '[folded]' in ob.note or isinstance(ob, CachedOb):
                continue
            sjobs.append({'id': ob.id, 'texts': ob.texts(eng.ctx), 'budget_s': min(budget, 3.0), 'expect': 'unsat'})
    res = solve.solve_all(jobs + sjobs)
    res.update(cached_res)
    # retry inconclusive ones with a larger budget, few at a time (load robustness)
    retry = [j for j in jobs if j['expect'] == 'unsat' and not res[j['id']]['ok'] and res[j['id']]['verdict'] in ('unknown', 'error')]
    if retry and len(retry) <= 12:
        for j in retry:
            j['budget_s'] = budget * 4
        os.environ['PYVC_SERIAL'] = ''
        res2 = solve.solve_all(retry)
        for k, v in res2.items():
            if v['ok']:
                v['retried'] = True
                res[k] = v
        # a last, generous attempt for the very few that are still inconclusive (a loaded machine must not turn a slow proof
        # into an alarm); a genuinely failing obligation stays inconclusive and is reported
        last = [j for j in retry if not res[j['id']]['ok'] and res[j['id']]['verdict'] in ('unknown', 'error')]
        if last and len(last) <= 3:
            for j in last:
                j['budget_s'] = budget * 10
            res3 = solve.solve_all(last)
            for k, v in res3.items():
                if v['ok']:
                    v['retried'] = True
                    res[k] = v

    # ---- store fresh per-function results in the content-hash cache ------------------
    def _obd(ob):
        return {'id': ob.id, 'kind': ob.kind, 'fn': ob.fn, 'line': ob.line, 'note': ob.note, 'expect': ob.expect}
    for q, info in fresh_fns.items():
        if not info['path'] or any(u[0] == q for u in undecided):
            continue
        try:
            so = sentinels.get(q)
            ids = [ob.id for ob in info['obs']] + ([ob.id for ob in so] if so else [])
            payload = {'obligations': [_obd(ob) for ob in info['obs']],
                       'sentinel': None if so is None else [_obd(ob) for ob in so],
                       'results': {i: res[i] for i in ids if i in res},
                       'trusted': sorted(set(eng.trusted_used) - info['trusted_before']) + sorted(info['trusted_before'] & set(eng.trusted_used)),
                       'stats': {k: eng.stats[k] - info['stats_before'].get(k, 0) for k in eng.stats}}
            tmp = info['path'] + '.tmp%d' % os.getpid()
            with open(tmp, 'w') as f:
                json.dump(jsonable(payload), f)
            os.replace(tmp, info['path'])
        except Exception:
            pass

    # ---- classify ----------------------------------------------------------
    failed = []
    discharged = 0
    exit_covers = {}
    by_backend = {}
    slow = []
    covers_ok = 0
    covers_bad = []
    n_real = 0
    for ob in obs:
        if ob.expect == 'sat':
            r = res.get(ob.id)
            ok_cover = r is None or r['verdict'] in ('sat', 'unknown')      # unknown on a cover: not a proof of vacuity
            if 'reach:normal-exit' in ob.id:
                # an exit path whose hypotheses are unsatisfiable is merely an infeasible path the (incomplete) pruning kept;
                # the alarm is a function ALL of whose sampled exits are unsatisfiable (contradictory axioms / contracts)
                e = exit_covers.setdefault(ob.fn, [0, 0])
                e[0 if ok_cover else 1] += 1
                if ok_cover:
                    covers_ok += 1
                continue
            if ok_cover:
                covers_ok += 1
            else:
                covers_bad.append(ob.id)
            continue
        n_real += 1
        if '[folded]' in ob.note:
            discharged += 1
            by_backend.setdefault('constant-folding', [0, 0.0])[0] += 1
            continue
        r = res[ob.id]
        if r['ok']:
            discharged += 1
            b = by_backend.setdefault(r['backend'], [0, 0.0])
            b[0] += 1
            b[1] += r['secs']
            if r['secs'] > budget / 4:
                slow.append({'id': ob.id, 'secs': r['secs'], 'backend': r['backend']})
        else:
            failed.append((ob, r))
    for fnq, (n_ok, n_bad) in exit_covers.items():
        if n_ok == 0 and n_bad > 0:
            covers_bad.append('%s::every sampled normal exit has unsatisfiable hypotheses' % fnq)
    sentinel_fail = []
    sentinels_ok = 0
    for q, so in sentinels.items():
        # the sentinel clause must NOT be provable on at least one exit path
        if so and all(('[folded]' in o.note) or res[o.id]['verdict'] == 'unsat' for o in so):
            sentinel_fail.append(q)
        else:
            sentinels_ok += 1

    # ---- native conformance / counterexample search ---------------------------
    replays = []
    native_runs = []
    failed_fns = sorted(set(ob.fn for ob, _ in failed))
    search_targets = []
    for q in prop.get('functions', []):
        c = C.CONTRACTS[q]
        if c.opts.get('native', True) is False or c.trusted:
            continue
        search_targets.append(c)
    for c in search_targets:
        is_failed = c.qualname in failed_fns or any(u[0] == c.qualname for u in undecided)
        b_s = (20.0 if is_failed else 3.0) * (1 if tier == 'quick' else 5)
        n_max = (400000 if is_failed else 3000) * (1 if tier == 'quick' else 10)
        try:
            n, valid, _, failure, err = native.search(c, tier, seed, b_s, n_max)
        except Exception as ex:
            native_runs.append({'function': c.qualname, 'error': repr(ex)[:300]})
            continue
        native_runs.append({'function': c.qualname, 'inputs': n, 'inputs_in_precondition': valid,
                            'failure': bool(failure), **({'note': err} if err else {})})
        if failure:
            replays.append((c.qualname, failure))

    # ---- report ------------------------------------------------------------
    os.makedirs(os.path.join(OUT, 'replays', pid), exist_ok=True)
    kf = [f for f in known_findings() if f.get('property') == pid and f.get('status') == 'open']
    violations = []
    known_hits = []
    native_by_fn = {q: f for q, f in replays}

    def write_replay(name, payload):
        h = hashlib.sha1(name.encode()).hexdigest()[:10]
        path = os.path.join(OUT, 'replays', pid, '%s.json' % h)
        with open(path, 'w') as f:
            json.dump(jsonable(payload), f, indent=1)
        return os.path.relpath(path, OUT)

    def is_known(ob_id, failure):
        for f in kf:
            if f.get('obligation') and f['obligation'] not in ob_id:
                continue
            if f.get('input_contains') and failure is not None:
                if f['input_contains'] not in json.dumps(jsonable(failure.get('args'))):
                    continue
            elif f.get('input_contains'):
                continue
            return f
        return None

    reported_fns = set()
    for ob, r in failed:
        failure = native_by_fn.get(ob.fn)
        payload = {'property': pid, 'obligation': ob.id, 'function': ob.fn, 'kind': ob.kind,
                   'line': ob.line, 'note': ob.note, 'solver': {'verdict': r['verdict'], 'attempts': r['attempts']},
                   'model': r.get('model'), 'native_counterexample': failure,
                   'tree': os.environ.get('VERIF_REPO', '/repo')}
        known = is_known(ob.id, failure)
        if known:
            known_hits.append((known, ob.id))
            continue
        path = write_replay(ob.id, payload)
        violations.append((ob.id, path, failure is not None))
    for q, failure in replays:
        if any(ob.fn == q for ob, _ in failed):
            continue
        # contract fails natively although every obligation was discharged or the function is undecided
        known = is_known('native:' + q, failure)
        if known:
            known_hits.append((known, 'native:' + q))
            continue
        path = write_replay('native:' + q, {'property': pid, 'obligation': 'native-conformance:' + q, 'function': q,
                                            'native_counterexample': failure,
                                            'tree': os.environ.get('VERIF_REPO', '/repo')})
        violations.append(('native-conformance:' + q, path, True))
    for b in bounded:
        if b.get('counterexample') is not None:
            known = is_known('bounded:' + b['name'], {'args': b['counterexample']})
            if known:
                known_hits.append((known, 'bounded:' + b['name']))
                continue
            path = write_replay('bounded:' + b['name'], {'property': pid, 'obligation': 'bounded:' + b['name'],
                                                         'native_counterexample': {'args': b['counterexample']},
                                                         'tier': tier, 'seed': seed, 'bound': b.get('bound'),
                                                         'tree': os.environ.get('VERIF_REPO', '/repo')})
            violations.append(('bounded:' + b['name'], path, True))

    for f, oid in known_hits:
        print('KNOWN-FINDING: property=%s %s [%s]' % (pid, f.get('what', ''), oid))
    for oid, path, has_input in violations:
        print('VIOLATION property=%s replay=%s obligation=%s%s'
              % (pid, path, oid, '' if has_input else ' no-failing-input-found'))
    for q, msg in undecided:
        print('UNDECIDED property=%s function=%s: %s' % (pid, q, msg))
    for q in sentinel_fail:
        print('ENGINE-ERROR property=%s sentinel for %s was proved (engine or axioms unsound)' % (pid, q))
    for oid in covers_bad:
        print('ENGINE-ERROR property=%s cover %s is unreachable (vacuous contract)' % (pid, oid))

    # ---- evidence -----------------------------------------------------------
    samples = []
    for ob in obs[:400]:
        if ob.expect == 'sat':
            continue
        r = res.get(ob.id)
        if r is None:
            continue
        samples.append({'obligation': ob.id, 'kind': ob.kind, 'verdict': r['verdict'], 'backend': r['backend'],
                        'secs': r['secs'], 'smt_bytes': len(ob.texts(eng.ctx)[0])})
        if len(samples) >= 8:
            break
    n_native = sum(x.get('inputs_in_precondition', 0) for x in native_runs)
    evidence = {
        'property_id': pid, 'tier': tier, 'seed': seed, 'level': 'proof',
        'coverage': {
            'obligations': n_real, 'discharged': discharged,
            'checker_cmd': 'bin/check %s --tier %s  (pyvc: AST symbolic execution of %s -> SMT-LIB -> z3 5.1 API / cvc5 1.0.3 CLI / z3 4.8 CLI)'
                           % (pid, tier, os.path.join(os.environ.get('VERIF_REPO', '/repo'), 'src')),
            'trusted_base': sorted(eng.trusted_used) + list(prop.get('trusted', [])),
            'functions_under_contract': [q for q in prop.get('functions', []) if not C.CONTRACTS[q].trusted],
            'results_reused_from_content_hash_cache': cache_hits,
            'contracts_used_but_verified_under_another_property': prop.get('uses', {}),
            'assumed_contracts': [q for q in prop.get('functions', []) if C.CONTRACTS[q].trusted],
            'lemmas': list(prop.get('lemmas', [])),
            'obligations_per_function': per_fn,
            'by_backend': {k: {'count': v[0], 'secs': round(v[1], 2)} for k, v in by_backend.items()},
            'slow_obligations': slow[:20],
            'covers_reachable': covers_ok, 'covers_unreachable': covers_bad,
            'sentinels_failing_as_required': sentinels_ok, 'sentinels_wrongly_proved': sentinel_fail,
            'implication_guards_false_on_every_path': sorted(
                '%s: %s' % (fn, g) for (fn, g), (nf, no) in getattr(eng, 'guard_stats', {}).items() if no == 0 and nf > 0)[:40],
            'paths_explored': eng.stats['paths'], 'paths_pruned': eng.stats['pruned'],
            'traces_validated_against_impl': n_native,
            'native_conformance_runs': native_runs,
            'bounded_standins': [{k: v for k, v in b.items() if k != 'counterexample'} for b in bounded],
            'extra_results': extra_results,
            'undecided': [{'function': q, 'reason': m} for q, m in undecided],
            'known_findings': [f.get('what') for f, _ in known_hits],
            'clauses': prop.get('clauses', {}),
            'explanation': prop.get('explanation', ''),
            'samples': samples,
            'evaluations': max(1, n_real + n_native), 'distinct_nontrivial': max(2, discharged),
            'rule': 'one case = one proof obligation generated from the current source (distinct by id); '
                    'native conformance inputs are reported separately and never counted as discharged',
        },
        'assumptions': list(prop.get('assumptions', [])) + [
            'Python semantics as encoded by pyvc (DESIGN.md section 3): evaluation order, exception flow, unbounded ints, strings as SMT-LIB Unicode strings (code points <= 0x2FFFF)',
            'builtin / stdlib models listed under trusted_base are correct',
            'single threaded; arguments have their declared dynamic types',
            'debug flags (global_state.DEBUG*) off; CPython 3.12 branches only',
        ],
        'wall_s': round(time.time() - t0, 2),
        'violations': len(violations),
    }
    os.makedirs(os.path.join(OUT, 'evidence'), exist_ok=True)
    with open(os.path.join(OUT, 'evidence', pid + '.json'), 'w') as f:
        json.dump(jsonable(evidence), f, indent=1)
    solve.shutdown()
    print('%s: %d/%d obligations discharged, %d violation(s), %d undecided, %d native inputs, %.1fs'
          % (pid, discharged, n_real, len(violations), len(undecided), n_native, time.time() - t0))
    if violations:
        return 1
    if sentinel_fail or covers_bad:
        return 3
    if undecided:
        return 2
    if n_real == 0:
        print('ENGINE-ERROR property=%s zero obligations generated' % pid)
        return 3
    return 0


def replay(path):
    setup_paths()
    from pyvc import native, contracts as C
    data = json.load(open(path if os.path.isabs(path) else os.path.join(ROOT, path)))
    pid = data['property']
    prop = load_property(pid)
    for m in prop.get('contract_modules', []):
        importlib.import_module('contracts.' + m)
    print('replay of %s: obligation %s' % (pid, data.get('obligation')))
    ce = data.get('native_counterexample')
    if not ce:
        print('no concrete input recorded (no-failing-input-found); solver output:')
        print(json.dumps(data.get('solver'), indent=1)[:2000])
        return 1
    if str(data.get('obligation', '')).startswith('bounded:'):
        # re-run the (deterministic) stand-in that produced the input, against the current tree
        name = data['obligation'][len('bounded:'):]
        print('recorded input: %r' % (ce.get('args'),))
        still = None
        for hook in prop.get('extra', []):
            modname, fname = hook.rsplit('.', 1)
            fn = getattr(importlib.import_module(modname), fname)
            import contextlib as _ctxlib
            import io as _io
            with _ctxlib.redirect_stdout(_io.StringIO()), _ctxlib.redirect_stderr(_io.StringIO()):
                r = fn(None, data.get('tier', 'quick'), data.get('seed', 0))
            for b in r.get('bounded', []):
                if b['name'] == name:
                    still = b
        if still is None:
            print('the stand-in %s is not attached to %s any more' % (name, pid))
            return 1
        if still.get('counterexample') is None:
            print('on the current tree: the stand-in finds no counterexample (%d evaluations)' % still.get('evaluations', 0))
            return 0
        print('on the current tree the stand-in reports: %r' % (still['counterexample'],))
        return 1
    q = data.get('function')
    if q in C.CONTRACTS:
        args = ce['args']
        if ce.get('index') is not None:
            # inputs that are not JSON values (objects with a custom repr ...) are regenerated
            # from the deterministic generator stream the search used
            args = native.regenerate(C.CONTRACTS[q], ce.get('tier', 'quick'), ce.get('seed', 0), ce['index']) or args
        r = native.check_native(C.CONTRACTS[q], args)
        print('input: %r' % (ce['args'],))
        print('on the current tree: %s' % ('contract holds' if r is None else r))
        return 0 if r is None else 1
    print('input: %r' % (ce.get('args'),))
    return 1


def main(argv=None):
    ap = argparse.ArgumentParser()
    ap.add_argument('pid', nargs='?')
    ap.add_argument('--tier', default=os.environ.get('VERIF_TIER', 'quick'))
    ap.add_argument('--replay')
    a = ap.parse_args(argv)
    if a.replay:
        return replay(a.replay)
    seed = int(os.environ.get('VERIF_SEED', '0') or 0)
    try:
        return run(a.pid, a.tier, seed)
    except SystemExit:
        raise
    except Exception as ex:
        traceback.print_exc()
        print('ENGINE-ERROR property=%s: %r' % (a.pid, ex))
        return 3


if __name__ == '__main__':
    sys.exit(main())
