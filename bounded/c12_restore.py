"""Bounded stand-in (labelled bounded, never counted as proved) for C12 end to end: the REAL DocTest.run on doctests that print,
replace sys.stdout, alter the warning filters or await, ended by every outcome kind (pass, output mismatch, exception, expected
exception, early exit, all skipped, import failure of the module under test, SystemExit, KeyboardInterrupt) at every position,
with on_error in {return, raise}: afterwards sys.stdout and sys.stderr are the original objects, sys.path and the warning filters
are unchanged and no event loop is running.  Also: import_module_from_path on a module that imports fine / raises."""
import itertools
import os
import shutil
import sys
import tempfile
import warnings

BODIES = {
    'print':          [">>> print('x')"],
    'replace_stdout': [">>> import sys, io", ">>> sys.stdout = io.StringIO()", ">>> print('lost')"],
    'warnfilter':     [">>> import warnings", ">>> warnings.simplefilter('ignore')"],
    'await':          [">>> import asyncio", ">>> await asyncio.sleep(0)"],
}
ENDS = {
    'pass':        [">>> print('end')", "end"],
    'mismatch':    [">>> print('end')", "other"],
    'exception':   [">>> raise ValueError('boom')"],
    'expected':    [">>> raise ValueError('boom')", "Traceback (most recent call last):", "    ...", "ValueError: boom"],
    'early_exit':  [">>> from xdoctest import ExitTestException", ">>> raise ExitTestException()"],
    'system_exit': [">>> raise SystemExit(3)"],
    'interrupt':   [">>> raise KeyboardInterrupt()"],
    'skipped':     [">>> # xdoctest: +SKIP", ">>> print('never')"],
}


def snapshot():
    return (sys.stdout, sys.stderr, list(sys.path), list(warnings.filters))


def compare(before, what):
    out, err, path, filt = before
    if sys.stdout is not out:
        sys.stdout = out
        return '%s: sys.stdout is not the original object' % what
    if sys.stderr is not err:
        sys.stderr = err
        return '%s: sys.stderr is not the original object' % what
    if sys.path != path:
        sys.path[:] = path
        return '%s: sys.path changed' % what
    if list(warnings.filters) != filt:
        warnings.filters[:] = filt
        return '%s: the warning filters changed' % what
    try:
        import asyncio
        asyncio.get_running_loop()
        return '%s: an event loop is left running' % what
    except RuntimeError:
        pass
    return None


def run(eng, tier, seed):
    import importlib
    de = importlib.import_module('xdoctest.doctest_example')
    ui = importlib.import_module('xdoctest.utils.util_import')
    tmp = tempfile.mkdtemp(prefix='xdrestore_')
    n = 0
    cex = None
    try:
        good = os.path.join(tmp, 'xdrestore_good.py')
        bad = os.path.join(tmp, 'xdrestore_bad.py')
        open(good, 'w').write("VALUE = 1\n")
        open(bad, 'w').write("raise RuntimeError('cannot import me')\n")
        names = sorted(BODIES)
        combos = [()] + [(b,) for b in names] + (list(itertools.permutations(names, 2)) if tier != 'quick' else
                                                 [('replace_stdout', 'warnfilter'), ('await', 'replace_stdout')])
        for body in combos:
            for end, pos, on_error, modpath in itertools.product(sorted(ENDS), ('last', 'first'), ('return', 'raise'), (None, good, bad)):
                if modpath is not None and (body or pos == 'first'):
                    continue            # module variants only with the plain shapes
                lines = []
                chunks = [BODIES[b] for b in body]
                chunks = ([ENDS[end]] + chunks) if pos == 'first' else (chunks + [ENDS[end]])
                for c in chunks:
                    lines.extend(c)
                    lines.append('')
                text = '\n'.join(lines)
                dt = de.DocTest(text, callname='gen', modpath=modpath, mode='native')
                before = snapshot()
                n += 1
                try:
                    dt.run(on_error=on_error, verbose=0)
                except BaseException:       # noqa: every way out is a case of the property
                    pass
                problem = compare(before, 'after run(on_error=%r)' % on_error)
                for name in ('xdrestore_good', 'xdrestore_bad'):
                    sys.modules.pop(name, None)
                if problem is not None:
                    cex = {'docsrc': text, 'modpath': None if modpath is None else os.path.basename(modpath), 'on_error': on_error,
                           'problem': problem}
                    break
            if cex is not None:
                break
        for path in (good, bad):
            if cex is not None:
                break
            before = snapshot()
            n += 1
            try:
                ui.import_module_from_path(path)
            except BaseException:       # noqa
                pass
            problem = compare(before, 'after import_module_from_path(%s)' % os.path.basename(path))
            for name in ('xdrestore_good', 'xdrestore_bad'):
                sys.modules.pop(name, None)
            if problem is not None:
                cex = {'path': os.path.basename(path), 'problem': problem}
    finally:
        shutil.rmtree(tmp, ignore_errors=True)
    return {'bounded': [{'name': 'C12.process-state-restored',
                         'bound': '%d body combinations x 8 outcome kinds x 2 positions x on_error in {return, raise} (+ module under test '
                                  'importable / failing) on the real DocTest.run; import_module_from_path on both modules' % len(combos),
                         'evaluations': n, 'counterexample': cex}]}
