"""Bounded stand-in (labelled bounded, never counted as proved) for C11 end to end: doctests of one scratch module that bind
clashing names, read names other doctests bind, rebind a module global, leave SKIP / an unmet REQUIRES switched on, replace
sys.stdout, change the warning filters.  Every ordered selection (with repetition) of up to N of them is run in one process
by the REAL DocTest.run, all sharing one configuration dict with non-empty default directive options (as the runners do);
the outcome and the captured output of each doctest must equal those of running it alone in a fresh state."""
import itertools
import os
import shutil
import sys
import tempfile
import warnings

MODULE = "shared = 'module'\n"
DOCTESTS = {
    'binds':        [">>> leak = 1", ">>> print('bound')", "bound"],
    'reads':        [">>> try:", "...     print('leaked %r' % (leak,))", "... except NameError:", "...     print('clean')", "clean"],
    'rebinds_mod':  [">>> shared = 'changed'", ">>> print(shared)", "changed"],
    'reads_mod':    [">>> print(shared)", "module"],
    'leaves_skip':  [">>> print('before')", "before", ">>> # xdoctest: +SKIP", ">>> print('skipped')"],
    'leaves_req':   [">>> print('before')", "before", ">>> # xdoctest: +REQUIRES(module:no_such_module_xyz)", ">>> print('skipped')"],
    'plain':        [">>> print('plain')", "plain"],
    'steals_stdout': [">>> import sys, io", ">>> sys.stdout = io.StringIO()", ">>> print('lost')"],
    'strict_warn':  [">>> import warnings", ">>> warnings.simplefilter('error')", ">>> print('strict')", "strict"],
    'warns':        [">>> import warnings", ">>> warnings.warn('careful')", ">>> print('warned')", "warned"],
    'fails':        [">>> print('x')", "y"],
}


def run_one(de, name, modpath, config):
    dt = de.DocTest('\n'.join(DOCTESTS[name]) + '\n', callname=name, modpath=modpath, mode='native')
    dt.config.update(config)
    s = dt.run(on_error='return', verbose=0)
    verdict = 'failed' if s['failed'] else ('skipped' if s['skipped'] else 'passed')
    exc = None if dt.exc_info is None else dt.exc_info[0].__name__
    return (verdict, exc, tuple(sorted((k, v) for k, v in dt.logged_stdout.items())))


def run(eng, tier, seed):
    import importlib
    de = importlib.import_module('xdoctest.doctest_example')
    tmp = tempfile.mkdtemp(prefix='xdisol_')
    modpath = os.path.join(tmp, 'xdisol_mod.py')
    open(modpath, 'w').write(MODULE)
    names = sorted(DOCTESTS)
    stdout0, filters0 = sys.stdout, list(warnings.filters)
    n = 0
    cex = None
    try:
        def fresh_config():
            return {'default_runtime_state': {'IGNORE_WHITESPACE': True}}
        solo = {}
        for name in names:
            solo[name] = run_one(de, name, modpath, fresh_config())
            sys.modules.pop('xdisol_mod', None)
        depth = 2 if tier == 'quick' else 3
        for seq in itertools.product(names, repeat=depth):
            config = fresh_config()         # one dict shared by the whole sequence, as runner.doctest_module does
            for k, name in enumerate(seq):
                got = run_one(de, name, modpath, config)
                n += 1
                if got != solo[name]:
                    cex = {'sequence': list(seq), 'position': k, 'doctest': DOCTESTS[name],
                           'problem': '%s behaves differently after %r: %r, alone: %r' % (name, list(seq[:k]), got, solo[name])}
                    break
            sys.modules.pop('xdisol_mod', None)
            if cex is not None:
                break
        # the SAME doctest object run again (after a passing and after a failing run) behaves as the first time
        for tail in (['>>> print(1)', '1'], ['>>> print(1)', '2']):
            if cex is not None:
                break
            text = '\n'.join([">>> n = globals().get('n', 0) + 1", ">>> print(n)", "1"] + tail) + '\n'
            dt = de.DocTest(text, callname='again', modpath=modpath, mode='native')
            outs = []
            for _ in range(3):
                s_ = dt.run(on_error='return', verbose=0)
                n += 1
                outs.append((bool(s_['failed']), dt.failed_part.exec_lines if s_['failed'] else None, dict(dt.logged_stdout)))
            sys.modules.pop('xdisol_mod', None)
            if outs[0] != outs[1] or outs[0] != outs[2]:
                cex = {'docsrc': text, 'problem': 'the same doctest run three times in a row: %r' % (outs,)}
    finally:
        sys.stdout = stdout0
        warnings.filters[:] = filters0
        sys.modules.pop('xdisol_mod', None)
        shutil.rmtree(tmp, ignore_errors=True)
    return {'bounded': [{'name': 'C11.order-independence',
                         'bound': 'every sequence (with repetition) of %d doctests out of %d, sharing one config dict with non-empty default '
                                  'options, on the real DocTest.run, each compared with its solo run' % (2 if tier == 'quick' else 3, len(names)),
                         'evaluations': n, 'counterexample': cex}]}
