"""Bounded stand-in (labelled bounded, never counted as proved) for the ast / tokenize based half of chunk packaging that the
deductive contract of DoctestParser._package_chunk assumes: the REAL _locate_ps1_linenos / _package_chunk on every sequence of
up to N statements drawn from a pool of statement shapes (one-liners, expressions, PS2 and PS1 continuation lines, decorated
definitions with two decorators, triple-quoted strings spanning lines, comment lines, block and inline directives), with and
without a want.  Run-time postconditions (written from C01 / C04 / C08, not from the code):

 Q1 every source line of the chunk is in exactly one part, in order (exec_lines and orig_lines concatenate to the chunk);
 Q2 a part's line_offset is lineno + the number of chunk lines before it;
 Q3 no statement is cut: every part's source parses on its own;
 Q4 a statement carrying an inline directive is alone in its part; a block directive line starts a part, and no statement of the
    chunk that is not covered by a directive shares a part with an inline-directive statement;
 Q5 only the last part carries the want; without a want it is compiled in exec mode;
 Q6 _locate_ps1_linenos returns exactly the first lines of the statements;
 Q7 no part is empty (an empty part shows up as a spurious blank line in the displayed source).
"""
import ast
import itertools

# (lines, kind): lines of one statement as exec text; kind: plain | expr | inline | block
POOL = [
    (['x = 1'], 'plain'),
    (['print(x)'], 'expr'),
    (['x'], 'expr'),
    (['def f(a):', '    return a'], 'plain'),
    (['y = [1,', '     2]'], 'plain'),
    (['@dec', '@dec2', 'def g():', '    pass'], 'plain'),
    (['s = """a', 'b"""'], 'plain'),
    (['# a comment'], 'plain'),
    (['# xdoctest: +SKIP'], 'block'),
    (['print(2)  # xdoctest: +SKIP'], 'inline'),
    (['# xdoctest: +REQUIRES(module:no_such_module_xyz)'], 'block'),
    (['x + 1  # xdoctest: +ELLIPSIS'], 'inline'),
    (['w = (1 +', '     2)  # xdoctest: +SKIP'], 'inline'),        # the directive on the continuation line
    (['z = (1 +  # xdoctest: +SKIP', '     2)'], 'inline'),
    (["'abc'  # xdoctest: +SKIP"], 'inline'),                       # a statement made of a string literal only is still code
]


def render(stmts, ps2):
    """Source lines of a chunk: first line of a statement with '>>> ', the others with '... ' (ps2) or '>>> '."""
    out, starts = [], []
    for lines, _ in stmts:
        starts.append(len(out))
        for k, ln in enumerate(lines):
            out.append(('>>> ' if (k == 0 or not ps2) else '... ') + ln)
    return out, starts


def check_chunk(parser_mod, stmts, ps2, want, lineno):
    P = parser_mod.DoctestParser()
    src, starts = render(stmts, ps2)
    exec_all = [ln[4:] for ln in src]
    try:
        ast.parse('\n'.join(exec_all))
    except SyntaxError:
        return None, 0         # not a well-formed chunk: outside the precondition
    ps1, mode = P._locate_ps1_linenos(src)
    if list(ps1) != starts:
        return 'Q6: statement starts %r, expected %r' % (list(ps1), starts), 1
    parts = list(P._package_chunk(src, list(want), lineno))
    got_exec = list(itertools.chain.from_iterable(p.exec_lines for p in parts))
    got_orig = list(itertools.chain.from_iterable(p.orig_lines for p in parts))
    if got_exec != exec_all or got_orig != src:
        return 'Q1: the parts do not partition the chunk: %r' % ([p.exec_lines for p in parts],), 1
    if any(len(p.exec_lines) == 0 for p in parts):
        return 'Q7: an empty part is produced: %r' % ([p.exec_lines for p in parts],), 1
    off = lineno
    for p in parts:
        if p.line_offset != off:
            return 'Q2: part starting with %r has line_offset %r, expected %r' % (p.exec_lines[:1], p.line_offset, off), 1
        off += len(p.exec_lines)
        try:
            ast.parse('\n'.join(p.exec_lines))
        except SyntaxError:
            return 'Q3: a statement is cut: part %r does not parse on its own' % (p.exec_lines,), 1
    # Q4: directive scope
    bounds = []         # (first line, end line) of every part
    a = 0
    for p in parts:
        bounds.append((a, a + len(p.exec_lines)))
        a += len(p.exec_lines)
    for k, (lines, kind) in enumerate(stmts):
        lo, hi = starts[k], starts[k] + len(lines)
        if kind == 'inline':
            if (lo, hi) not in bounds:
                return 'Q4: the statement %r with an inline directive is not alone in its part (parts %r)' % (lines, bounds), 1
            p = parts[bounds.index((lo, hi))]
            if not p.directives or not p.directives[0].inline:
                return 'Q4: the part of %r lost its inline directive' % (lines,), 1
        elif kind == 'block':
            if lo not in [b[0] for b in bounds]:
                return 'Q4: the block directive %r does not start a part (parts %r)' % (lines, bounds), 1
            p = parts[[b[0] for b in bounds].index(lo)]
            if not p.directives or p.directives[0].inline:
                return 'Q4: the part started by %r does not carry it as a block directive' % (lines,), 1
    n_dir_parts = sum(1 for p in parts if p.directives)
    n_dir_stmts = sum(1 for _, kind in stmts if kind in ('inline', 'block'))
    if n_dir_parts != n_dir_stmts:
        return 'Q4: %d statements carry directives but %d parts do' % (n_dir_stmts, n_dir_parts), 1
    for p in parts[:-1]:
        if p.want_lines:
            return 'Q5: a part before the last one carries a want', 1
    last = parts[-1]
    if list(last.want_lines or []) != list(want):
        return 'Q5: the last part does not carry the want', 1
    if not want and last.compile_mode != 'exec':
        return 'Q5: no want but compile mode %r' % (last.compile_mode,), 1
    if want and stmts[-1][1] == 'expr' and len(stmts[-1][0]) == 1 and bounds[-1] != (starts[-1], len(src)):
        return 'Q5: the final expression whose value is compared with the want is not alone in the last part', 1
    return None, 1


def run(eng, tier, seed):
    import importlib
    parser_mod = importlib.import_module('xdoctest.parser')
    nmax = 3 if tier == 'quick' else 4
    n = 0
    skipped = 0
    cex = None
    for length in range(1, nmax + 1):
        for combo in itertools.product(range(len(POOL)), repeat=length):
            stmts = [POOL[k] for k in combo]
            for ps2 in (True, False):
                if not ps2 and all(len(s[0]) == 1 for s in stmts):
                    continue        # same rendering as ps2=True
                for want in ((), ('1',)):
                    try:
                        problem, counted = check_chunk(parser_mod, stmts, ps2, want, 7)
                    except Exception as ex:      # noqa
                        problem, counted = '_package_chunk raised %r' % (ex,), 1
                    n += counted
                    skipped += 1 - counted
                    if problem is not None and cex is None:
                        cex = {'source_lines': render(stmts, ps2)[0], 'want_lines': list(want), 'lineno': 7, 'problem': problem}
            if cex is not None:
                break
        if cex is not None:
            break
    return {'bounded': [{'name': 'C01.chunk-packaging',
                         'bound': 'every sequence of 1..%d statements from a pool of %d shapes x continuation style x want/no want '
                                  'on the real _locate_ps1_linenos and _package_chunk' % (nmax, len(POOL)),
                         'evaluations': n, 'counterexample': cex}]}
