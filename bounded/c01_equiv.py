"""Bounded stand-in (labelled bounded, never counted as proved) for the clause of C01 that no contract within reach decides: "the
text written to stdout and the final variable bindings are the same as executing the de-prompted source as an ordinary Python
program".  Doctests are generated from a statement grammar (simple, compound, decorated, multi-line, async / top-level await,
comments, expression statements) in every prompt style ('>>>' everywhere, '...' continuations, unprefixed lines inside a
multi-line string), at indentation 0 / 4, with blank lines and prose between groups, without wants or with CORRECT wants (everything written since the previous want)
after some of the groups; the last statement prints every binding.  The REAL parser and DocTest.run must log exactly the stdout that a reference
execution of the de-prompted program writes (exec of the plain source in a fresh namespace)."""
import ast
import asyncio
import contextlib
import io
import random

# statement templates: lines of plain source ({k} = unique number); 'string' marks lines 2.. as inside a string literal
STATEMENTS = [
    (["v{k} = {k}"], None),
    (["print('p{k}', v0 if 'v0' in globals() else None)"], None),
    (["v{k} = [i * {k} for i in range(3)]", "print(v{k})"], None),
    (["for i{k} in range(2):", "    print('loop{k}', i{k})"], None),
    (["if {k} % 2:", "    v{k} = 'odd'", "else:", "    v{k} = 'even'"], None),
    (["def f{k}(a, b=2):", "    return a * b + {k}", "v{k} = f{k}(3)"], 'twostmts'),
    (["def dec{k}(f):", "    return lambda *a: ('decorated', f(*a))", "@dec{k}", "def g{k}(a):", "    return a", "print(g{k}({k}))"], 'threestmts'),
    (["v{k} = '''first{k}", "second line", "third'''", "print(v{k})"], 'string'),
    (["# a comment {k}", "v{k} = ({k},", "       {k} + 1)"], None),
    (["{k} + 1"], 'expr'),
    (["import asyncio", "await asyncio.sleep(0)", "v{k} = 'awaited'"], None),
    (["async def co{k}():", "    return {k}", "v{k} = await co{k}()"], 'twostmts'),
    (["try:", "    v{k} = 1 // 0", "except ZeroDivisionError:", "    v{k} = 'caught'", "finally:", "    print('finally{k}')"], None),
    (["with __import__('contextlib').suppress(KeyError):", "    v{k} = {{}}['missing']"], None),
    (["class C{k}:", "    attr = {k}", "    def m(self):", "        return self.attr", "print(C{k}().m())"], 'twostmts'),
    (["v{k} = 1; print('semi{k}')"], None),
    (["v{k} = 1 + \\", "    {k}"], None),
    (["v{k} = f'{{ {k} + 1 }} and {{{{literal}}}}'", "print(v{k})"], None),
    (["print('no newline{k}', end='')", "print()"], None),
    (["v{k} = (lambda a: a + {k})(1)"], None),
    (["if (n{k} := {k}) > 0:", "    v{k} = n{k}"], None),
    (["v{k} = '>>> not a prompt # xdoctest: +SKIP'"], None),        # (its text is only shown by the final repr: a want line cannot start with a prompt)
    (["v{k} = [", "    1,", "", "    2]"], None),
]
FINAL = ["print(sorted((n, repr(v)) for n, v in globals().items() if n.startswith('v') and n[1:].isdigit()))"]


def statement_starts(lines):
    """Indices of the lines that start a top-level statement of the plain source."""
    tree = ast.parse('\n'.join(lines))
    starts = set()
    for node in tree.body:
        first = node.lineno
        if getattr(node, 'decorator_list', None):
            first = min(d.lineno for d in node.decorator_list)
        starts.add(first - 1)
    # comment-only lines before a statement are lines of their own
    for j, ln in enumerate(lines):
        if ln.startswith('#'):
            starts.add(j)
    return starts


def render(groups, style, indent, rnd, wants=None):
    """(docstring text, plain program text); wants: per group None or the text the group writes (placed as its want)."""
    pad = ' ' * indent
    doc = []
    plain = []
    for gi, (lines, kind) in enumerate(groups):
        starts = statement_starts(lines)
        in_string = False
        for j, ln in enumerate(lines):
            plain.append(ln)
            if kind == 'string' and j > 0 and j < len(lines) - 1 and style == 'unprefixed' and in_string:
                doc.append(pad + ln)                # a line inside the string literal, written without any prompt (indented like the prompt)
            elif j in starts or style == 'ps1':
                doc.append(pad + '>>> ' + ln)
            else:
                doc.append(pad + '... ' + ln)
            if kind == 'string' and j == 0:
                in_string = True
            if kind == 'string' and ln.endswith("'''") and j > 0:
                in_string = False
            # classic style: a bare '...' line closes a compound statement
            if style == 'ps2_term' and ln.startswith('    ') and (j + 1 == len(lines) or (j + 1) in starts):
                doc.append(pad + '...')
        if wants is not None and wants[gi] is not None:
            doc.extend(pad + w for w in wants[gi].rstrip('\n').split('\n'))
        if gi < len(groups) - 1 and rnd.random() < 0.4:
            doc.extend(['', 'Some prose between the examples.', ''] if rnd.random() < 0.5 else [''])
    return '\n'.join(doc) + '\n', '\n'.join(plain) + '\n'


def reference(plain):
    ns = {'__name__': '__doctest_reference__'}
    buf = io.StringIO()
    code = compile(plain, '<reference>', 'exec', flags=ast.PyCF_ALLOW_TOP_LEVEL_AWAIT, dont_inherit=True)
    with contextlib.redirect_stdout(buf):
        if code.co_flags & 0x80:        # CO_COROUTINE
            asyncio.run(eval(code, ns))
        else:
            exec(code, ns)
    return buf.getvalue()


def reference_per_group(groups):
    """What each group writes when the groups are executed one after the other in one namespace."""
    ns = {'__name__': '__doctest_reference__'}
    outs = []
    for lines, _kind in groups:
        buf = io.StringIO()
        code = compile('\n'.join(lines) + '\n', '<reference>', 'exec', flags=ast.PyCF_ALLOW_TOP_LEVEL_AWAIT, dont_inherit=True)
        with contextlib.redirect_stdout(buf):
            if code.co_flags & 0x80:
                asyncio.run(eval(code, ns))
            else:
                exec(code, ns)
        outs.append(buf.getvalue())
    return outs


def run(eng, tier, seed):
    import importlib
    de = importlib.import_module('xdoctest.doctest_example')
    rnd = random.Random(seed)
    n = 0
    cex = None
    n_docs = 250 if tier == 'quick' else 3000
    for _ in range(n_docs):
        k0 = rnd.randrange(1, 50)
        groups = []
        for j in range(rnd.randint(1, 5)):
            lines, kind = rnd.choice(STATEMENTS)
            groups.append(([ln.format(k=k0 + j) for ln in lines], kind))
        groups.append((FINAL, None))
        style = rnd.choice(['ps1', 'ps2', 'unprefixed', 'ps2_term'])
        wants = None
        if rnd.random() < 0.5:
            # correct wants (everything written since the previous want) after some of the groups that write something
            try:
                outs = reference_per_group(groups)
            except Exception as ex:      # noqa
                cex = {'docsrc': repr(groups), 'problem': 'generator bug: %r' % (ex,)}
                break
            wants = []
            pending = ''
            for (g_lines, g_kind), o in zip(groups, outs):
                pending += o
                # (no want right after a bare expression statement: there the REPL reading shows its value as well)
                if g_kind != 'expr' and pending.strip() and '\n\n' not in pending and rnd.random() < 0.6:
                    wants.append(pending)
                    pending = ''
                else:
                    wants.append(None)
        text, plain = render(groups, style, rnd.choice([0, 4]), rnd, wants)
        try:
            expected = reference(plain)
        except Exception as ex:      # noqa: the generator must produce programs that run
            cex = {'docsrc': text, 'problem': 'generator bug: the plain program raises %r' % (ex,)}
            break
        dt = de.DocTest(text, callname='gen', mode='native')
        try:
            summary = dt.run(on_error='return', verbose=0)
        except BaseException as ex:      # noqa
            cex = {'docsrc': text, 'plain_program': plain, 'problem': 'run raised %r' % (ex,)}
            break
        n += 1
        got = ''.join(v for _k, v in sorted(dt.logged_stdout.items()))
        if summary['failed']:
            cex = {'docsrc': text, 'plain_program': plain,
                   'problem': 'the doctest fails (%s) although the de-prompted program runs' % (dt.exc_info[0].__name__,)}
            break
        if got != expected:
            cex = {'docsrc': text, 'plain_program': plain, 'problem': 'stdout / final bindings differ: doctest %r, plain program %r' % (got, expected)}
            break
    return {'bounded': [{'name': 'C01.same-as-the-plain-program',
                         'bound': '%d generated doctests (1..5 statement groups of %d shapes, 3 prompt styles, indentation 0/4, prose and blank '
                                  'lines between groups, without wants or with correct wants after some groups), stdout and final bindings compared with exec of the de-prompted source'
                                  % (n_docs, len(STATEMENTS)),
                         'evaluations': n, 'counterexample': cex}]}
