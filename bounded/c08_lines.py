"""Bounded stand-in (labelled bounded, never counted as proved) for C08 end to end: on generated docstrings, every line number the
REAL parsers assign points at the text it claims to describe.  The oracle is the docstring itself: if the docstring starts on
file line L, its j-th line is file line L + j; so for every parsed doctest and every part,

    docstring_lines[doctest.lineno + part.line_offset - L]   is the first source line of that part,

and when a designated statement raises, ``failed_lineno()`` is the file line of that statement.  Every code line of a generated
docstring is unique, so a wrong offset cannot hit an equal line by accident.  Covers what the deductive contracts assume or
drop: split_google_docblocks' offsets, the rebasing loop of doctest_from_parts, _group_labeled_lines.
"""
import itertools
import random

TEXT = [['Some text about the function.'], ['', 'More text,', 'on two lines.'], ['Args:', '    x (int): a number', ''],
        [''], ['Returns:', '\tint: a tab-indented line', '']]

SEPARATORS = ['\x0c', '\x0b', '\x1c', '\x1d', '\x1e', '\x85', '\u2028', '\u2029']


def code_block(ids, indent, want, raise_at=None, label=None, rnd=None):
    """(lines, labels) of one doctest block; ids: list of unique statement numbers; labels: 'text' | 'src' | 'want'."""
    out = []
    labels = []
    pad = ' ' * indent
    if label is not None:
        out.append(pad + label)
        labels.append('text')
        pad += '    '
    for n, k in enumerate(ids):
        shape = n % 3 if rnd is None else rnd.randrange(5)
        if raise_at == k:
            variant = 0 if rnd is None else rnd.randrange(6)
            if variant == 1:
                # the raising line is INSIDE a multi-line statement
                out.append(pad + '>>> y%d = [1,' % k)
                out.append(pad + "...      int('stmt%d')," % k)
                out.append(pad + '...      3]')
                labels += ['src', 'src', 'src']
                code_block.target = ("int('stmt%d')" % k, 'ValueError')
            elif variant == 2:
                # failing code called from a doctest line (the helper is defined by the doctest itself)
                out.append(pad + '>>> def h%d():' % k)
                out.append(pad + "...     raise ValueError('stmt%d')" % k)
                out.append(pad + '>>> h%d()' % k)
                labels += ['src', 'src', 'src']
                code_block.target = ('>>> h%d()' % k, 'ValueError')
            elif variant == 3:
                # a got/want mismatch: the first line of the offending want
                out.append(pad + ">>> print('stmt%d')" % k)
                out.append(pad + 'other%d' % k)
                out.append(pad + 'second%d' % k)
                labels += ['src', 'want', 'want']
                code_block.target = ('other%d' % k, 'GotWantException')
            elif variant == 4:
                # a mismatch right after a statement continued with `...` lines (compiled in single mode)
                out.append(pad + ">>> print('stmt%d' +" % k)
                out.append(pad + "...       '')")
                out.append(pad + 'other%d' % k)
                labels += ['src', 'src', 'want']
                code_block.target = ('other%d' % k, 'GotWantException')
            elif variant == 5:
                # the frame of the doctest goes on running (finally) after the line that raised
                out.append(pad + '>>> try:')
                out.append(pad + "...     raise ValueError('stmt%d')" % k)
                out.append(pad + '... finally:')
                out.append(pad + '...     z%d = 0' % k)
                labels += ['src', 'src', 'src', 'src']
                code_block.target = ("raise ValueError('stmt%d')" % k, 'ValueError')
            else:
                out.append(pad + ">>> raise ValueError('stmt%d')" % k)
                labels.append('src')
                code_block.target = ("raise ValueError('stmt%d')" % k, 'ValueError')
        elif shape == 2:
            out.append(pad + '>>> def f%d():' % k)
            out.append(pad + '...     return %d' % k)
            labels += ['src', 'src']
        elif shape == 3:
            # a bracket left open, completed by a `... ` line, then a bare `...` terminator
            out.append(pad + '>>> w%d = [%d,' % (k, k))
            out.append(pad + '...        %d]' % k)
            out.append(pad + '...')
            labels += ['src', 'src', 'src']
        elif shape == 4:
            out.append(pad + '>>> u%d = (%d +' % (k, k))
            out.append(pad + '>>>        %d)' % k)
            labels += ['src', 'src']
        else:
            out.append(pad + '>>> v%d = %d' % (k, k))
            labels.append('src')
    if want:
        out.append(pad + ">>> print('out%d' + chr(10) + 'more%d')" % (ids[-1], ids[-1]))
        out.append(pad + 'out%d' % ids[-1])
        out.append(pad + 'more%d' % ids[-1])
        labels += ['src', 'want', 'want']
    return out, labels


def docstrings(tier, seed):
    rnd = random.Random(seed)
    n = 250 if tier == 'quick' else 3000
    for _ in range(n):
        k = 0
        lines = []
        labels = []
        n_blocks = rnd.randint(1, 4)
        style = rnd.choice(['freeform', 'google'])
        raise_at = None
        target = None
        prev_want = False
        for b in range(n_blocks):
            # usually prose between blocks; sometimes the next block follows a want directly (at another indentation)
            adjacent = prev_want and rnd.random() < 0.3
            if not adjacent:
                t = rnd.choice(TEXT)
                if b > 0 and t[0] != '':
                    t = [''] + t        # prose right after source or a want would be (more) want: a blank line ends the example
                lines.extend(t)
                labels.extend(['text'] * len(t))
            ids = list(range(k, k + rnd.randint(1, 4)))
            k = ids[-1] + 1
            label = None
            if style == 'google':
                label = rnd.choice(['Example:', 'Doctest:', 'Example:', 'Notes:'])
            elif rnd.random() < 0.25:
                label = rnd.choice(['SkipDoctest:', 'Ignore:', 'AnythingElse:'])
            if adjacent:
                label = None        # a label line right after a want would be one more want line
            if raise_at is None and rnd.random() < 0.4:
                raise_at = rnd.choice(ids)
            prev_want = rnd.random() < 0.5
            bl, bb = code_block(ids, rnd.choice([0, 4, 8]), prev_want, raise_at, label, rnd)
            if raise_at in ids:
                target = code_block.target
            lines.extend(bl)
            labels.extend(bb)
        t = [''] + rnd.choice(TEXT)
        lines.extend(t)
        labels.extend(['text'] * len(t))
        yield style, lines, (None if raise_at is None else (raise_at,) + target), labels


def line_of(lines, needle):
    hits = [j for j, ln in enumerate(lines) if needle in ln]
    return hits[0] if len(hits) == 1 else None


def check_partition(parser_mod, lines, labels):
    """C13: the parts, laid end to end, reproduce the (commonly de-indented) docstring line for line, each part knows the index
    of its first line, and want lines are exactly the non-prompt lines that follow source."""
    docstr = '\n'.join(lines)
    parts = parser_mod.DoctestParser().parse(docstr)
    lines = docstr.expandtabs().split('\n')      # the lines as the source file has them (not str.splitlines(): see SEPARATORS)
    indents = [len(ln) - len(ln.lstrip()) for ln in lines if ln.strip()]
    cut = min(indents) if indents else 0
    expected = [ln[cut:] if ln.strip() else ln.strip() for ln in lines]
    recon = []
    got_labels = []
    code_rows = set()       # rows that come from source / want lines: the indentation of their prompt is removed
    for part in parts:
        if isinstance(part, str):
            recon.extend(part.split('\n'))
            got_labels.extend(['text'] * len(part.split('\n')))
        else:
            got_labels.extend(['src'] * len(part.orig_lines) + ['want'] * len(part.want_lines or []))
            code_rows.update(range(len(recon), len(recon) + len(part.orig_lines) + len(part.want_lines or [])))
            if part.line_offset != len(recon):
                return 'a part that starts at line %d of the docstring records line_offset %d' % (len(recon), part.line_offset)
            recon.extend(part.orig_lines)
            recon.extend(part.want_lines or [])
            if any(w.lstrip().startswith('>>> ') for w in (part.want_lines or [])):
                return 'a prompt line is inside a want: %r' % (part.want_lines,)
    norm = [ln if ln.strip() else '' for ln in recon]
    # blank lines at the very end of the docstring are not compared (the common de-indent drops the final line break)
    while norm and norm[-1] == '':
        norm.pop()
    while expected and expected[-1] == '':
        expected.pop()
    if len(norm) != len(expected):
        return 'the docstring has %d lines, the parts %d' % (len(expected), len(norm))
    for j, (a, b) in enumerate(zip(norm, expected)):
        same = (a == b) or (j in code_rows and b.endswith(a) and b[:len(b) - len(a)].strip(' ') == '' and a == a.lstrip(' ')[:len(a)])
        if not same:
            return 'line %d of the docstring is %r but the parts give %r' % (j, b, a)
    want_labels = labels[:len(expected)]
    for j, (a, b) in enumerate(zip(got_labels[:len(expected)], want_labels)):
        if a != b:
            return 'line %d (%r) is %s by construction but the parser made it %s' % (j, expected[j], b, a)
    return None


def check_docstring(core, style, lines, raise_at, L):
    docstr = '\n'.join(lines)
    parser = core.parse_google_docstr_examples if style == 'google' else core.parse_freeform_docstr_examples
    examples = list(parser(docstr, callname='gen', modpath=None, lineno=L))
    n = 0
    for ex in examples:
        ex._parse()
        for part in ex._parts:
            if not part.orig_lines:
                continue
            n += 1
            j = ex.lineno + part.line_offset - L
            want_text = part.orig_lines[0].strip()
            if not (0 <= j < len(lines)) or lines[j].strip() != want_text:
                got = lines[j] if 0 <= j < len(lines) else '<outside the docstring>'
                return n, 'a part starting with %r is placed at file line %d (docstring line %d: %r)' % (want_text, ex.lineno + part.line_offset, j, got)
    if raise_at is not None:
        k_raise, needle, excname = raise_at
        target = line_of(lines, needle)
        for ex in examples:
            if ("stmt%d'" % k_raise) not in ex.docsrc:
                continue
            ex.mode = 'native'
            summary = ex.run(on_error='return', verbose=0)
            n += 1
            if not summary['failed']:
                continue        # the failing statement sits under a skip label: nothing to locate
            if ex.exc_info[0].__name__ != excname or target is None:
                continue        # an earlier statement of the same doctest failed first (another want, ...)
            got = ex.failed_lineno()
            if got is None or got - L != target:
                return n, 'the failure is on docstring line %r (%r) but failed_lineno() = %r (file line of the docstring: %d)' % (
                    target, lines[target].strip(), got, L)
    return n, None


def run(eng, tier, seed):
    import importlib
    core = importlib.import_module('xdoctest.core')
    parser_mod = importlib.import_module('xdoctest.parser')
    n = 0
    cex = None
    n13 = 0
    cex13 = None
    count = 0
    for style, lines, raise_at, labels in docstrings(tier, seed):
        count += 1
        try:
            problem13 = check_partition(parser_mod, lines, labels)
        except Exception as ex:      # noqa
            problem13 = 'harness/parse: %r' % (ex,)
        n13 += 1
        if problem13 is not None and cex13 is None:
            cex13 = {'docstring_lines': lines, 'problem': problem13}
        for L in (1, 17):
            try:
                k, problem = check_docstring(core, style, lines, raise_at, L)
            except Exception as ex:      # noqa
                k, problem = 0, 'harness: %r' % (ex,)
            n += k
            if problem is not None:
                cex = {'style': style, 'docstring_lines': lines, 'lineno': L, 'problem': problem}
                break
        if cex is not None:
            break
    # ---- characters that str.splitlines() treats as line boundaries but that are NOT line breaks of a source file: written as an
    # escape in a (non-raw) docstring (\\f, \\v, \\x1c..\\x1e, \\x85, \\u2028, \\u2029) they sit INSIDE one file line
    n_sep = 0
    cex_sep = None
    n13_sep = 0
    cex13_sep = None
    count_sep = 0
    for style, lines, raise_at, labels in docstrings(tier, seed + 1):
        count_sep += 1
        if count_sep > (60 if tier == 'quick' else 600):
            count_sep -= 1
            break
        sep = SEPARATORS[count_sep % len(SEPARATORS)]
        lines2 = ['Intro text with the character %s written as an escape; more text.' % sep] + list(lines)
        try:
            problem13 = check_partition(parser_mod, lines2, ['text'] + list(labels))
        except Exception as ex:      # noqa
            problem13 = 'harness/parse: %r' % (ex,)
        n13_sep += 1
        if problem13 is not None and cex13_sep is None:
            cex13_sep = {'docstring_lines': lines2, 'separator': repr(sep), 'problem': problem13}
        for L in (1, 17):
            try:
                k, problem = check_docstring(core, style, lines2, raise_at, L)
            except Exception as ex:      # noqa
                k, problem = 0, 'harness: %r' % (ex,)
            n_sep += k
            if problem is not None:
                cex_sep = {'style': style, 'docstring_lines': lines2, 'lineno': L, 'separator': repr(sep), 'problem': problem}
                break
        if cex_sep is not None:
            break
    return {'bounded': [{'name': 'C08.line-numbers-with-separator-characters-in-the-text',
                         'bound': '%d random docstrings (as above) whose first line holds one of %d characters that str.splitlines() breaks at '
                                  'but a source file does not (form feed, vertical tab, FS/GS/RS, NEL, U+2028, U+2029) x 2 start lines'
                                  % (count_sep, len(SEPARATORS)),
                         'evaluations': n_sep, 'counterexample': cex_sep},
                        {'name': 'C13.parts-reproduce-the-docstring-with-separator-characters',
                         'bound': 'the same %d docstrings with a separator character in the first line: the parts laid end to end give back '
                                  'every source-file line once, in order, unchanged' % count_sep,
                         'evaluations': n13_sep, 'counterexample': cex13_sep},
                        {'name': 'C08.line-numbers-point-at-their-text',
                         'bound': '%d random docstrings (freeform and google layout, 1..4 code blocks, text between them, skip labels, '
                                  'indentation 0/4) x 2 docstring start lines' % count,
                         'evaluations': n, 'counterexample': cex},
                        {'name': 'C13.parts-reproduce-the-docstring',
                         'bound': 'the same %d random docstrings: the parts laid end to end give back every line once, in order, and '
                                  'every part records the index of its first line' % count,
                         'evaluations': n13, 'counterexample': cex13}]}
