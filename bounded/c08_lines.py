"""Bounded stand-in (labelled bounded, never counted as proved) for C08 end to end: on generated docstrings, every line number the
REAL parsers assign points at the text it claims to describe.  The oracle is the docstring itself: if the docstring starts on
file line L, its j-th line is file line L + j; so for every parsed doctest and every part,

    docstring_lines[doctest.lineno + part.line_offset - L]   is the first source line of that part,

and when a designated statement raises, ``failed_lineno()`` is the file line of that statement.  Every code line of a generated
docstring is unique, so a wrong offset cannot hit an equal line by accident.  Covers what the deductive contracts assume or
drop: split_google_docblocks' offsets, the rebasing loop of doctest_from_parts, _group_labeled_lines.
"""
import itertools
import random

TEXT = [['Some text about the function.'], ['', 'More text,', 'on two lines.'], ['Args:', '    x (int): a number', ''],
        ['']]


def code_block(ids, indent, want, raise_at=None, label=None):
    """Lines of one doctest block; ids: list of unique statement numbers."""
    out = []
    pad = ' ' * indent
    if label is not None:
        out.append(pad + label)
        pad += '    '
    for n, k in enumerate(ids):
        if raise_at == k:
            out.append(pad + ">>> raise ValueError('stmt%d')" % k)
        elif n % 3 == 2:
            out.append(pad + '>>> def f%d():' % k)
            out.append(pad + '...     return %d' % k)
        else:
            out.append(pad + '>>> v%d = %d' % (k, k))
    if want:
        out.append(pad + ">>> print('out%d')" % ids[-1])
        out.append(pad + 'out%d' % ids[-1])
    return out


def docstrings(tier, seed):
    rnd = random.Random(seed)
    n = 250 if tier == 'quick' else 3000
    for _ in range(n):
        k = 0
        lines = []
        stmts = []       # (docstring line index, statement id) of every code line that starts a statement
        n_blocks = rnd.randint(1, 4)
        style = rnd.choice(['freeform', 'google'])
        raise_at = None
        for b in range(n_blocks):
            lines.extend(rnd.choice(TEXT))
            ids = list(range(k, k + rnd.randint(1, 4)))
            k = ids[-1] + 1
            label = None
            if style == 'google':
                label = rnd.choice(['Example:', 'Doctest:', 'Example:', 'Notes:'])
            elif rnd.random() < 0.25:
                label = rnd.choice(['SkipDoctest:', 'Ignore:', 'AnythingElse:'])
            if raise_at is None and rnd.random() < 0.4:
                raise_at = rnd.choice(ids)
            lines.extend(code_block(ids, rnd.choice([0, 4]), rnd.random() < 0.5, raise_at, label))
        lines.extend(rnd.choice(TEXT))
        yield style, lines, raise_at


def line_of(lines, needle):
    hits = [j for j, ln in enumerate(lines) if needle in ln]
    return hits[0] if len(hits) == 1 else None


def check_docstring(core, style, lines, raise_at, L):
    docstr = '\n'.join(lines)
    parser = core.parse_google_docstr_examples if style == 'google' else core.parse_freeform_docstr_examples
    examples = list(parser(docstr, callname='gen', modpath=None, lineno=L))
    n = 0
    for ex in examples:
        ex._parse()
        for part in ex._parts:
            if not part.orig_lines:
                continue
            n += 1
            j = ex.lineno + part.line_offset - L
            want_text = part.orig_lines[0].strip()
            if not (0 <= j < len(lines)) or lines[j].strip() != want_text:
                got = lines[j] if 0 <= j < len(lines) else '<outside the docstring>'
                return n, 'a part starting with %r is placed at file line %d (docstring line %d: %r)' % (want_text, ex.lineno + part.line_offset, j, got)
    if raise_at is not None:
        target = line_of(lines, "raise ValueError('stmt%d')" % raise_at)
        for ex in examples:
            if ("stmt%d'" % raise_at) not in ex.docsrc:
                continue
            ex.mode = 'native'
            summary = ex.run(on_error='return', verbose=0)
            n += 1
            if not summary['failed']:
                continue        # the raising statement sits under a skip label / after an earlier end: nothing to locate
            if ex.exc_info[0].__name__ != 'ValueError':
                continue
            got = ex.failed_lineno()
            if got is None or got - L != target:
                return n, 'the statement on docstring line %r failed but failed_lineno() = %r (file line of the docstring: %d)' % (target, got, L)
    return n, None


def run(eng, tier, seed):
    import importlib
    core = importlib.import_module('xdoctest.core')
    n = 0
    cex = None
    count = 0
    for style, lines, raise_at in docstrings(tier, seed):
        count += 1
        for L in (1, 17):
            try:
                k, problem = check_docstring(core, style, lines, raise_at, L)
            except Exception as ex:      # noqa
                k, problem = 0, 'harness: %r' % (ex,)
            n += k
            if problem is not None:
                cex = {'style': style, 'docstring_lines': lines, 'lineno': L, 'problem': problem}
                break
        if cex is not None:
            break
    return {'bounded': [{'name': 'C08.line-numbers-point-at-their-text',
                         'bound': '%d random docstrings (freeform and google layout, 1..4 code blocks, text between them, skip labels, '
                                  'indentation 0/4) x 2 docstring start lines' % count,
                         'evaluations': n, 'counterexample': cex}]}
