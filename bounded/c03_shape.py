"""Bounded stand-in (labelled bounded, never counted as proved) for the one assumed contract of C03: checker.extract_exc_want
(the _EXCEPTION_RE regular expression, outside the decidable fragment) against the independent, procedural definition of "a
traceback block" in specs/matchspec.py (_exc_want: a header line, an optional stack, a final part that begins at the first later
line starting with a word character).  Every want built from up to N line tokens is compared."""
import itertools

TOKENS = ['Traceback (most recent call last):', 'Traceback (innermost last):', '  File "x", line 1, in f', '    ...', '...',
          'ValueError: boom', 'pkg.KeyError', 'some text', '', '    indented text', 'Traceback (most recent call last): trailing',
          '>>> x = 1']


def run(eng, tier, seed):
    import importlib
    checker = importlib.import_module('xdoctest.checker')
    from specs import matchspec
    nmax = 4 if tier == 'quick' else 5
    n = 0
    cex = None
    for length in range(0, nmax + 1):
        for combo in itertools.product(TOKENS, repeat=length):
            for indent in ('', '    '):
                want = '\n'.join(indent + ln for ln in combo)
                n += 1
                try:
                    real = checker.extract_exc_want(want)
                except Exception as ex:      # noqa
                    real = 'raised %r' % (ex,)
                spec = matchspec._exc_want(want)
                if real != spec:
                    cex = {'want': want, 'extract_exc_want': real, 'independent_definition': spec,
                           'problem': 'the traceback-block recognition differs from the statement'}
                    break
            if cex:
                break
        if cex:
            break
    return {'bounded': [{'name': 'C03.traceback-shape',
                         'bound': 'every want of 0..%d lines drawn from %d line shapes x 2 indentations on the real extract_exc_want'
                                  % (nmax, len(TOKENS)),
                         'evaluations': n, 'counterexample': cex}]}
