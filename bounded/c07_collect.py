"""Bounded stand-in (labelled bounded, never counted as proved) for C07 end to end: module sources are generated from building
blocks whose collectability is known BY CONSTRUCTION (functions, async functions, classes with plain / static / class methods and
property getters / setters, decorated definitions, nested functions and classes, definitions under an ordinary `if`, under the
__main__ guard), every docstring holding one freeform example; the REAL core.parse_doctestables (static analysis) must yield
exactly the expected identifiers `name:0`, each once, for every style."""
import os
import random
import shutil
import tempfile

DOC = '    """\n    doc\n\n    >>> x = %d\n    """\n'


def gen_module(rnd):
    """(source text, expected identifiers)."""
    out = []
    expect = []
    k = [0]

    def uid():
        k[0] += 1
        return k[0]

    blocks_of = {}

    def doc(indent, n):
        prefix = rnd.choice(['', '', 'r', 'R', 'u'])
        if rnd.random() < 0.35:
            # google layout: n_blocks example blocks (and one block that is not an example)
            n_blocks = rnd.randint(0, 3)
            blocks_of[n] = n_blocks
            lines = [indent + prefix + '"""', indent + 'doc', '', indent + 'Args:', indent + '    x (int): not code', '']
            for b in range(n_blocks):
                lines += [indent + rnd.choice(['Example:', 'Doctest:']), indent + '    >>> x = %d' % (n * 10 + b), '']
            lines += [indent + '"""']
            return '\n'.join(lines) + '\n'
        text = ''.join(indent + ln[4:] + '\n' if ln else '\n' for ln in (DOC % n).split('\n')[:-1])
        return text.replace('"""', prefix + '"""', 1)

    if rnd.random() < 0.5:
        out.append('"""\nmodule doc\n\n>>> m = 0\n"""\n')
        expect.append(('__doc__', None))

    def func(indent, prefix, collect, kind=None):
        n = uid()
        name = 'f%d' % n
        deco = ''
        if kind == 'static':
            deco = indent + '@staticmethod\n'
        elif kind == 'class':
            deco = indent + '@classmethod\n'
        elif kind == 'property':
            deco = indent + '@property\n'
        elif kind == 'decorated':
            deco = indent + '@dec\n'
        is_async = kind == 'async'
        out.append(deco + indent + ('async def ' if is_async else 'def ') + name + '(*args):\n' + doc(indent + '    ', n))
        if rnd.random() < 0.3:
            # a nested function: never collected
            m = uid()
            out.append(indent + '    def inner%d():\n' % m + doc(indent + '        ', m) + indent + '        pass\n')
        out.append(indent + '    pass\n\n')
        if collect:
            expect.append((prefix + name, n))
        if kind == 'property' and rnd.random() < 0.7:
            m = uid()
            out.append(indent + '@' + name + '.setter\n' + indent + 'def ' + name + '(self, value):\n' + doc(indent + '    ', m)
                       + indent + '    pass\n\n')        # setters are not collected

    def klass(indent, collect):
        n = uid()
        name = 'K%d' % n
        out.append(indent + 'class ' + name + ':\n' + doc(indent + '    ', n))
        if collect:
            expect.append((name, n))
        for _ in range(rnd.randint(0, 3)):
            kind = rnd.choice([None, 'static', 'class', 'property', 'decorated', 'async', 'nested_class'])
            if kind == 'nested_class':
                m = uid()
                out.append(indent + '    class N%d:\n' % m + doc(indent + '        ', m))
                out.append(indent + '        def meth(self):\n' + doc(indent + '            ', uid()) + indent + '            pass\n\n')
            else:
                func(indent + '    ', name + '.', collect, kind)
        out.append(indent + '    attr = 1\n\n')

    out.append('def dec(f):\n    return f\n\n')
    for _ in range(rnd.randint(1, 6)):
        shape = rnd.choice(['func', 'async', 'decorated', 'class', 'if', 'main'])
        if shape in ('func', 'async', 'decorated'):
            func('', '', True, None if shape == 'func' else shape)
        elif shape == 'class':
            klass('', True)
        elif shape == 'if':
            out.append('if len("x") == 1:\n')
            func('    ', '', True)
            if rnd.random() < 0.5:
                out.append('else:\n')
                func('    ', '', True)
        else:
            out.append('if __name__ == "__main__":\n')
            func('    ', '', False)
    return ''.join(out), expect, blocks_of


def run(eng, tier, seed):
    import importlib
    core = importlib.import_module('xdoctest.core')
    rnd = random.Random(seed)
    tmp = tempfile.mkdtemp(prefix='xdcollect_')
    n = 0
    cex = None
    n_mod = 120 if tier == 'quick' else 1500
    try:
        for i in range(n_mod):
            src, expect_items, blocks_of = gen_module(rnd)
            try:
                compile(src, 'gen', 'exec')
            except SyntaxError as ex:      # noqa: the generator must produce valid modules
                cex = {'module_source': src, 'problem': 'generator bug: %r' % (ex,)}
                break
            path = os.path.join(tmp, 'gen_mod_%d.py' % i)
            with open(path, 'w') as f:
                f.write(src)
            for style in ('freeform', 'auto', 'google'):
                exs = list(core.parse_doctestables(path, style=style, analysis='static'))
                got = ['%s:%s' % (ex.callname, ex.num) for ex in exs]
                n += 1
                # C08: the line of each doctest is the line of the file that holds its first statement
                file_lines = src.split('\n')
                for ex in exs:
                    first = ex.docsrc.strip().split('\n')[0].strip()
                    if not (1 <= ex.lineno <= len(file_lines)) or file_lines[ex.lineno - 1].strip() != first:
                        at = file_lines[ex.lineno - 1] if 1 <= ex.lineno <= len(file_lines) else '<outside the file>'
                        cex = {'module_source': src, 'style': style,
                               'problem': 'C08: doctest %s starts with %r but is placed on file line %d: %r' % (ex.callname, first, ex.lineno, at)}
                        break
                if cex is not None:
                    break
                want = []
                for base, n_doc in expect_items:
                    nb = blocks_of.get(n_doc)
                    if nb is None:
                        # a docstring without google labels: one freeform doctest; nothing for the google style
                        if style != 'google':
                            want.append(base + ':0')
                    elif style == 'freeform':
                        if nb >= 1:
                            want.append(base + ':0')        # all the code of the docstring as one doctest
                    else:
                        want.extend('%s:%d' % (base, b) for b in range(nb))     # google / auto: one per example block, in order
                want = sorted(want)
                if sorted(got) != want:
                    cex = {'module_source': src, 'style': style,
                           'problem': 'missing %r, unexpected or repeated %r' % (sorted(set(want) - set(got)),
                                                                              sorted(x for x in got if x not in want or got.count(x) > 1))}
                    break
            os.remove(path)
            if cex is not None:
                break
    finally:
        shutil.rmtree(tmp, ignore_errors=True)
    return {'bounded': [{'name': 'C07.collected-identifiers',
                         'bound': '%d generated modules x 3 styles on the real parse_doctestables (static analysis)' % n_mod,
                         'evaluations': n, 'counterexample': cex}]}
