"""Bounded stand-in for the relational clauses of C05 that need string induction (labelled bounded, never counted as
proved): the REAL checker.check_output over all (got, want) built from a few tokens x all 32 flag settings."""
import itertools
import time

TOKENS = ['a', 'b', ' ', '\n', '\t', '...', "'", '"', 'u', '\x1b[0m', '<BLANKLINE>', '\r']
FLAGS = ['ELLIPSIS', 'NORMALIZE_WHITESPACE', 'IGNORE_WHITESPACE', 'NORMALIZE_REPR', 'DONT_ACCEPT_BLANKLINE']
LENIENCIES = ['ELLIPSIS', 'NORMALIZE_WHITESPACE', 'IGNORE_WHITESPACE', 'NORMALIZE_REPR']


def run(eng, tier, seed):
    from xdoctest import checker, directive
    import random
    rnd = random.Random(seed)
    maxtok = 2 if tier == 'quick' else 3
    texts = []
    for n in range(maxtok + 1):
        for tup in itertools.product(TOKENS, repeat=n):
            texts.append(''.join(tup))
    # quoted forms of the short texts (the shape quote normalisation is about)
    for t in [x for x in list(texts) if len(x) <= 11]:
        for q in ("'", '"'):
            texts.append(q + t + q)
    texts = sorted(set(texts))
    pairs = [(g, w) for g in texts for w in texts if w]
    rnd.shuffle(pairs)
    budget = 25.0 if tier == 'quick' else 600.0
    t0 = time.time()
    states = {}
    for bits in itertools.product([False, True], repeat=len(FLAGS)):
        rs = directive.RuntimeState()
        for f, b in zip(FLAGS, bits):
            rs[f] = b
        states[bits] = rs
    results = {name: {'name': name, 'bound': '(got, want) from <= %d of %d tokens x 32 flag settings; %s budget' % (maxtok, len(TOKENS), tier),
                      'evaluations': 0, 'counterexample': None}
               for name in ['C05.identical-texts-match', 'C05.exact-when-no-leniency', 'C05.exact-when-no-leniency-carriage-return',
                            'C05.monotone-NORMALIZE_REPR'] +
               ['C05.monotone-%s-%s-NORMALIZE_REPR' % (k, u) for k in LENIENCIES[:3] for u in ('without', 'under')]}

    def fail(name, **kw):
        if results[name]['counterexample'] is None:
            results[name]['counterexample'] = kw
    n = 0
    for g, w in pairs:
        if time.time() - t0 > budget:
            break
        verdict = {}
        for bits, rs in states.items():
            verdict[bits] = bool(checker.check_output(g, w, rs))
            n += 1
        for bits, v in verdict.items():
            fl = dict(zip(FLAGS, bits))
            if g == w and not v:
                fail('C05.identical-texts-match', got=g, want=w, flags=fl)
            if not any(fl[k] for k in LENIENCIES) and fl['DONT_ACCEPT_BLANKLINE']:
                # every leniency off: exact up to the always-on normalisations; in particular texts that differ in a visible
                # non-whitespace letter never match
                if v and ('a' in g) != ('a' in w):
                    cr = '\r' in g or '\r' in w
                    fail('C05.exact-when-no-leniency-carriage-return' if cr else 'C05.exact-when-no-leniency', got=g, want=w, flags=fl)
            for k, name in enumerate(FLAGS[:4]):
                if not bits[k] and v:
                    on = bits[:k] + (True,) + bits[k + 1:]
                    if not verdict[on]:
                        if name != 'NORMALIZE_REPR':
                            cname = 'C05.monotone-%s-%s-NORMALIZE_REPR' % (name, 'under' if fl['NORMALIZE_REPR'] else 'without')
                        else:
                            cname = 'C05.monotone-NORMALIZE_REPR'
                        fail(cname, got=g, want=w, flags=fl, switched_on=name)
    for r in results.values():
        r['evaluations'] = n
    return {'bounded': list(results.values())}
