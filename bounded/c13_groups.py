"""Bounded stand-in (labelled bounded, never counted as proved) for the one function of C13 that stays outside the contracts:
DoctestParser._group_labeled_lines (three passes over lists of (label, line) pairs and nested groups, driven by the _iterthree
generator).  The real function is run on EVERY label sequence of up to N lines that the labeller can produce (text / dsrc / dcnt /
want with the adjacency rules of the state machine: a continuation only after source, a want only after source or want), each line
a distinct string, and the result is compared with what the STATEMENT demands -- not with the code:

  G1  laid end to end the groups give back the labelled lines, each exactly once, in order (an order-preserving partition);
  G2  a text group is a list that holds only text-labelled lines ("everything else is text and is neither executed nor compared"),
      an example group is a pair (source, want) whose source is a non-empty list of source-labelled lines only and whose want is
      either empty or a list of want-labelled lines only;
  G3  no statement is cut: a source group never begins with a continuation line;
  G4  a want stays whole and stays with the source it follows: the lines of one maximal run of want-labelled lines are the want of
      exactly one pair (follows from G1 + G2, checked directly as well);
  G5  nothing is raised.
"""
import itertools

LABELS = ('text', 'dsrc', 'dcnt', 'want')
_AFTER = {None: ('text', 'dsrc'),
          'text': ('text', 'dsrc'),
          'dsrc': ('text', 'dsrc', 'dcnt', 'want'),
          'dcnt': ('text', 'dsrc', 'dcnt', 'want'),
          'want': ('text', 'dsrc', 'want')}


def _sequences(n):
    """every label sequence of exactly n lines the labeller can produce"""
    def rec(prefix, prev):
        if len(prefix) == n:
            yield tuple(prefix)
            return
        for lab in _AFTER[prev]:
            prefix.append(lab)
            yield from rec(prefix, lab)
            prefix.pop()
    yield from rec([], None)


def _judge(labels, lines, groups):
    """None if the grouping is what the statement demands, else a description"""
    label_of = dict(zip(lines, labels))
    flat = []
    if not isinstance(groups, list):
        return 'the result is not a list of groups'
    for g in groups:
        if isinstance(g, tuple):
            if len(g) != 2:
                return 'an example group is not a (source, want) pair: %r' % (g,)
            src, want = g
            if not isinstance(src, list) or len(src) == 0:
                return 'G2: an example group with an empty source: %r' % (g,)
            if any(label_of.get(ln) not in ('dsrc', 'dcnt') for ln in src):
                return 'G2: a line that is not source sits in a source group: %r' % (g,)
            if label_of.get(src[0]) == 'dcnt':
                return 'G3: a source group begins with a continuation line (a statement was cut): %r' % (g,)
            flat.extend(src)
            if want == '' or want == []:
                continue
            if not isinstance(want, list):
                return 'G2: a want that is neither empty nor a list of lines: %r' % (g,)
            if any(label_of.get(ln) != 'want' for ln in want):
                return 'G2: a line that is not a want line sits in a want: %r' % (g,)
            flat.extend(want)
            # G4: the want is a whole maximal run
            i = lines.index(want[0])
            j = lines.index(want[-1])
            if (i > 0 and labels[i - 1] == 'want') or (j + 1 < len(lines) and labels[j + 1] == 'want'):
                return 'G4: a run of want lines was split over several groups: %r' % (g,)
        elif isinstance(g, list):
            if any(label_of.get(ln) != 'text' for ln in g):
                return 'G2: a line that is not text sits in a text group: %r' % (g,)
            flat.extend(g)
        else:
            return 'a group that is neither a list nor a pair: %r' % (g,)
    if flat != list(lines):
        return 'G1: the groups laid end to end are %r, not the labelled lines in order' % (flat,)
    return None


def run(eng, tier, seed):
    import importlib
    parser = importlib.import_module('xdoctest.parser')
    self = parser.DoctestParser()
    nmax = 9 if tier == 'quick' else 12
    n = 0
    cex = None
    for length in range(0, nmax + 1):
        lines = tuple('L%d' % i for i in range(length))
        for labels in _sequences(length):
            n += 1
            labeled = list(zip(labels, lines))
            try:
                groups = self._group_labeled_lines(labeled)
            except Exception as ex:      # noqa
                problem = 'G5: raised %r' % (ex,)
                groups = None
            else:
                problem = _judge(labels, lines, groups)
            if problem:
                cex = {'labeled_lines': [list(t) for t in labeled], 'groups': repr(groups), 'problem': problem}
                break
        if cex:
            break
    return {'bounded': [{'name': 'C13.grouping-is-an-order-preserving-partition',
                         'bound': 'every label sequence of 0..%d lines the labeller can produce (text/dsrc/dcnt/want, continuation only '
                                  'after source, want only after source or want), distinct line strings, on the real '
                                  '_group_labeled_lines' % nmax,
                         'evaluations': n, 'counterexample': cex}]}
