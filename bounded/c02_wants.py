"""Bounded stand-in (labelled bounded, never counted as proved) for C02 in the shape of its quantifier: doctests built from
statements whose outputs are known by construction; wants are placed after every subset of the statements that can carry one;
every CORRECT want form (all output since the previous want / only the output of the final expression statement / the repr of
its value) must pass, and every single corruption of one want (replaced, a line appended, a line prepended, the last line
dropped) must fail with a got/want error at exactly that want: every statement up to it has run, none after it."""
import itertools

KINDS = ('print', 'print2', 'value', 'quiet')


def stmt(kind, k):
    if kind == 'print':
        return "print('p%d' + (mark(%d) or ''))" % (k, k), 'p%d\n' % k, None
    if kind == 'print2':
        return "print('q%d' + chr(10) + 'r%d' + (mark(%d) or ''))" % (k, k, k), 'q%d\nr%d\n' % (k, k), None
    if kind == 'value':
        return "(mark(%d), %d)[1]" % (k, k + 100), '', str(k + 100)
    return "v%d = mark(%d)" % (k, k), '', None


def build(kinds, wants):
    """wants: dict position -> want text.  Returns the doctest text."""
    lines = []
    for k, kind in enumerate(kinds):
        lines.append('>>> ' + stmt(kind, k)[0])
        if k in wants:
            lines.extend(wants[k].split('\n'))
    return '\n'.join(lines) + '\n'


def correct_forms(kinds, positions, j):
    """Correct wants for position j given the earlier want positions."""
    prev = max([p for p in positions if p < j], default=-1)
    src, out, val = stmt(kinds[j], j)
    forms = []
    if val is not None:
        forms.append(val)
    else:
        acc = ''.join(stmt(kinds[i], i)[1] for i in range(prev + 1, j + 1))
        forms.append(acc.rstrip('\n'))
        if out and out != acc:
            forms.append(out.rstrip('\n'))
    return forms


def corruptions(want):
    out = ['zzz', want + '\nextra', 'extra\n' + want]
    if '\n' in want:
        out.append(want.rsplit('\n', 1)[0])
    return out


def run(eng, tier, seed):
    import importlib
    de = importlib.import_module('xdoctest.doctest_example')
    nmax = 3 if tier == 'quick' else 4
    n = 0
    cex = None

    def execute(text):
        dt = de.DocTest(text, callname='gen', mode='native')
        trace = []
        dt.global_namespace['mark'] = trace.append
        s = dt.run(on_error='return', verbose=0)
        return dt, s, trace

    for length in range(1, nmax + 1):
        for kinds in itertools.product(KINDS, repeat=length):
            carriers = [k for k, kind in enumerate(kinds) if kind != 'quiet']
            for r in range(0, len(carriers) + 1):
                for positions in itertools.combinations(carriers, r):
                    # a value statement in the middle of a part is displayed or not depending on the compile mode: keep values
                    # only where a want follows directly
                    if any(kind == 'value' and k not in positions for k, kind in enumerate(kinds)):
                        continue
                    choices = [correct_forms(kinds, positions, j) for j in positions]
                    for combo in itertools.product(*choices):
                        wants = dict(zip(positions, combo))
                        text = build(kinds, wants)
                        dt, s, trace = execute(text)
                        n += 1
                        if s['failed'] or trace != list(range(length)):
                            cex = {'docsrc': text, 'problem': 'every want is correct but failed=%r, executed %r' % (s['failed'], trace)}
                            break
                        if not positions and not s['passed']:
                            cex = {'docsrc': text, 'problem': 'code without a want did not pass: %r' % (dict(s),)}
                            break
                        # corrupt one want
                        for j in positions:
                            for bad in corruptions(wants[j]):
                                if bad in correct_forms(kinds, positions, j):
                                    continue
                                w2 = dict(wants)
                                w2[j] = bad
                                text2 = build(kinds, w2)
                                dt2, s2, trace2 = execute(text2)
                                n += 1
                                problem = None
                                if not s2['failed']:
                                    problem = 'a corrupted want (%r for %r) is accepted' % (bad, wants[j])
                                elif dt2.exc_info[0].__name__ != 'GotWantException':
                                    problem = 'a corrupted want gives %s, not a got/want error' % dt2.exc_info[0].__name__
                                elif trace2 != list(range(j + 1)):
                                    problem = 'corrupted want after statement %d: executed statements %r' % (j, trace2)
                                elif list(dt2.failed_part.want_lines or []) != bad.split('\n'):
                                    problem = 'the failure is attributed to a part whose want is %r' % (dt2.failed_part.want_lines,)
                                if problem is not None:
                                    cex = {'docsrc': text2, 'problem': problem}
                                    break
                            if cex is not None:
                                break
                        if cex is not None:
                            break
                    if cex is not None:
                        break
                if cex is not None:
                    break
            if cex is not None:
                break
        if cex is not None:
            break
    return {'bounded': [{'name': 'C02.correct-and-corrupted-wants',
                         'bound': 'every sequence of 1..%d statements of 4 kinds x every placement of wants x every correct want form, and every '
                                  'single corruption (replaced / line appended / line prepended / last line dropped) of one want, on the real '
                                  'parser and DocTest.run' % nmax,
                         'evaluations': n, 'counterexample': cex}]}
