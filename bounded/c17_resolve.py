"""Bounded stand-in (labelled bounded, never counted as proved) for C17 with an oracle that is not ours: the interpreter's own
path finder.  On scratch trees (every subset of a list of optional entries: packages, modules, directories without __init__.py,
a directory next to a module of the same name, a package next to a module of the same name, __main__.py, names with
underscores) every dotted name made of the component names, present or absent, is resolved by the REAL
util_import.modname_to_modpath with only the scratch root on the search path and compared with
importlib.machinery.PathFinder (regular packages and modules; namespace portions count as "nothing"); found paths are
converted back (modpath_to_modname) and split (split_modpath)."""
import importlib.machinery
import itertools
import os
import shutil
import sys
import tempfile

# optional entries: (relative path of a file to create)
OPTIONAL = [
    'solo.py',
    'pkg/__init__.py',
    'pkg/mod.py',
    'pkg/sub/__init__.py',
    'pkg/sub/deep.py',
    'pkg/plain/x.py',            # directory without __init__.py inside a package
    'pkg/__main__.py',
    'pkg/under_score.py',
    'shadow/data.txt',           # directory without __init__.py ...
    'shadow.py',                 # ... next to a module of the same name
    'both/__init__.py',          # package ...
    'both.py',                   # ... next to a module of the same name (the package wins)
    'pkg/sub.py',                # module next to a sub-package of the same name
    'pkg/lazy__init__.py',       # an ordinary module whose file name merely ends in __init__.py
]
COMPONENTS = ['solo', 'pkg', 'mod', 'sub', 'deep', 'plain', 'x', '__main__', 'under_score', 'shadow', 'both', 'absent', 'lazy__init__']


def interpreter_resolve(modname, root):
    search = [root]
    spec = None
    parts = modname.split('.')
    for i in range(len(parts)):
        fullname = '.'.join(parts[:i + 1])
        try:
            spec = importlib.machinery.PathFinder.find_spec(fullname, search)
        except KeyError:
            return None     # a namespace portion below a package that is not imported: counts as "nothing"
        if spec is None or spec.origin is None:
            return None
        if i < len(parts) - 1:
            if not spec.submodule_search_locations:
                return None
            search = list(spec.submodule_search_locations)
    if spec.submodule_search_locations:
        return os.path.dirname(spec.origin)
    return spec.origin


def names():
    for n in range(1, 4):
        for combo in itertools.product(COMPONENTS, repeat=n):
            if n == 3 and combo[0] != 'pkg':
                continue
            yield '.'.join(combo)


def run(eng, tier, seed):
    ui = importlib.import_module('xdoctest.utils.util_import')
    tmp = os.path.realpath(tempfile.mkdtemp(prefix='xdresolve_'))
    n = 0
    cex = None
    all_names = list(names())
    k = len(OPTIONAL)
    subsets = ([m for m in range(2 ** k) if m % 8 in (0, 7) or bin(m).count('1') >= k - 2] if tier != 'quick'
               else [m for m in range(2 ** k) if bin(m).count('1') >= k - 1 or m % 211 == 0])
    try:
        for m in subsets:
            # every second tree is built at ONE re-used location: "any package tree" includes a tree that replaces another one at the
            # same place within one process (a resolver that remembers what it saw there earlier answers for the wrong tree)
            root = os.path.join(tmp, 't%d' % m) if (m & 1) else os.path.join(tmp, 'same')
            os.makedirs(root)
            for j, rel in enumerate(OPTIONAL):
                if m >> j & 1:
                    p = os.path.join(root, rel)
                    os.makedirs(os.path.dirname(p), exist_ok=True)
                    open(p, 'w').close()
            importlib.invalidate_caches()       # the files of this tree exist now; nothing changes while it is queried
            for name in all_names:
                expect = interpreter_resolve(name, root)
                path_before = list(sys.path)
                try:
                    got = ui.modname_to_modpath(name, hide_init=True, hide_main=False, sys_path=[root])
                except Exception as ex:      # noqa
                    got = 'raised %r' % (ex,)
                n += 1
                problem = None
                if got != expect:
                    problem = 'modname_to_modpath(%r) = %r but the interpreter would import %r' % (name, got, expect)
                elif sys.path != path_before:
                    problem = 'resolving %r changed sys.path' % name
                elif got is not None:
                    back = ui.modpath_to_modname(got, hide_init=True, hide_main=False)
                    if back != name:
                        problem = 'modpath_to_modname(%r) = %r, expected %r' % (got, back, name)
                    else:
                        dpath, rel = ui.split_modpath(got)
                        if os.path.join(dpath, rel) != got or os.path.realpath(dpath) != os.path.realpath(root):
                            problem = 'split_modpath(%r) = %r' % (got, (dpath, rel))
                if problem is not None:
                    cex = {'files': [rel for j, rel in enumerate(OPTIONAL) if m >> j & 1], 'name': name, 'problem': problem.replace(root, '<root>')}
                    break
            if cex is None:
                # every module file of the tree, asked directly: the directory that must be on the search path is the nearest ancestor
                # WITHOUT an __init__.py (known from the construction of the tree, not from the file system), the rest is the relative path
                present = set(rel for j, rel in enumerate(OPTIONAL) if m >> j & 1)
                for rel in sorted(present):
                    if not rel.endswith('.py'):
                        continue
                    d, base = os.path.split(rel)
                    parts = [base]
                    while d and (d + '/__init__.py') in present:
                        d, dn = os.path.split(d)
                        parts.append(dn)
                    exp_dpath = os.path.join(root, d) if d else root
                    exp_rel = os.path.join(*parts[::-1])
                    stem = exp_rel[:-len('.py')]
                    if base == '__init__.py':
                        stem = os.path.dirname(exp_rel)
                    exp_name = stem.replace(os.sep, '.')
                    full = os.path.join(root, rel)
                    n += 1
                    try:
                        got_split = tuple(ui.split_modpath(full))
                        got_name = ui.modpath_to_modname(full, hide_init=True, hide_main=False)
                    except Exception as ex:      # noqa
                        got_split, got_name = 'raised %r' % (ex,), None
                    if got_split != (exp_dpath, exp_rel) or got_name != exp_name:
                        cex = {'files': sorted(present), 'path': rel,
                               'problem': ('split_modpath(<root>/%s) = %r, modpath_to_modname = %r; by construction of the tree the search '
                                           'directory is %r, the relative path %r and the name %r'
                                           % (rel, got_split, got_name, exp_dpath, exp_rel, exp_name)).replace(root, '<root>')}
                        break
            shutil.rmtree(root, ignore_errors=True)
            for key in [k_ for k_ in sys.path_importer_cache if k_.startswith(root)]:
                del sys.path_importer_cache[key]        # keep the finder cache from growing with every scratch tree
            if cex is not None:
                break
    finally:
        shutil.rmtree(tmp, ignore_errors=True)
    return {'bounded': [{'name': 'C17.resolution-vs-interpreter',
                         'bound': '%d scratch trees (subsets of %d optional entries) x %d dotted names on the real modname_to_modpath / '
                                  'modpath_to_modname / split_modpath, oracle importlib.machinery.PathFinder; every second tree replaces the previous one at the same location' % (len(list(subsets)), k, len(all_names)),
                         'evaluations': n, 'counterexample': cex}]}
