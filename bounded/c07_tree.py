"""Bounded stand-in (labelled bounded, never counted as proved) for the file-system half of C07: the REAL package_modpaths on
scratch package trees.  A tree has 5 entries at its root and 3 in one sub-package; every assignment of the roles
{sub-package, plain directory with a module inside, module file} to the entries is tried (the order in which the file system
lists them is not under our control, so all assignments are used).  Oracle, from the statement: exactly the module files
and package __init__ files reachable from the root through directories that all hold an __init__.py -- each once; nothing
below a directory without __init__.py."""
import itertools
import os
import shutil
import tempfile

ROLES = ('pkg', 'plain', 'mod')


def make_tree(root, roles_top, roles_sub):
    """Returns the set of expected paths (with_pkg=True, with_mod=True)."""
    expect = set()
    os.makedirs(root)
    open(os.path.join(root, '__init__.py'), 'w').close()
    expect.add(os.path.join(root, '__init__.py'))

    def fill(dpath, roles, depth):
        for n, role in enumerate(roles):
            name = 'e%d%d' % (depth, n)
            if role == 'mod':
                p = os.path.join(dpath, name + '.py')
                open(p, 'w').close()
                expect.add(p)
            else:
                d = os.path.join(dpath, name)
                os.makedirs(d)
                inner = os.path.join(d, 'inner.py')
                open(inner, 'w').close()
                if role == 'pkg':
                    init = os.path.join(d, '__init__.py')
                    open(init, 'w').close()
                    expect.add(init)
                    expect.add(inner)
                    if depth == 0 and n == 0:
                        fill(d, roles_sub, 1)
    fill(root, roles_top, 0)
    return expect


def run(eng, tier, seed):
    import importlib
    sa = importlib.import_module('xdoctest.static_analysis')
    tmp = tempfile.mkdtemp(prefix='xdtree_')
    n = 0
    cex = None
    try:
        tops = list(itertools.product(ROLES, repeat=4 if tier == 'quick' else 5))
        subs = [('pkg', 'plain', 'mod'), ('plain', 'pkg', 'pkg'), ('mod', 'plain', 'pkg')]
        for k, top in enumerate(tops):
            for sub in (subs if top[0] == 'pkg' else subs[:1]):
                root = os.path.join(tmp, 't%d_%d' % (k, subs.index(sub)), 'rootpkg')
                expect = make_tree(root, top, sub)
                got = list(sa.package_modpaths(root, with_pkg=True, with_mod=True))
                n += 1
                problem = None
                if len(got) != len(set(got)):
                    problem = 'a path is yielded twice: %r' % sorted(p for p in set(got) if got.count(p) > 1)
                elif set(got) != expect:
                    problem = 'missing %r, unexpected %r' % (sorted(os.path.relpath(p, root) for p in expect - set(got)),
                                                            sorted(os.path.relpath(p, root) for p in set(got) - expect))
                if problem is None:
                    only_mods = set(sa.package_modpaths(root, with_pkg=False, with_mod=True))
                    if only_mods != {p for p in expect if not p.endswith('__init__.py')}:
                        problem = 'with_pkg=False: modules differ from the expected module files'
                shutil.rmtree(os.path.dirname(root), ignore_errors=True)
                if problem is not None:
                    cex = {'roles_of_root_entries': list(top), 'roles_in_first_subpackage': list(sub),
                           'listing_order': 'as os.walk reports it on this file system', 'problem': problem}
                    break
            if cex is not None:
                break
    finally:
        shutil.rmtree(tmp, ignore_errors=True)
    return {'bounded': [{'name': 'C07.package-walk',
                         'bound': 'every assignment of {sub-package, plain directory, module} to the %d entries of a package root (x 3 '
                                  'layouts of one sub-package) on the real package_modpaths over scratch directories'
                                  % (4 if tier == 'quick' else 5),
                         'evaluations': n, 'counterexample': cex}]}
