"""Bounded stand-in (labelled bounded, never counted as proved) for the contract of DocTest.run, and the place where a
violation of that contract gets a concrete, replayable doctest: the REAL parser and the REAL DocTest.run on generated
doctests, compared with an oracle written from the property statements (C01 order / exactly-once, C02 verdict, C03
exceptions, C04 directive scope, C09 nothing escapes + renderable report, C11 a second run behaves the same, C12 stdout
restored).

A doctest is a sequence of statements drawn from the templates below.  Every executable statement k evaluates
``mark(k)`` exactly once (``mark`` is put into the doctest's namespace, appends to a trace and returns None), so the trace is exactly the sequence
of statements that were executed.  The oracle works on the parts the real parser produced (which statements share a
part is the parser's business: bounded/c01_chunks.py) and on the directives written in the templates.
"""
import itertools
import random
import sys

MISSING = 'no_such_module_xyz'

# name -> (source lines with {k}, want lines with {k} or None, behaviour)
# behaviour: ('out', text) prints text | ('quiet',) | ('value', repr) expression value | ('raise', cls, msg)
#            | ('dir', name, positive)  a block directive line (no mark)
TEMPLATES = {
    'quiet':        (["v{k} = mark({k})"], None, ('quiet',)),
    'print_ok':     (["print('p{k}' + (mark({k}) or ''))"], ["p{k}"], ('out', "p{k}\n")),
    'print_bad':    (["print('p{k}' + (mark({k}) or ''))"], ["nope{k}"], ('out', "p{k}\n")),
    'print_nowant': (["print('u{k}' + (mark({k}) or ''))"], None, ('out', "u{k}\n")),
    'value_ok':     (["(mark({k}), {k} + 100)[1]"], ["{v}"], ('value', "{v}")),
    'value_bad':    (["(mark({k}), {k} + 100)[1]"], ["7"], ('value', "{v}")),
    'raise_nowant': (["raise ValueError('boom{k}' + (mark({k}) or ''))"], None, ('raise', 'ValueError', 'boom{k}')),
    'raise_ok':     (["raise ValueError('boom{k}' + (mark({k}) or ''))"],
                     ["Traceback (most recent call last):", "    ...", "ValueError: boom{k}"], ('raise', 'ValueError', 'boom{k}')),
    'raise_bad':    (["raise ValueError('boom{k}' + (mark({k}) or ''))"],
                     ["Traceback (most recent call last):", "    ...", "KeyError: other"], ('raise', 'ValueError', 'boom{k}')),
    'skip_inline':  (["print('s{k}' + (mark({k}) or ''))  # xdoctest: +SKIP"], ["never{k}"], ('out', "s{k}\n")),
    'skip_on':      (["# xdoctest: +SKIP"], None, ('dir', 'SKIP', True)),
    'skip_off':     (["# xdoctest: -SKIP"], None, ('dir', 'SKIP', False)),
    'req_on':       (["# xdoctest: +REQUIRES(module:%s)" % MISSING], None, ('dir', 'REQUIRES', True)),
    'req_off':      (["# xdoctest: -REQUIRES(module:%s)" % MISSING], None, ('dir', 'REQUIRES', False)),
    'compile_err':  (["return mark({k})"], None, ('compile_error',)),
    # a want that is not checked (still "the previous want": unmatched output before it is forgotten)
    'ignore_want':  (["print('i{k}' + (mark({k}) or ''))  # xdoctest: +IGNORE_WANT"], ["whatever{k}"], ('out', "i{k}\n", 'ignore_want')),
    # an expression that prints AND has a falsy value; the want is the repr of the value
    'falsy_value':  (["(print('f{k}' + (mark({k}) or '')), 0)[1]"], ["0"], ('outvalue', "f{k}\n", "0")),
    # only blank output, given as <BLANKLINE>
    'blank_ok':     (["print('' + (mark({k}) or ''))"], ["<BLANKLINE>"], ('outvalue', "\n", "None")),
    # a compound (exec mode) statement whose want is the value of the FIRST statement of the doctest if that was a value
    'stale_value':  (["if {k} >= 0:", "    print('c{k}' + (mark({k}) or ''))"], ["100"], ('out', "c{k}\n")),
    # SyntaxError family: the exception text has several lines
    'syntax_ok':    (["compile('1 +' + (mark({k}) or ''), 'f{k}', 'exec')"],
                     ["Traceback (most recent call last):", "    ...", "SyntaxError: invalid syntax"], ('raise', 'SyntaxError', 'invalid syntax')),
    # details ignored, but the TYPE must still agree
    'detail_bad':   (["raise ValueError('bad value 3.5' + (mark({k}) or ''))  # xdoctest: +IGNORE_EXCEPTION_DETAIL"],
                     ["Traceback (most recent call last):", "    ...", "KeyError: see the docs."], ('raise', 'ValueError', 'bad value 3.5', 'type_differs')),
    # a traceback want on code that does not raise
    'tb_no_raise':  (["w{k} = mark({k})"], ["Traceback (most recent call last):", "    ...", "ValueError: never raised"], ('quiet',)),
    'detail_dots':  (["raise KeyError('k{k}' + (mark({k}) or ''))  # xdoctest: +IGNORE_EXCEPTION_DETAIL"],
                     ["Traceback (most recent call last):", "    ...", "ValueError..."], ('raise', 'KeyError', 'k{k}', 'type_differs')),
    'detail_ok':    (["raise ValueError('bad value 3.5' + (mark({k}) or ''))  # xdoctest: +IGNORE_EXCEPTION_DETAIL"],
                     ["Traceback (most recent call last):", "    ...", "ValueError: see the docs."], ('raise', 'ValueError', 'bad value 3.5', 'type_agrees')),
    # an inline -REQUIRES lifts the requirement for its own statement only
    'req_inline_off': (["print('r{k}' + (mark({k}) or ''))  # xdoctest: -REQUIRES(module:%s)" % MISSING], ["r{k}"], ('out', "r{k}\n", 'lift_requires')),
    # an inline -SKIP lifts a persistent SKIP for its own statement only
    'skip_inline_off': (["print('o{k}' + (mark({k}) or ''))  # xdoctest: -SKIP"], ["o{k}"], ('out', "o{k}\n", 'lift_skip')),
    # two conditions, the first met, the second not
    'req_on2':      (["# xdoctest: +REQUIRES(module:os, module:%s)" % MISSING], None, ('dir', 'REQUIRES', True)),
    # a want that reaches back over everything printed without a want since the last CHECKED want (even across an ignored want)
    'reach_back':   (["print('p{k}' + (mark({k}) or ''))"], ["{acc}p{k}"], ('out', "p{k}\n")),
    # a directive that cannot be applied: the doctest fails at that part, the statement does not run
    'bad_directive': (["w{k} = mark({k})  # xdoctest: +REQUIRES(bogus-condition-{k})"], None, ('bad_directive',)),
    # a helper defined by one part (longer than the part that calls it) and called by a later one
    'helper_def':   (["def helper(_m=mark({k})):", "    a = 1", "    b = 2", "    c = 3", "    raise ValueError('boomH')"], None, ('defhelper',)),
    'helper_call':  (["(mark({k}), helper())[1]"], None, ('callhelper',)),
    # names shared with the module the doctest belongs to
    'rebind':       (["shared = 'doc{k}' + (mark({k}) or '')"], None, ('rebind', "doc{k}")),
    'read_shared':  (["print(shared + (mark({k}) or ''))"], ["{shared}"], ('read_shared',)),
}
MODULE_SOURCE = "shared = 'module'\n"

NAMES = sorted(TEMPLATES)


def build(seq):
    """(docstring text, statement table k -> (name, behaviour with k substituted)).  The want of a statement that reads
    the shared name is the value it has there if every earlier statement that is not skipped has run."""
    lines = []
    table = {}
    shared = 'module'
    skip = requires = False
    acc = ''
    for k, name in enumerate(seq):
        src, want, beh = TEMPLATES[name]
        if beh[0] == 'dir':
            if beh[1] == 'SKIP':
                skip = beh[2]
            else:
                requires = beh[2]
        runs = not (skip and name != 'skip_inline_off') and not (requires and name != 'req_inline_off') and name != 'skip_inline'
        fmt = dict(k=k, v=str(k + 100), shared=shared, acc=acc)
        for ln in src:
            lines.append(('>>> ' if ln is src[0] else '... ') + ln.format(**fmt))
        for ln in (want or []):
            lines.append(ln.format(**fmt))
        table[k] = (name, tuple(x.format(**fmt) if isinstance(x, str) else x for x in beh), src[0].format(**fmt))
        if runs and beh[0] == 'rebind':
            shared = beh[1].format(**fmt)
        if runs and name == 'print_nowant':
            acc += beh[1].format(**fmt)
        elif want is not None and name != 'ignore_want':
            acc = ''
    return '\n'.join(lines) + '\n', table


def statements_of(part, table):
    """The statement numbers whose first source line is in this part, in order."""
    out = []
    for ln in part.exec_lines:
        for k, (name, beh, first) in table.items():
            if ln == first and k not in out:
                out.append(k)
    return out


def oracle(parts, table):
    """Expected behaviour, from the property statements.  dict(marks, failed, fail_part, exc_name, n_skipped, logged)."""
    skip = False
    requires = False
    unmatched = []
    marks = []
    logged = {}
    n_skipped = 0
    shared = 'module'
    helper_defined = False

    def verdict(failed, px=None, exc=None):
        return dict(marks=marks, failed=failed, fail_part=px, exc_name=exc, n_skipped=n_skipped, logged=logged)

    for px, part in enumerate(parts):
        ks = statements_of(part, table)
        # C04: a directive on its own line persists; an inline one covers its own statement only
        inline_skip = lift = lift_skip = ignore_want = False
        for k in ks:
            name, beh, _ = table[k]
            if beh[0] == 'dir':
                if beh[1] == 'SKIP':
                    skip = beh[2]
                else:
                    requires = beh[2]
            elif name == 'skip_inline':
                inline_skip = True
            elif 'lift_requires' in beh:
                lift = True
            elif 'lift_skip' in beh:
                lift_skip = True
            elif beh[0] == 'bad_directive':
                return verdict(True, px, None)
            elif 'ignore_want' in beh:
                ignore_want = True
        code_ks = [k for k in ks if table[k][1][0] != 'dir']
        if (skip and not lift_skip) or (requires and not lift) or inline_skip or not code_ks:
            n_skipped += 1
            continue
        # C09: an error found when the part is compiled fails the doctest; nothing of the part runs
        if any(table[k][1][0] == 'compile_error' for k in code_ks):
            return verdict(True, px, 'SyntaxError')
        out = ''
        raised = None
        value = None
        for k in code_ks:
            marks.append(k)
            beh = table[k][1]
            if beh[0] == 'out':
                out += beh[1]
            elif beh[0] == 'outvalue':
                out += beh[1]
                value = beh[2]
            elif beh[0] == 'value':
                value = beh[1]
            elif beh[0] == 'defhelper':
                helper_defined = True
            elif beh[0] == 'callhelper':
                raised = ('raise', 'ValueError', 'boomH') if helper_defined else ('raise', 'NameError', "name 'helper' is not defined")
                break
            elif beh[0] == 'rebind':
                shared = beh[1]
            elif beh[0] == 'read_shared':
                out += shared + '\n'
            elif beh[0] == 'raise':
                raised = beh
                break
        if value is not None and part.compile_mode == 'single' and raised is None and value != 'None':
            out += value + '\n'        # single mode: the value is displayed on stdout
        logged[px] = out
        want = '\n'.join(part.want_lines) if part.want_lines else None
        if raised is not None:
            # C03: an exception passes only if the want announces that exception
            if want is None:
                return verdict(True, px, raised[1])
            if 'type_differs' in raised:
                return verdict(True, px, None)
            if 'type_agrees' in raised or want.strip().endswith('%s: %s' % (raised[1], raised[2])):
                unmatched = []
                continue
            return verdict(True, px, None)
        if want is None:
            if out:
                unmatched.append(out)
            continue
        if ignore_want:
            unmatched = []
            continue
        # C02: the want is compared with this part's output, with its value, or with a run of trailing unmatched outputs
        want_n = '\n'.join('' if ln == '<BLANKLINE>' else ln for ln in want.split('\n'))
        chunks = unmatched + [out]
        cands = [''.join(chunks[j:]) for j in range(len(chunks))]
        ok = any(c.rstrip('\n') == want_n.rstrip('\n') for c in cands if c)
        if not ok and value is not None:
            ok = (value == want) or (out + value).strip() == want
        if not ok:
            return verdict(True, px, 'GotWantException')
        unmatched = []
    return verdict(False)


def check_one(doctest_example, seq, modpath, module):
    text, table = build(seq)
    dt = doctest_example.DocTest(text, callname='gen', modpath=modpath, mode='native')
    results = []
    stdout0 = sys.stdout
    for attempt in (0, 1):
        trace = []
        dt.global_namespace['mark'] = trace.append
        try:
            # the second run is verbose (C09: verbosity 0..3): what run prints must not change what it does
            if attempt == 0:
                summary = dt.run(on_error='return', verbose=0)
            else:
                import contextlib
                import io
                with contextlib.redirect_stdout(io.StringIO()):
                    summary = dt.run(on_error='return', verbose=3)
        except Exception as ex:      # noqa
            sys.stdout = stdout0
            return text, 'C09: run(on_error="return", verbose=%d) raised %r (run #%d)' % (0 if attempt == 0 else 3, ex, attempt + 1)
        if sys.stdout is not stdout0:
            sys.stdout = stdout0
            return text, 'C12: sys.stdout is not restored after run #%d' % (attempt + 1)
        if getattr(dt.module, 'shared', 'module') != 'module':
            dt.module.shared = 'module'
            return text, 'C11: the doctest rebound a global of the module under test'
        exp = oracle(dt._parts, table)
        if trace != exp['marks']:
            return text, 'C01/C04: executed statements %r, expected %r (run #%d)' % (trace, exp['marks'], attempt + 1)
        if bool(summary['failed']) != exp['failed']:
            return text, 'C02/C03: failed=%r, expected %r (run #%d)' % (summary['failed'], exp['failed'], attempt + 1)
        all_skipped = (not exp['failed']) and exp['n_skipped'] == len(dt._parts)
        if bool(summary['skipped']) != all_skipped or bool(summary['passed']) != ((not exp['failed']) and not all_skipped):
            return text, 'C02/C10: verdict %r, expected failed=%r skipped=%r' % (
                {k: summary[k] for k in ('passed', 'failed', 'skipped')}, exp['failed'], all_skipped)
        if exp['failed']:
            if dt.exc_info is None or (exp['exc_name'] is not None and dt.exc_info[0].__name__ != exp['exc_name']):
                return text, 'C03/C09: recorded exception %r, expected %s' % (dt.exc_info and dt.exc_info[0], exp['exc_name'])
            if dt.failed_part is not dt._parts[exp['fail_part']]:
                return text, 'C09: failed_part is not part #%d' % exp['fail_part']
            try:
                lines = dt.repr_failure()
            except Exception as ex:      # noqa
                return text, 'C09: repr_failure raised %r' % (ex,)
            if not any(dt.exc_info[0].__name__ in ln for ln in lines):
                return text, 'C09: the report does not name %s' % dt.exc_info[0].__name__
        elif dt.exc_info is not None:
            return text, 'C02: exc_info recorded although nothing failed'
        got_logged = {k: v for k, v in dt.logged_stdout.items()}
        if got_logged != exp['logged']:
            return text, 'C01: logged stdout %r, expected %r' % (got_logged, exp['logged'])
        results.append((trace, summary['failed'], summary['skipped']))
    if results[0] != results[1]:
        return text, 'C11: the second run of the same doctest behaved differently: %r then %r' % (results[0], results[1])
    return text, None


N_RANDOM = {'quick': 1200, 'thorough': 12000}


def sequences(tier, seed):
    n_full = 2 if tier == 'quick' else 3
    for n in range(1, n_full + 1):
        for seq in itertools.product(NAMES, repeat=n):
            yield seq
    rnd = random.Random(seed)
    n_rand = N_RANDOM[tier]
    for _ in range(n_rand):
        n = rnd.randint(n_full + 1, n_full + 3)
        yield tuple(rnd.choice(NAMES) for _ in range(n))


def run(eng, tier, seed):
    import importlib
    import os
    import shutil
    import tempfile
    doctest_example = importlib.import_module('xdoctest.doctest_example')
    tmp = tempfile.mkdtemp(prefix='xdcorpus_')
    modpath = os.path.join(tmp, 'xdcorpus_mod.py')
    with open(modpath, 'w') as f:
        f.write(MODULE_SOURCE)
    n = 0
    cex = None
    try:
        for seq in sequences(tier, seed):
            n += 1
            try:
                text, problem = check_one(doctest_example, seq, modpath, None)
            except Exception as ex:      # noqa: the harness itself must not hide a crash of the parser on these inputs
                text, problem = build(seq)[0], 'harness: %r' % (ex,)
            if problem is not None:
                cex = {'docsrc': text, 'templates': list(seq), 'problem': problem}
                break
    finally:
        sys.modules.pop('xdcorpus_mod', None)
        shutil.rmtree(tmp, ignore_errors=True)
    n_full = 2 if tier == 'quick' else 3
    return {'bounded': [{'name': 'run.corpus',
                         'bound': 'every sequence of 1..%d statement templates (of %d) plus %d random longer ones, each doctest '
                                  'run twice by the real DocTest.run (doctests belong to a scratch module with one global)'
                                  % (n_full, len(NAMES), N_RANDOM[tier]),
                         'evaluations': n, 'counterexample': cex}]}
