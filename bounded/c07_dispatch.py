"""C07: the AST constructors for which TopLevelVisitor has its own handler (everything else goes to generic_visit).
An exact structural check on the class of the tree under verification (reported with the bounded items because it is
not an SMT obligation): async functions must be handled by the handler that is under contract for functions."""


def run(eng, tier, seed):
    import importlib
    sa = importlib.import_module('xdoctest.static_analysis')
    V = sa.TopLevelVisitor
    cex = None
    fd = vars(V).get('visit_FunctionDef')
    afd = vars(V).get('visit_AsyncFunctionDef')
    if fd is None:
        cex = {'problem': 'TopLevelVisitor has no visit_FunctionDef'}
    elif afd is not fd:
        cex = {'problem': 'visit_AsyncFunctionDef is not the handler that is under contract for functions',
               'consequence': 'async def: docstring not collected as a function and its nested functions are reached by generic_visit',
               'visit_AsyncFunctionDef': repr(afd)}
    for name in ('visit_ClassDef', 'visit_If', 'visit_Module'):
        if name not in vars(V) and cex is None:
            cex = {'problem': 'TopLevelVisitor has no %s' % name}
    return {'bounded': [{'name': 'C07.handler-dispatch', 'bound': 'exact: identity of the class attributes', 'evaluations': 5,
                         'counterexample': cex}]}
