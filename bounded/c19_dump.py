"""Bounded stand-in for C19 (labelled bounded, never counted as proved): the REAL runner._convert_to_test_module on
small generated doctests against an executable statement of the property."""
import itertools
import random
import time


def _expected_body(example):
    """Per part: source lines without star imports, then the want as comments."""
    out = []
    for part in example._parts:
        lines = [l for l in part.exec_lines if ' import *' not in l]
        out.extend('\n'.join(lines).splitlines())
        if part.want:
            out.append('# doctest want:')
            out.extend('# ' + w for w in part.want.split('\n'))
    return out


def run(eng, tier, seed):
    from xdoctest import runner, doctest_example, doctest_part
    stmts = ['x = 1', 'from math import *', 'from os.path import *  # NOQA', 'print(x)', 'y = [1,\n     2]', '# a comment',
             'import sys']
    wants = [None, ['1'], ['a', 'b']]
    rnd = random.Random(seed)
    combos = list(itertools.product(range(len(stmts)), repeat=3))
    rnd.shuffle(combos)
    n = 0
    t0 = time.time()
    cex = None
    budget = 4.0 if tier == 'quick' else 30.0
    for combo in combos:
        if time.time() - t0 > budget:
            break
        for w in wants:
            n += 1
            exec_lines = []
            for k in combo:
                exec_lines.extend(stmts[k].split('\n'))
            # two parts: the first without want, the second with
            p1 = doctest_part.DoctestPart(list(exec_lines[:2]), want_lines=None, line_offset=0, orig_lines=['>>> ' + l for l in exec_lines[:2]])
            p2 = doctest_part.DoctestPart(list(exec_lines[2:]) or ['pass'], want_lines=(list(w) if w else None), line_offset=2,
                                          orig_lines=['>>> ' + l for l in (exec_lines[2:] or ['pass'])])
            ex = doctest_example.DocTest('>>> pass', modpath=None, callname='f', num=0)
            ex._parts = [p1, p2]
            before = [list(p1.exec_lines), list(p2.exec_lines)]
            ex2 = doctest_example.DocTest('>>> pass', modpath=None, callname='g', num=0)
            ex2._parts = [doctest_part.DoctestPart(['z = 0'], want_lines=None, line_offset=0, orig_lines=['>>> z = 0'])]
            expected = [_expected_body(e) for e in (ex, ex2)]
            try:
                text = runner._convert_to_test_module([ex, ex2])
            except Exception as e:          # noqa
                cex = {'exec_lines': before, 'want': w, 'error': repr(e)}
                break
            blocks = [b for b in text.split('\n\n\n')]
            ok = len(blocks) == 2 and all(b.startswith('def test_') for b in blocks)
            if ok:
                for b, exp in zip(blocks, expected):
                    body = [l[4:] for l in b.split('\n')[1:]]
                    # drop the generated docstring header (3 lines) and an optional 'from m import ...' line
                    body = body[3:]
                    if body and body[0].startswith('from ') and ' import ' in body[0] and body[0] not in exp:
                        body = body[1:]
                    # blank lines carry no statement: the unchanged tree drops a part's trailing blank line and emits
                    # an empty line for a part that consisted of star imports only
                    if [l for l in body if l.strip()] != [l for l in exp if l.strip()]:
                        ok = False
            if not ok:
                cex = {'exec_lines': before, 'want': w, 'dump': text[:400]}
                break
        if cex:
            break
    return {'bounded': [{'name': 'C19.dump-vs-executable-spec',
                         'bound': 'two doctests; parts built from 3 of %d statements (star imports, multi-line, comments) x %d wants; %s budget'
                                  % (len(stmts), len(wants), tier),
                         'evaluations': n, 'counterexample': cex}]}
