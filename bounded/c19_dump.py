"""Bounded stand-in for C19 (labelled bounded, never counted as proved): the REAL runner._convert_to_test_module on
small generated doctests against an executable statement of the property."""
import itertools
import random
import time


def _expected_body(example):
    """Per part: source lines without star imports, then the want as comments."""
    out = []
    for part in example._parts:
        lines = [l for l in part.exec_lines if ' import *' not in l]
        out.extend('\n'.join(lines).splitlines())
        if part.want:
            out.append('# doctest want:')
            out.extend('# ' + w for w in part.want.split('\n'))
    return out


def run(eng, tier, seed):
    from xdoctest import runner, doctest_example, doctest_part
    stmts = ['x = 1', 'from math import *', 'from os.path import *  # NOQA', 'print(x)', 'y = [1,\n     2]', '# a comment',
             'import sys']
    wants = [None, ['1'], ['a', 'b']]
    rnd = random.Random(seed)
    combos = list(itertools.product(range(len(stmts)), repeat=3))
    rnd.shuffle(combos)
    n = 0
    t0 = time.time()
    cex = None
    budget = 4.0 if tier == 'quick' else 30.0
    for combo in combos:
        if time.time() - t0 > budget:
            break
        for w in wants:
            n += 1
            exec_lines = []
            for k in combo:
                exec_lines.extend(stmts[k].split('\n'))
            # two parts: the first without want, the second with
            p1 = doctest_part.DoctestPart(list(exec_lines[:2]), want_lines=None, line_offset=0, orig_lines=['>>> ' + l for l in exec_lines[:2]])
            p2 = doctest_part.DoctestPart(list(exec_lines[2:]) or ['pass'], want_lines=(list(w) if w else None), line_offset=2,
                                          orig_lines=['>>> ' + l for l in (exec_lines[2:] or ['pass'])])
            ex = doctest_example.DocTest('>>> pass', modpath=None, callname='f', num=0)
            ex._parts = [p1, p2]
            before = [list(p1.exec_lines), list(p2.exec_lines)]
            ex2 = doctest_example.DocTest('>>> pass', modpath=None, callname='g', num=0)
            ex2._parts = [doctest_part.DoctestPart(['z = 0'], want_lines=None, line_offset=0, orig_lines=['>>> z = 0'])]
            expected = [_expected_body(e) for e in (ex, ex2)]
            try:
                text = runner._convert_to_test_module([ex, ex2])
            except Exception as e:          # noqa
                cex = {'exec_lines': before, 'want': w, 'error': repr(e)}
                break
            blocks = [b for b in text.split('\n\n\n')]
            ok = len(blocks) == 2 and all(b.startswith('def test_') for b in blocks)
            if ok:
                for b, exp in zip(blocks, expected):
                    body = [l[4:] for l in b.split('\n')[1:]]
                    # drop the generated docstring header (3 lines) and an optional 'from m import ...' line
                    body = body[3:]
                    if body and body[0].startswith('from ') and ' import ' in body[0] and body[0] not in exp:
                        body = body[1:]
                    # blank lines carry no statement: the unchanged tree drops a part's trailing blank line and emits
                    # an empty line for a part that consisted of star imports only
                    if [l for l in body if l.strip()] != [l for l in exp if l.strip()]:
                        ok = False
            if not ok:
                cex = {'exec_lines': before, 'want': w, 'dump': text[:400]}
                break
        if cex:
            break
    e2e = end_to_end(tier, seed)
    return {'bounded': [e2e, {'name': 'C19.dump-vs-executable-spec',
                         'bound': 'two doctests; parts built from 3 of %d statements (star imports, multi-line, comments) x %d wants; %s budget'
                                  % (len(stmts), len(wants), tier),
                         'evaluations': n, 'counterexample': cex}][::-1]}


def end_to_end(tier, seed):
    """Generated modules (statements of bounded/c01_equiv.py that make sense inside a function; correct wants after some groups):
    the dump of the module's doctests compiles, has one test function per doctest, and running each function writes exactly
    what the de-prompted doctest writes as a plain program -- nothing lost or re-ordered."""
    import contextlib
    import io
    import os
    import shutil
    import tempfile
    import importlib
    from bounded import c01_equiv
    core = importlib.import_module('xdoctest.core')
    runner = importlib.import_module('xdoctest.runner')
    rnd = random.Random(seed)
    # (not usable inside a function body: top-level await, globals(); a multi-line string literal keeps its lines but they get
    # the indentation of the function body, so its VALUE differs -- the property speaks of the lines, not of that)
    usable = [(ls, kd) for ls, kd in c01_equiv.STATEMENTS
              if kd != 'string' and not any('await' in ln or 'globals()' in ln or 'async def' in ln for ln in ls)]
    final = ["print(sorted((n, repr(v)) for n, v in locals().items() if n.startswith('v') and n[1:].isdigit()))"]
    tmp = tempfile.mkdtemp(prefix='xddump_')
    n = 0
    cex = None
    n_mod = 40 if tier == 'quick' else 400
    try:
        for i in range(n_mod):
            funcs = []
            src = []
            for fi in range(rnd.randint(1, 3)):
                k0 = rnd.randrange(1, 50)
                groups = []
                for j in range(rnd.randint(1, 4)):
                    lines, kind = rnd.choice(usable)
                    groups.append(([ln.format(k=k0 + j) for ln in lines], kind))
                groups.append((final, None))
                outs = c01_equiv.reference_per_group(groups)
                wants = []
                pending = ''
                for (g_lines, g_kind), o in zip(groups, outs):
                    pending += o
                    if g_kind != 'expr' and pending.strip() and '\n\n' not in pending and rnd.random() < 0.5:
                        wants.append(pending)
                        pending = ''
                    else:
                        wants.append(None)
                text, plain = c01_equiv.render(groups, rnd.choice(['ps1', 'ps2']), 4, rnd, wants)
                src.append('def func%d():\n    r"""\n%s    """\n' % (fi, text))
                funcs.append(''.join(outs))
            path = os.path.join(tmp, 'dump_mod_%d.py' % i)
            with open(path, 'w') as f:
                f.write('\n'.join(src))
            examples = [ex for ex in core.parse_doctestables(path, style='freeform', analysis='static') if not ex.is_disabled()]
            dump = runner._convert_to_test_module(examples)
            n += 1
            problem = None
            try:
                code = compile(dump, 'dumped', 'exec')
            except SyntaxError as ex:
                problem = 'the dumped text is not valid Python: %r' % (ex,)
            if problem is None:
                ns = {}
                exec(code, ns)
                tests = sorted(k for k in ns if k.startswith('test_'))
                if len(tests) != len(funcs):
                    problem = '%d doctests but %d test functions in the dump' % (len(funcs), len(tests))
                else:
                    got = []
                    for t in tests:
                        buf = io.StringIO()
                        try:
                            with contextlib.redirect_stdout(buf):
                                ns[t]()
                        except Exception as ex:      # noqa
                            problem = 'running dumped %s raised %r' % (t, ex)
                            break
                        got.append(buf.getvalue())
                    if problem is None and sorted(got) != sorted(funcs):
                        problem = 'the dumped functions write %r, the doctests as plain programs %r' % (got, funcs)
            os.remove(path)
            if problem is not None:
                cex = {'module_source': '\n'.join(src), 'dump': dump[:1500], 'problem': problem}
                break
    finally:
        shutil.rmtree(tmp, ignore_errors=True)
    return {'name': 'C19.dump-runs-like-the-doctests',
            'bound': '%d generated modules of 1..3 doctests (statement shapes of bounded/c01_equiv.py, correct wants): the dump compiles, has '
                     'one function per doctest, and each function writes what the de-prompted doctest writes' % n_mod,
            'evaluations': n, 'counterexample': cex}
