"""Bounded stand-in (labelled bounded, never counted as proved) for the assumed contract of Directive.extract (tokenizer and
regular expressions, outside the engine): statement texts are built from a code fragment, an optional comment carrying
directives, written so that the expected directives are known BY CONSTRUCTION -- including texts where the directive syntax
appears only inside a string literal (no directive) and comment-only lines (block directives)."""
import itertools

CODES = ['', 'x = 1', "print('a')", "s = '# xdoctest: +SKIP'", 's = "# doctest: +ELLIPSIS"', 'y = [1,\n     2]', "z = '''a\nb'''",
         # statements made of string literals only (an expression statement whose value is compared with the want): still code
         "'abc'", "'a' 'b'", "'''a\nb'''", "f'abc'", "b'xy'", '"# not a comment"']
PREFIXES = ['xdoctest', 'doctest', 'xdoc', 'XDOCTEST']
# (option text, expected [(name, positive, args)])
OPTS = [
    ('+SKIP', [('SKIP', True, [])]),
    ('-SKIP', [('SKIP', False, [])]),
    ('SKIP', [('SKIP', True, [])]),
    ('+ELLIPSIS, -NORMALIZE_WHITESPACE', [('ELLIPSIS', True, []), ('NORMALIZE_WHITESPACE', False, [])]),
    ('+REQUIRES(module:foo)', [('REQUIRES', True, ['module:foo'])]),
    ('+REQUIRES(module:foo, --show)', [('REQUIRES', True, ['module:foo', '--show'])]),
    ('-REQUIRES(env:A==1)', [('REQUIRES', False, ['env:A==1'])]),
    ('+IGNORE_WANT', [('IGNORE_WANT', True, [])]),
    ('+skip', [('SKIP', True, [])]),
]


def run(eng, tier, seed):
    import importlib
    directive = importlib.import_module('xdoctest.directive')
    n = 0
    cex = None
    for code, prefix, (opt, expected) in itertools.product(CODES, PREFIXES, OPTS):
        for comment in (True, False):
            if comment:
                text = (code + '  ' if code else '') + '# %s: %s' % (prefix, opt)
                want = [(nm, pos, args, bool(code)) for nm, pos, args in expected]
                # a comment after a multi-line statement sits on its last line
            else:
                text = code
                want = []
            if not text:
                continue
            try:
                got = [(d.name, d.positive, list(d.args), bool(d.inline)) for d in directive.Directive.extract(text)]
            except Exception as ex:      # noqa
                got = 'raised %r' % (ex,)
            n += 1
            if got != want:
                cex = {'text': text, 'extracted': got if isinstance(got, str) else [list(g) for g in got],
                       'expected': [list(w) for w in want],
                       'problem': 'the directives extracted differ from the ones written (name, positive, args, inline)'}
                break
        if cex is not None:
            break
    return {'bounded': [{'name': 'C04.directive-extraction',
                         'bound': '%d code fragments (incl. directive syntax inside string literals, multi-line statements, statements made of string literals only) x %d prefixes x %d '
                                  'option texts x with / without the comment, on the real Directive.extract' % (len(CODES), len(PREFIXES), len(OPTS)),
                         'evaluations': n, 'counterexample': cex}]}
