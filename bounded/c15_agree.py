"""Bounded stand-in (labelled bounded, never counted as proved) for C15 end to end: a generated module whose doctests have outcomes
known BY CONSTRUCTION is run by `pytest --xdoctest` (sub-process, the real plugin) and by the native runner (in process,
runner.doctest_module); both must report, per identifier, the constructed outcome -- the only allowed difference being that a
force-disabled doctest is `skipped` under pytest and omitted natively -- and both must signal failure exactly when a doctest
failed."""
import os
import random
import re
import shutil
import subprocess
import sys
import tempfile

# name -> (docstring body lines, outcome)
SHAPES = {
    'passes':        (['>>> print(1 + 1)', '2'], 'passed'),
    'quiet_pass':    (['>>> x = 3'], 'passed'),
    'wrong_want':    (['>>> print(1 + 1)', '3'], 'failed'),
    'raises':        (['>>> int("x")'], 'failed'),
    'expected_exc':  (['>>> int("x")', 'Traceback (most recent call last):', '    ...', 'ValueError: invalid literal for int() with base 10: \'x\''], 'passed'),
    'all_skipped':   (['>>> # xdoctest: +SKIP', '>>> print(1)', '2'], 'skipped'),
    'inline_skipped': (['>>> print(1)  # xdoctest: +SKIP', '2'], 'skipped'),
    'unmet_requires': (['>>> # xdoctest: +REQUIRES(module:no_such_module_xyz)', '>>> print(1)', '2'], 'skipped'),
    'disabled':      (['>>> # DISABLE_DOCTEST', '>>> print(1)', '2'], 'disabled'),
    'compile_error': (['>>> return 5'], 'failed'),
    'late_failure':  (['>>> print(1)', '1', '>>> print(2)', '3'], 'failed'),
    'needs_option':  (['>>> print("a b c")', 'abc'], 'option'),       # passes exactly when +IGNORE_WHITESPACE is a default option
    'skip_then_pass': (['>>> print(1)  # xdoctest: +SKIP', '2', '>>> print(3)', '3'], 'passed'),
}


def gen_module(rnd, n_funcs, style='freeform'):
    lines = []
    expect = {}
    for k in range(n_funcs):
        shape = rnd.choice(sorted(SHAPES))
        body, outcome = SHAPES[shape]
        lines.append('def func%d():' % k)
        lines.append('    """')
        lines.append('    %s' % shape)
        lines.append('')
        if style == 'google':
            lines.append('    Example:')
        for ln in body:
            lines.append(('        ' if style == 'google' else '    ') + ln)
        lines.append('    """')
        lines.append('')
        expect['func%d:0' % k] = outcome
    return '\n'.join(lines) + '\n', expect


def one_module(runner, core, path, d, src, expect0, src_root, with_option, style='freeform'):
    """Problem text or None for one module under one option setting."""
    conf = {'default_runtime_state': {'IGNORE_WHITESPACE': True}} if with_option else {}
    expect = {k: (('passed' if with_option else 'failed') if v == 'option' else v) for k, v in expect0.items()}
    # ---- native
    native = {}
    for ex in core.parse_doctestables(path, style=style, analysis='static'):
        ex.mode = 'native'
        ex.config.update(conf)
        if ex.is_disabled():
            continue
        s = ex.run(on_error='return', verbose=0)
        native[ex.unique_callname] = 'failed' if s['failed'] else ('skipped' if s['skipped'] else 'passed')
    summary = runner.doctest_module(path, command='all', style=style, verbose=0, config=dict(conf))
    native_failed = summary['n_failed'] > 0
    # ---- pytest
    env = dict(os.environ, PYTHONPATH=src_root + os.pathsep + os.environ.get('PYTHONPATH', ''))
    proc = subprocess.run([sys.executable, '-m', 'pytest', '--xdoctest', '--xdoctest-style=' + style, '-p', 'no:cacheprovider',
                           '-v', '--no-header'] + (['--xdoctest-options=+IGNORE_WHITESPACE'] if with_option else []) + [path],
                          cwd=d, env=env, capture_output=True, text=True, timeout=300)
    pyt = {}
    for m in re.finditer(r'^\S+::(func\d+:\d+)\s+(PASSED|FAILED|SKIPPED)', proc.stdout, re.M):
        pyt[m.group(1)] = m.group(2).lower()
    opt = ' (default option +IGNORE_WHITESPACE)' if with_option else ''
    for ident, outcome in sorted(expect.items()):
        p_exp = 'skipped' if outcome == 'disabled' else outcome
        n_exp = None if outcome == 'disabled' else outcome
        if native.get(ident) != n_exp:
            return '%s: native runner reports %r, constructed outcome %r%s' % (ident, native.get(ident), outcome, opt), proc
        if pyt.get(ident) != p_exp:
            return '%s: pytest reports %r, constructed outcome %r (native: %r)%s' % (ident, pyt.get(ident), outcome, native.get(ident), opt), proc
    counts = {o: sum(1 for v in expect.values() if v == o) for o in ('passed', 'failed', 'skipped')}
    got_counts = {'passed': summary.get('n_passed'), 'failed': summary.get('n_failed'), 'skipped': summary.get('n_skipped')}
    if got_counts != counts or summary.get('n_total') != sum(counts.values()) or len(summary.get('failed', [])) != counts['failed']:
        return 'C10: native tallies %r (n_total %r, %d listed as failed), constructed %r%s' % (
            got_counts, summary.get('n_total'), len(summary.get('failed', [])), counts, opt), proc
    any_failed = counts['failed'] > 0
    if (proc.returncode != 0) != any_failed or native_failed != any_failed:
        return 'failure signalling differs: pytest exit %d, native n_failed > 0 is %r, some doctest failed by construction: %r%s' % (
            proc.returncode, native_failed, any_failed, opt), proc
    return None, proc


def run(eng, tier, seed):
    import importlib
    runner = importlib.import_module('xdoctest.runner')
    core = importlib.import_module('xdoctest.core')
    src_root = os.path.dirname(os.path.dirname(os.path.abspath(runner.__file__)))
    rnd = random.Random(seed)
    tmp = tempfile.mkdtemp(prefix='xdagree_')
    n = 0
    cex = None
    n_mod = 2 if tier == 'quick' else 12
    try:
        for i in range(n_mod):
            style = ('freeform', 'google', 'auto')[i % 3] if tier != 'quick' else ('freeform', 'google')[i % 2]
            src, expect0 = gen_module(rnd, 8, 'freeform' if style == 'freeform' else 'google')
            d = os.path.join(tmp, 'm%d' % i)
            os.makedirs(d)
            path = os.path.join(d, 'agree_mod_%d.py' % i)
            with open(path, 'w') as f:
                f.write(src)
            for with_option in ((False, True) if (i % 2 == 0 or tier != 'quick') else (False,)):
                problem, proc = one_module(runner, core, path, d, src, expect0, src_root, with_option, style)
                n += 1
                if problem is not None:
                    cex = {'module_source': src, 'style': style, 'problem': problem, 'pytest_tail': proc.stdout[-1500:]}
                    break
            if cex is not None:
                break
    finally:
        shutil.rmtree(tmp, ignore_errors=True)
    return {'bounded': [{'name': 'C15.pytest-vs-native',
                         'bound': '%d generated modules of 8 doctests with constructed outcomes (13 shapes), styles freeform / google / auto, without and with a '
                                  'default directive option (--xdoctest-options / config), pytest in a sub-process vs the native runner' % n_mod,
                         'evaluations': n, 'counterexample': cex}]}
