"""Bounded stand-in for C11.fresh / C04 (labelled bounded, never counted as proved): the REAL RuntimeState on a few default
dicts and directive sequences -- neither the module-level defaults nor the dict handed in may be aliased or written."""
import copy
import itertools


def run(eng, tier, seed):
    from xdoctest import directive
    D = directive
    defaults = [None, {}, {'SKIP': True}, {'ELLIPSIS': False, 'NORMALIZE_REPR': False}]
    seqs = [[], [D.Directive('SKIP', positive=True, inline=False)],
            [D.Directive('SKIP', positive=False, inline=False)],
            [D.Directive('REQUIRES', positive=True, args=['module:no_such_module_xyz'], inline=False)],
            [D.Directive('ELLIPSIS', positive=False, inline=False), D.Directive('SKIP', positive=True, inline=True)]]
    n = 0
    cex = None
    for d, seq in itertools.product(defaults, seqs):
        n += 1
        before_default = copy.deepcopy(D.DEFAULT_RUNTIME_STATE)
        given = None if d is None else dict(d)
        given_before = copy.deepcopy(given)
        rs1 = D.RuntimeState(given)
        rs2 = D.RuntimeState(given)
        snapshot2 = copy.deepcopy(rs2.to_dict())
        problem = None
        if rs1._global_state is given or rs1._global_state is D.DEFAULT_RUNTIME_STATE:
            problem = 'the state dict is the caller\'s / the module-level dict itself'
        elif rs1._global_state['REQUIRES'] is D.DEFAULT_RUNTIME_STATE['REQUIRES'] or rs1._global_state['REQUIRES'] is rs2._global_state['REQUIRES']:
            problem = 'the REQUIRES set object is shared'
        else:
            try:
                rs1.update(seq)
            except Exception as ex:     # noqa
                problem = 'update raised %r' % (ex,)
            if problem is None and D.DEFAULT_RUNTIME_STATE != before_default:
                problem = 'DEFAULT_RUNTIME_STATE changed'
            if problem is None and given != given_before:
                problem = 'the defaults dict handed in changed'
            if problem is None and rs2.to_dict() != snapshot2:
                problem = 'another RuntimeState built from the same defaults changed'
        # restore the module-level defaults for the next case
        D.DEFAULT_RUNTIME_STATE.clear()
        D.DEFAULT_RUNTIME_STATE.update(before_default)
        if problem is not None:
            cex = {'default_state': repr(d), 'directives': [str(x) for x in seq], 'problem': problem}
            break
    return {'bounded': [{'name': 'C11.fresh-runtime-state', 'bound': '%d default dicts x %d directive sequences on the real RuntimeState' % (len(defaults), len(seqs)),
                         'evaluations': n, 'counterexample': cex}]}
