"""Bounded stand-in (labelled bounded, never counted as proved) for C18 end to end, on generated doctests (the docstring
generator of bounded/c08_lines.py plus the statement sequences of bounded/c01_chunks.py):

 R1 format_src(prompts and wants, no colours, no line numbers) shows every source and want line of every part once, in order;
 R2 parsing that text again yields the same executable lines, wants and compile modes;
 R3 with line numbers, the k-th displayed line carries the number start + k, start = 1 (doctest-relative) or the doctest's
    line in the file (file-relative), for wants on and off."""
import re


def check_doctest(de, docsrc, lineno):
    dt = de.DocTest(docsrc, callname='gen', lineno=lineno, mode='native')
    dt._parse()
    parts = [p for p in dt._parts]
    # R1
    text = dt.format_src(linenos=False, colored=False, want=True, prefix=True)
    expected = []
    for p in parts:
        expected.extend(p.orig_lines)
        expected.extend(p.want_lines or [])
    shown = text.split('\n')
    if shown != expected:
        return 'R1: displayed %r, the parts hold %r' % (shown, expected)
    # R2
    dt2 = de.DocTest(text, callname='gen', mode='native')
    dt2._parse()
    a = [(p.exec_lines, list(p.want_lines or []), p.compile_mode) for p in parts if p.exec_lines]
    b = [(p.exec_lines, list(p.want_lines or []), p.compile_mode) for p in dt2._parts if p.exec_lines]
    if a != b:
        return 'R2: re-parsing the displayed text gives %r, the original parts are %r' % (b, a)
    # R3
    for want in (True, False):
        for offset in (False, True):
            numbered = dt.format_src(linenos=True, colored=False, want=want, prefix=True, offset_linenos=offset).split('\n')
            start = lineno if offset else 1
            k = 0
            for p in parts:
                rows = list(p.orig_lines) + (list(p.want_lines or []) if want else [])
                base = start + p.line_offset
                for j, row in enumerate(rows):
                    if k >= len(numbered):
                        return 'R3: fewer numbered lines than lines'
                    m = re.match(r'\s*(\d+) (.*)$', numbered[k])
                    is_want_row = j >= len(p.orig_lines)
                    if is_want_row and not m and numbered[k].strip() == row.strip():
                        k += 1
                        continue        # want lines are displayed without a number
                    if not m or int(m.group(1)) != base + j or m.group(2) != row:
                        return 'R3: displayed %r where line %d %r is expected (want=%r, file-relative=%r)' % (numbered[k], base + j, row, want, offset)
                    k += 1
    return None


def run(eng, tier, seed):
    import importlib
    import itertools
    de = importlib.import_module('xdoctest.doctest_example')
    from bounded import c08_lines, c01_chunks
    n = 0
    cex = None
    sources = []
    import random
    rnd = random.Random(seed)
    k = 0
    for _ in range(150 if tier == 'quick' else 1500):
        lines = []
        for b in range(rnd.randint(1, 3)):
            ids = list(range(k, k + rnd.randint(1, 4)))
            k = ids[-1] + 1
            bl, _labels = c08_lines.code_block(ids, 0, rnd.random() < 0.6, None, None, rnd)
            lines.extend(bl)
        sources.append('\n'.join(lines))
    # lines that end in blanks (significant inside a string literal and in a want)
    sources.append(">>> print('name   ')\nname   ")
    sources.append(">>> s = '''first   \n... second'''\n>>> print(len(s))\n15")
    nmax = 2 if tier == 'quick' else 3
    for length in range(1, nmax + 1):
        for combo in itertools.product(range(len(c01_chunks.POOL)), repeat=length):
            stmts = [c01_chunks.POOL[k] for k in combo]
            for ps2 in (True, False):
                src, _ = c01_chunks.render(stmts, ps2)
                sources.append('\n'.join(src))
                sources.append('\n'.join(src + ['1']))
    for docsrc in sources:
        try:
            problem = check_doctest(de, docsrc, 23)
        except Exception as ex:      # noqa: generated text the parser rejects is outside the property (C14)
            if type(ex).__name__ in ('DoctestParseError', 'SyntaxError', 'IncompleteParseError'):
                continue
            problem = 'harness/format raised %r' % (ex,)
        n += 1
        if problem is not None:
            cex = {'docsrc': docsrc, 'problem': problem}
            break
    return {'bounded': [{'name': 'C18.display-round-trip',
                         'bound': '%d generated doctests (docstring generator + statement sequences up to %d): display, re-parse, numbering in '
                                  '4 modes, on the real format_src / parser' % (len(sources), nmax),
                         'evaluations': n, 'counterexample': cex}]}
