"""Bounded stand-in (labelled bounded, never counted as proved) for C14 end to end: strings generated from a grammar of prompt
fragments, brackets, quotes, backslashes, directive fragments, control characters and keywords.

 K1 DoctestParser().parse(text) returns or raises DoctestParseError -- nothing else (each call under a time limit);
 K2 the same text as the docstring of one function between two valid ones in a scratch module: parse_doctestables raises
    nothing in every style, the two neighbours are collected and run (pass), and when the text does not parse a warning is
    issued and no example comes from it."""
import itertools
import os
import random
import shutil
import signal
import tempfile
import warnings

FRAGMENTS = ['>>> ', '... ', 'x = (', ')', '[', ']', '{', '}', "'''", '"""', "'", '\\', 'print(1)', '1',
             '# xdoctest: +SKIP', '# xdoctest: +REQUIRES(module:os', '# xdoctest: +SKIP)', '# xdoctest: -', 'def f(:', 'if x:',
             'lambda', 'return', '\t', '\x0c', ';', ':', 'Traceback (most recent call last):', '    ', 'Example:', '{name}', '}{']


class _Timeout(Exception):
    pass


def _alarm(signum, frame):
    raise _Timeout()


def texts(tier, seed):
    rnd = random.Random(seed)
    n = 300 if tier == 'quick' else 4000
    for _ in range(n):
        lines = []
        for _ln in range(rnd.randint(1, 5)):
            lines.append(''.join(rnd.choice(FRAGMENTS) for _f in range(rnd.randint(1, 4))))
        yield '\n'.join(lines)
    # handpicked
    for t in ['>>> x = (', ">>> '''", '>>> x = 1  # xdoctest: +REQUIRES(module:os', '>>> # xdoctest: +SKIP)', '>>> def f(:', '>>> d = {',
              '>>> ' + '(' * 300, '>>> 3 = d\n>>> d = {}', '>>> print(1\n... \n2', '    >>> x\n  >>> y\n>>> z', '>>> \\', '>>> if 1:\n>>> else:']:
        yield t


def run(eng, tier, seed):
    import contextlib
    import io
    # the library prints diagnostics for malformed input; they are not part of the check's output
    with contextlib.redirect_stdout(io.StringIO()), contextlib.redirect_stderr(io.StringIO()):
        return _run(eng, tier, seed)


def _run(eng, tier, seed):
    import importlib
    parser = importlib.import_module('xdoctest.parser')
    core = importlib.import_module('xdoctest.core')
    exceptions = importlib.import_module('xdoctest.exceptions')
    tmp = tempfile.mkdtemp(prefix='xdcontain_')
    n = 0
    cex = None
    old = signal.signal(signal.SIGALRM, _alarm)
    try:
        for i, text in enumerate(texts(tier, seed)):
            # K1
            parses = True
            signal.alarm(20)
            try:
                parser.DoctestParser().parse(text)
            except exceptions.DoctestParseError:
                parses = False
            except _Timeout:
                cex = {'text': text, 'problem': 'K1: parse did not return within 20 s'}
            except Exception as ex:      # noqa
                cex = {'text': text, 'problem': 'K1: parse raised %r (not the library\'s parse error)' % (ex,)}
            finally:
                signal.alarm(0)
            n += 1
            if cex is not None:
                break
            if '"""' in text or '\\' in text or '\x0c' in text:
                continue        # cannot be embedded verbatim in a generated module source
            # K2
            body = '\n'.join('    ' + ln for ln in text.split('\n'))
            src = ('def good_a():\n    """\n    >>> print(1)\n    1\n    """\n\n'
                   'def broken():\n    r"""\n' + body + '\n    """\n\n'
                   'def good_b():\n    """\n    >>> print(2)\n    2\n    """\n')
            try:
                compile(src, 'gen', 'exec')
            except (SyntaxError, ValueError):
                continue
            path = os.path.join(tmp, 'contain_mod_%d.py' % i)
            with open(path, 'w') as f:
                f.write(src)
            for style in ('freeform', 'auto', 'google'):
                with warnings.catch_warnings(record=True) as wlist:
                    warnings.simplefilter('always')
                    signal.alarm(30)
                    try:
                        examples = list(core.parse_doctestables(path, style=style, analysis='static'))
                    except _Timeout:
                        cex = {'text': text, 'style': style, 'problem': 'K2: collection did not return within 30 s'}
                        break
                    except Exception as ex:      # noqa
                        cex = {'text': text, 'style': style, 'problem': 'K2: collecting the module raised %r' % (ex,)}
                        break
                    finally:
                        signal.alarm(0)
                n += 1
                names = [e.callname for e in examples]
                if style != 'google':
                    if names.count('good_a') != 1 or names.count('good_b') != 1:
                        cex = {'text': text, 'style': style, 'problem': 'K2: the valid neighbours are not collected: %r' % (names,)}
                        break
                    for e in examples:
                        if e.callname in ('good_a', 'good_b'):
                            e.mode = 'native'
                            s = e.run(on_error='return', verbose=0)
                            if not s['passed']:
                                cex = {'text': text, 'style': style, 'problem': 'K2: neighbour %s does not pass' % e.callname}
                    # (auto style parses only the google blocks when there are any: the whole-text verdict applies to freeform)
                    if style == 'freeform' and not parses and 'broken' in names:
                        cex = {'text': text, 'style': style, 'problem': 'K2: an example is produced from a docstring that does not parse'}
                    if style == 'freeform' and not parses and not wlist:
                        cex = {'text': text, 'style': style, 'problem': 'K2: no warning for the docstring that does not parse'}
                if cex is not None:
                    break
            os.remove(path)
            if cex is not None:
                break
    finally:
        signal.signal(signal.SIGALRM, old)
        shutil.rmtree(tmp, ignore_errors=True)
    return {'bounded': [{'name': 'C14.containment',
                         'bound': '%d generated texts (1..5 lines of 1..4 fragments out of %d) + 12 handpicked: parse alone, and as one docstring '
                                  'between two valid ones x 3 styles' % (300 if tier == 'quick' else 4000, len(FRAGMENTS)),
                         'evaluations': n, 'counterexample': cex}]}
