PROPERTY = {
    'id': 'C10',
    'contract_modules': ['doctest_example', 'runner'],
    'functions': ['xdoctest.runner:_run_examples', 'xdoctest.doctest_example:DocTest.run',
                  'xdoctest.doctest_example:DocTest.is_disabled',
                  'xdoctest.doctest_example:DocTest.cmdline', 'xdoctest.doctest_example:DocTest.node',
                  'xdoctest.runner:doctest_module#gather',
                  'xdoctest.runner:_convert_to_test_module', 'xdoctest.runner:_print_summary_report',
                  'xdoctest.runner:_auto_disable_failing_tests_hook',
                  'xdoctest.utils.util_str:color_text'],
    'clauses': {'P': [], 'T': []},
    'explanation': 'C10: tallies of the native runner.',
}
