PROPERTY = {
    'id': 'C10',
    'extra': ['bounded.c11_fresh.run', 'bounded.c15_agree.run'],
    'contract_modules': ['doctest_example', 'runner', 'util_stream', 'checker', 'doctest_part'],
    'uses': {'xdoctest.doctest_example:DocTest.run': 'C09'},
    'functions': ['xdoctest.runner:_run_examples', 'xdoctest.doctest_example:DocTest._post_run',
                  'xdoctest.doctest_example:DocTest._color', 'xdoctest.doctest_example:DocTest._print_captured', 'xdoctest.doctest_example:DocTest.repr_failure',
                  'xdoctest.doctest_example:DocTest.is_disabled',
                  'xdoctest.doctest_example:DocTest.cmdline', 'xdoctest.doctest_example:DocTest.node',
                  'xdoctest.runner:doctest_module#gather', 'xdoctest.runner:doctest_module', 'xdoctest.__main__:main#tail',
                  'xdoctest.runner:_convert_to_test_module', 'xdoctest.runner:_print_summary_report',
                  'xdoctest.runner:_auto_disable_failing_tests_hook',
                  'xdoctest.utils.util_str:color_text'],
    'clauses': {
        'P': ['_post_run: failed == (exc_info is not None), skipped == (every part skipped), passed == neither: exactly one verdict per summary',
              '_run_examples: run is called exactly once per gathered example, in order, with on_error="return" (per-iteration '
              'event clause); n_passed + n_failed + n_skipped == number of summaries (== n_total unless a KeyboardInterrupt '
              'stopped the loop); the failed list is exactly the indices whose summary is failed, in order; len(failed) == n_failed',
              'doctest_module (region from `gather_all =`): the list handed to _run_examples is exactly the examples with '
              '(all/dump and not force-disabled) or (named by callname or callname:num), in order; list and dump run nothing; '
              'the returned summary is the one _run_examples produced',
              'is_disabled: force-disabled iff the source STARTS with one of the documented markers (re.match, IGNORECASE)',
              'main (region from the doctest_module call): exit status 1 iff n_failed > 0, else 0',
              'cmdline of a native doctest names it by path and callname:num (the text `list` prints is the join of these '
              'over ALL parsed examples: the comprehension has no filter)'],
        'B': ['generated modules of doctests with constructed outcomes run by the native runner (and pytest): n_passed / n_failed / n_skipped / n_total and the failed list equal the constructed counts, failure is signalled exactly when one failed (bounded/c15_agree.py)',
              'the real RuntimeState on a few default dicts x directive sequences: no aliasing of the defaults handed in (a shared state dict would let one doctest\'s directives change the next one\'s verdict and the tallies)'],
        'T': ['DocTest.run: exactly one of passed/failed/skipped per summary and no Exception escapes with on_error="return" '
              '(assumed here until the contract of run is discharged; C02.verdict / C09.noraise)',
              're.match as an uninterpreted predicate per (pattern, flags)',
              '_print_summary_report, _convert_to_test_module, the experimental after-all hook: no effect on the tallies'],
        'N/A': ['what the process prints ("=== n failed ===" line) and the zero-argument-function fallback'],
    },
    'explanation': 'C10 as contracts on the runner loop, the gather loop and the exit status computation; counts are '
                   'proved by loop invariants over ghost sequences of the summaries (count_true / true_indices).',
    'assumptions': ['regions: doctest_module is verified from `gather_all = ...` to its end with the parse step and the '
                    'zero-arg fallback dropped (examples is an arbitrary list of native-mode DocTest objects); main from the '
                    'call of doctest_module to its end'],
}
