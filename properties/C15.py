PROPERTY = {'id': 'C15',
 'extra': ['bounded.c15_agree.run'],
 'contract_modules': ['doctest_example', 'util_stream', 'checker', 'doctest_part', 'runner', 'plugin'],
 'functions': ['xdoctest.doctest_example:DocTest.run',
               'xdoctest.plugin:XDoctestItem.runtest',
               'xdoctest.runner:_run_examples',
               'xdoctest.plugin:XDoctestModule.collect',
               'xdoctest.plugin:_XDoctestBase._prepare_internal_config',
               'xdoctest.core:parse_doctestables',
               'xdoctest.plugin:XDoctestItem.from_parent',
               'xdoctest.doctest_example:DocTest.unique_callname',
               'xdoctest.doctest_example:DocTest.anything_ran',
               'xdoctest.doctest_example:DocTest._post_run',
               'xdoctest.doctest_example:DocTest.is_disabled',
               'xdoctest.doctest_example:DocTest._parse',
               'xdoctest.doctest_example:DocTest._pre_run',
               'xdoctest.doctest_example:DocTest._import_module',
               'xdoctest.doctest_example:DocTest._test_globals',
               'xdoctest.doctest_example:DocTest._color',
               'xdoctest.doctest_example:DocTest._print_captured',
               'xdoctest.doctest_example:DocTest.repr_failure',
               'xdoctest.doctest_example:DocTest.node',
               'xdoctest.doctest_example:DoctestConfig.getvalue',
               'xdoctest.directive:RuntimeState.__init__',
               'xdoctest.directive:RuntimeState.set_report_style',
               'xdoctest.directive:RuntimeState.update',
               'xdoctest.doctest_part:DoctestPart.directives',
               'xdoctest.doctest_part:DoctestPart.has_any_code',
               'xdoctest.doctest_part:DoctestPart.compilable_source',
               'xdoctest.utils.util_str:codeblock'],
 'clauses': {'P': ['one contract of run for both mode values and both on_error values: failed == (exc_info is not None), exactly one verdict; with '
                   'on_error="raise" an Exception escapes only on the recorded-failure paths; all parts skipped and mode == "pytest" raises Skipped',
                   'the output of an executed part is logged on EVERY outcome (so anything_ran() is true iff a part was executed), including '
                   'BaseException outcomes such as pytest.skip() raised by the doctest',
                   'is_disabled(pytest=...) per its regex contract (shared with C10)',
                   'XDoctestItem.runtest: skipped iff force-disabled (run never called) or run returned and nothing ran; any other exception '
                   'comes out of the single run(on_error="raise") call; a normal return means run was called exactly once, in raising mode, on '
                   "this item's doctest, and something ran",
                   '_run_examples (native side): one summary per gathered doctest, counted as failed / skipped / passed by its verdict flags '
                   '(shared with C10)',
                   'XDoctestModule.collect: exactly one item per doctest that parse_doctestables yields for the file, in order, named by '
                   'unique_callname (= callname:num), parsed once with the style / analysis options of the command line'],
             'B': ['generated modules whose doctests have outcomes known by construction (12 shapes: pass, quiet pass, wrong want, exception, expected exception only, all skipped, inline skipped, unmet REQUIRES, force-disabled, compile error, late failure, skip then pass) run by pytest --xdoctest in a sub-process and by the native runner: both report the constructed outcome per identifier (a force-disabled doctest: skipped under pytest, omitted natively) and signal failure exactly when a doctest failed (bounded/c15_agree.py)'],
             'T': ['compile / exec / eval / asyncio.run as oracles (pyvc/models_run.py): return a value or raise any class, write to the current '
                   'sys.stdout, may rebind sys.stdout, bind names in the dict they are given',
                   'CPython: an exception raised while running code compiled with filename F has a traceback entry of F',
                   'RuntimeState seen from outside: update/set_report_style/__getitem__ as assumed contracts over an abstract state (their own '
                   'proofs: C04)',
                   'DoctestPart.directives / has_any_code, DocTest._parse/_pre_run/_import_module/_test_globals/repr_failure: assumed contracts (see '
                   'evidence.assumed_contracts)',
                   'no --global-exec code is configured (DoctestConfig.global_exec is None)',
                   "pytest's mapping of exceptions to outcomes and exit status"],
             'N/A': ['process boundaries, -p / ini handling, XDoctestTextfile; that the native runner hands the same arguments to '
                     'parse_doctestables is read from runner.doctest_module (the parse statement is outside the verified regions)']},
 'explanation': 'C15 (partial): both front ends call the same run, whose contract is independent of the caller.'}
