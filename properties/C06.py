PROPERTY = {
    'id': 'C06',
    'contract_modules': ['checker'],
    'lemmas': ['placed_mono'],
    'functions': ['xdoctest.checker:_ellipsis_match'],
    'clauses': {
        'P': ['_ellipsis_match(got, want) == S.ellipsis_match(got, want) for all strings, any number of pieces '
              '(anchored ends, ordered non-overlapping middle pieces, no-ellipsis case is equality)',
              'lemma placed_mono (window monotonicity)'],
        'T': ['re.split: the pieces of a want are S.pieces(want) (uninterpreted; len >= 2 when "..." occurs)',
              'str.find / startswith / endswith builtin contracts'],
        'B': ['executable contract on the real function over token-built (got, want) pairs'],
    },
    'explanation': 'C06 is the postcondition result == S.ellipsis_match(got, want) of checker._ellipsis_match, '
                   'proved with one loop invariant (window bounds + placement equivalence) and the monotonicity lemma.',
    'trusted': ['re.split matching engine (the language of the split pattern is pinned literally in contracts/checker.py)'],
}
