PROPERTY = {
    'id': 'C06',
    'contract_modules': ['checker'],
    'lemmas': ['placed_mono'],
    'functions': ['xdoctest.checker:_ellipsis_match', 'xdoctest.checker:_check_match', 'xdoctest.checker:check_output#relation',
                  'xdoctest.checker:normalize', 'xdoctest.checker:normalize.norm_repr', 'xdoctest.utils.util_str:strip_ansi',
                  'xdoctest.checker:remove_blankline_marker'],
    'clauses': {
        'P': ['_ellipsis_match(got, want) == S.ellipsis_match(got, want) for all strings, any number of pieces '
              '(anchored ends, ordered non-overlapping middle pieces, no-ellipsis case is equality)',
              'lemma placed_mono (window monotonicity)',
              '_check_match / check_output (shared with C05): the wildcard relation is consulted only when ELLIPSIS is on; with ELLIPSIS off a want '
              'containing "..." is compared like any other text (no shortcut before the flags are read)'],
        'T': ['re.split: the pieces of a want are S.pieces(want) (uninterpreted; len >= 2 when "..." occurs)',
              'str.find / startswith / endswith builtin contracts'],
        'B': ['executable contract on the real function over token-built (got, want) pairs'],
    },
    'explanation': 'C06 is the postcondition result == S.ellipsis_match(got, want) of checker._ellipsis_match, '
                   'proved with one loop invariant (window bounds + placement equivalence) and the monotonicity lemma.',
    'trusted': ['re.split matching engine (the language of the split pattern is pinned literally in contracts/checker.py)'],
}
