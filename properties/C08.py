_Q = 'xdoctest.doctest_example:DocTest.'
PROPERTY = {
    'id': 'C08',
    'contract_modules': ['doctest_example', 'doctest_part', 'parser'],
    'functions': [_Q + 'failed_line_offset', _Q + 'failed_lineno',
                  'xdoctest.parser:DoctestParser._package_groups#offsets', 'xdoctest.parser:DoctestParser._package_chunk',
                  'xdoctest.core:parse_freeform_docstr_examples#offsets', 'xdoctest.parser:DoctestParser.parse#items',
                  'xdoctest.parser:DoctestParser.__init__', 'xdoctest.core:parse_freeform_docstr_examples.doctest_from_parts', 'xdoctest.doctest_example:DocTest.__init__', 'xdoctest.core:parse_freeform_docstr_examples.doctest_from_parts#call'],
    'clauses': {
        'P': ['failed_line_offset / failed_lineno: import failure -> the doctest line; got/want mismatch -> first line of the want '
              '(part offset + number of source lines); repr/await failure -> last source line; ordinary exception -> part offset + '
              'traceback line - 1; None iff nothing failed; for every exception class'],
        'T': ['tb_lineno / end_lineno produced by CPython'],
    },
    'explanation': 'C08: offset arithmetic of the three failure kinds.',
}
