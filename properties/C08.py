_Q = 'xdoctest.doctest_example:DocTest.'
PROPERTY = {
    'id': 'C08',
    'extra': ['bounded.c08_lines.run', 'bounded.c07_collect.run'],
    'contract_modules': ['doctest_example', 'util_stream', 'checker', 'doctest_part', 'runner', 'parser'],
    'functions': [_Q + 'failed_line_offset', _Q + 'failed_lineno', _Q + 'run',
                  _Q + '_post_run', _Q + '_pre_run', _Q + '_import_module', _Q + '_test_globals', _Q + '_color', _Q + '_print_captured',
                  _Q + 'repr_failure', _Q + 'node', 'xdoctest.doctest_example:DoctestConfig.getvalue',
                  'xdoctest.directive:RuntimeState.__init__', 'xdoctest.directive:RuntimeState.set_report_style',
                  'xdoctest.directive:RuntimeState.update', 'xdoctest.doctest_part:DoctestPart.directives',
                  'xdoctest.doctest_part:DoctestPart.has_any_code', 'xdoctest.doctest_part:DoctestPart.compilable_source',
                  'xdoctest.utils.util_str:codeblock',
                  'xdoctest.parser:DoctestParser._package_groups#offsets', 'xdoctest.parser:DoctestParser._package_chunk',
                  'xdoctest.core:parse_freeform_docstr_examples#offsets', 'xdoctest.parser:DoctestParser.parse#items',
                  'xdoctest.parser:DoctestParser.__init__', 'xdoctest.core:parse_freeform_docstr_examples.doctest_from_parts', 'xdoctest.doctest_example:DocTest.__init__', 'xdoctest.core:parse_google_docstr_examples#blocks',
                  'xdoctest.docstr.docscrape_google:split_google_docblocks', 'xdoctest.doctest_example:DocTest._parse', 'xdoctest.core:parse_freeform_docstr_examples.doctest_from_parts#call'],
    'clauses': {
        'P': ["DocTest.run: failed_tb_lineno is the line of the FIRST traceback entry of this doctest's pseudo file (tb_lineno of that "
              "entry), which failed_line_offset then adds to the part offset",
              'failed_line_offset / failed_lineno: import failure -> the doctest line; got/want mismatch -> first line of the want '
              '(part offset + number of source lines); repr/await failure -> last source line; ordinary exception -> part offset + '
              'traceback line - 1; None iff nothing failed; for every exception class',
              '_package_groups: the line counter handed to _package_chunk is the number of lines of all earlier chunks; slice_example: a '
              "part's line_offset is that counter plus the index of its first line in the chunk",
              'parse_freeform_docstr_examples (asone): the doctest of a docstring is created with line = lineno + the number of docstring '
              'lines (text lines, skipped special-block parts) before its first kept part; doctest_from_parts passes lineno + that '
              'offset to DocTest(..) and rebases every part so that parts[k].line_offset == old offset - old offset of the first part '
              '(quantified loop invariant over the mutable element field); DocTest.__init__ stores line, index and text',
              'parse_google_docstr_examples: a block labelled at offset o of the docstring becomes a doctest at line lineno + o + 1'],
        'B': ['generated modules (functions, classes, methods, decorators, docstrings opened with r / R / u prefixes): every collected doctest is placed on the file line that holds its first statement (bounded/c07_collect.py: the docstring start line found by static analysis)',
              'the real freeform / google parsers on random docstrings: every (doctest line + part offset) points at the docstring line that holds the first source line of that part, and failed_lineno() at the statement that raised -- a plain raise, a line inside a multi-line statement, the doctest line that calls a failing helper, the first line of a mismatching want (eval and single mode), a raise followed by a finally block (bounded/c08_lines.py)',
              'the same parsers on docstrings whose first line holds a character that str.splitlines() breaks at but a source file does not (form feed, vertical tab, FS/GS/RS, NEL, U+2028, U+2029 -- written as an escape they sit inside ONE file line): line numbers still point at their text (bounded/c08_lines.py; this entry found F14)'],
        'T': ['tb_lineno / end_lineno produced by CPython', 'parser._source_lines (re.split at \\n, \\r\\n, \\r): the lines as the source file has them -- assumed contract, exercised by the bounded line oracle',
              "split_google_docblocks' offsets and the docstring start line found by static analysis are assumed"],
    },
    'explanation': 'C08: offset arithmetic of the three failure kinds, and of the three places that assign line numbers while parsing.',
}
