_Q = 'xdoctest.doctest_example:DocTest.'
PROPERTY = {
    'id': 'C08',
    'contract_modules': ['doctest_example', 'doctest_part', 'parser'],
    'functions': [_Q + 'failed_line_offset', _Q + 'failed_lineno',
                  'xdoctest.parser:DoctestParser._package_groups#offsets', 'xdoctest.parser:DoctestParser._package_chunk',
                  'xdoctest.core:parse_freeform_docstr_examples#offsets', 'xdoctest.parser:DoctestParser.parse#items',
                  'xdoctest.parser:DoctestParser.__init__', 'xdoctest.core:parse_freeform_docstr_examples.doctest_from_parts', 'xdoctest.doctest_example:DocTest.__init__', 'xdoctest.core:parse_google_docstr_examples#blocks',
                  'xdoctest.docstr.docscrape_google:split_google_docblocks', 'xdoctest.doctest_example:DocTest._parse', 'xdoctest.core:parse_freeform_docstr_examples.doctest_from_parts#call'],
    'clauses': {
        'P': ['failed_line_offset / failed_lineno: import failure -> the doctest line; got/want mismatch -> first line of the want '
              '(part offset + number of source lines); repr/await failure -> last source line; ordinary exception -> part offset + '
              'traceback line - 1; None iff nothing failed; for every exception class',
              '_package_groups: the line counter handed to _package_chunk is the number of lines of all earlier chunks; slice_example: a '
              "part's line_offset is that counter plus the index of its first line in the chunk",
              'parse_freeform_docstr_examples (asone): the doctest of a docstring is created with line = lineno + the number of docstring '
              'lines (text lines, skipped special-block parts) before its first kept part; doctest_from_parts passes lineno + that '
              'offset to DocTest(..); DocTest.__init__ stores line, index and text',
              'parse_google_docstr_examples: a block labelled at offset o of the docstring becomes a doctest at line lineno + o + 1'],
        'T': ['tb_lineno / end_lineno produced by CPython',
              "the rebasing loop of doctest_from_parts (p.line_offset -= parts[0].line_offset) is dropped from the verified region (in-place "
              "mutation of list elements); split_google_docblocks' offsets and the docstring start line found by static analysis are assumed"],
    },
    'explanation': 'C08: offset arithmetic of the three failure kinds, and of the three places that assign line numbers while parsing.',
}
