PROPERTY = {'id': 'C09x', 'contract_modules': ['doctest_example', 'util_stream', 'checker', 'doctest_part'],
            'functions': ['xdoctest.doctest_example:DocTest.run']}
