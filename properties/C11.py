PROPERTY = {'id': 'C11',
 'extra': ['bounded.run_corpus.run', 'bounded.c11_fresh.run', 'bounded.c11_isolation.run'],
 'contract_modules': ['directive', 'doctest_example', 'util_stream', 'checker', 'doctest_part', 'runner'],
 'functions': ['xdoctest.directive:RuntimeState.__init__#concrete', 'xdoctest.directive:RuntimeState.update#concrete', 'xdoctest.directive:RuntimeState.set_report_style#concrete', 'xdoctest.directive:Directive.effects', 'xdoctest.directive:_is_requires_satisfied', 'xdoctest.doctest_example:DocTest.run', 'xdoctest.utils.util_stream:CaptureStdout.__init__', 'xdoctest.utils.util_stream:CaptureStdout.start', 'xdoctest.utils.util_stream:CaptureStdout.stop', 'xdoctest.utils.util_stream:CaptureStdout.__enter__', 'xdoctest.utils.util_stream:CaptureStdout.__exit__', 'xdoctest.utils.util_stream:CaptureStdout.log_part', 'xdoctest.utils.util_stream:TeeStringIO.__init__',
               'xdoctest.doctest_example:DocTest._post_run',
               'xdoctest.doctest_example:DocTest._parse',
               'xdoctest.doctest_example:DocTest._pre_run',
               'xdoctest.doctest_example:DocTest._import_module',
               'xdoctest.doctest_example:DocTest._test_globals',
               'xdoctest.doctest_example:DocTest._color',
               'xdoctest.doctest_example:DocTest._print_captured',
               'xdoctest.doctest_example:DocTest.repr_failure',
               'xdoctest.doctest_example:DocTest.node',
               'xdoctest.doctest_example:DoctestConfig.getvalue',
               'xdoctest.directive:RuntimeState.__init__',
               'xdoctest.directive:RuntimeState.set_report_style',
               'xdoctest.directive:RuntimeState.update',
               'xdoctest.doctest_part:DoctestPart.directives',
               'xdoctest.doctest_part:DoctestPart.has_any_code',
               'xdoctest.doctest_part:DoctestPart.compilable_source',
               'xdoctest.utils.util_str:codeblock'],
 'clauses': {'P': ['reset: at the first loop iteration the invariants "no entry of logged_stdout", "unmatched output empty", "no skipped part", "no '
                   'recorded failure" hold whatever the object held before the call (inv-init obligations): nothing survives from an earlier run',
                   'the dict handed to exec is self.global_namespace, not the module dict; it is cleared on every normally returning path that '
                   'executed something (post namespace-cleared)',
                   'a fresh RuntimeState is constructed per run (constructor call inside run); RuntimeState.__init__ shares no mutable object '
                  'with DEFAULT_RUNTIME_STATE or with config["default_runtime_state"] (post own-set / own-dict / defaults-untouched), and update() '
                  'only writes the two dicts of its own object (frame), so directive state cannot leak into the next run',
                  'a doctest that replaces sys.stdout cannot affect the next one: CaptureStdout.stop/__exit__ put back the stream that was current '
                  'when the capture object was built, unconditionally, and run ends with sys.stdout identical to its entry value'],
             'B': ['doctests of one scratch module that bind clashing names, read names others bind, rebind a module global, leave SKIP / an unmet REQUIRES on, replace sys.stdout, change the warning filters: every sequence (with repetition) of 2 (thorough 3) of 11, sharing one config dict with non-empty default options, on the real DocTest.run -- outcome and captured output of each equal its solo run; the same doctest object run three times in a row behaves the same (bounded/c11_isolation.py)',
                   'the real parser and DocTest.run on every sequence of 1..2 (thorough 3) statement templates plus random longer ones, each run twice, against an oracle written from the property statements: executed statements and their order, verdict, recorded exception and failing part, logged output, renderable report, stdout restored, second run identical, module global untouched (bounded/run_corpus.py)',
                   'the real RuntimeState on a few default dicts x directive sequences: no aliasing of the module-level defaults or of the dict handed in, no write to either (guards the proof against rewrites of __init__ the engine cannot follow)'],
        'T': ['compile / exec / eval / asyncio.run as oracles (pyvc/models_run.py): return a value or raise any class, write to the current '
                   'sys.stdout, may rebind sys.stdout, bind names in the dict they are given',
                   'CPython: an exception raised while running code compiled with filename F has a traceback entry of F',
                   'RuntimeState seen from outside: update/set_report_style/__getitem__ as assumed contracts over an abstract state (their own '
                   'proofs: C04)',
                   'DoctestPart.directives / has_any_code, DocTest._parse/_pre_run/_import_module/_test_globals/repr_failure: assumed contracts (see '
                   'evidence.assumed_contracts)',
                   'no --global-exec code is configured (DoctestConfig.global_exec is None)',
                   
                   '_test_globals copies module entries INTO the namespace'],
             'N/A': ['the history lemma itself (for all sequences of runs) is a paper argument over these per-call frames']},
 'explanation': 'C11 reduced to per-call facts of DocTest.run: everything the loop reads is re-initialised before the loop.'}
