PROPERTY = {
    'id': 'C03',
 'extra': ['bounded.run_corpus.run', 'bounded.c03_shape.run'],
    'contract_modules': ['doctest_example', 'util_stream', 'checker', 'doctest_part', 'runner'],
    'functions': ['xdoctest.doctest_example:DocTest.run',
                  'xdoctest.checker:_strip_exception_details',
                  'xdoctest.checker:check_exception',
                  'xdoctest.checker:extract_exc_want',
                  'xdoctest.checker:check_output', 'xdoctest.checker:check_output#relation'],
    'clauses': {
        'P': ['_strip_exception_details(msg) == S.exc_name(msg): first line only, up to the first colon, after the last dot',
              'check_exception: want without traceback shape => the live exception is re-raised, never a normal return; '
              'otherwise returns True iff S.exc_match (final line matches, or IGNORE_EXCEPTION_DETAIL and the names match), '
              'else raises GotWantException',
              'run: an Exception raised by a part without a want is recorded (exc_info[1] IS that exception) and ends the loop; with a want '
              'check_exception is consulted exactly once with the LAST line of format_exception_only of that exception and the part\'s want; '
              'after an expected exception the loop goes on with the next part'],
        'B': ['extract_exc_want (the _EXCEPTION_RE regular expression) against the independent procedural definition of a traceback block on every want of up to 4 (thorough 5) lines from 12 line shapes x 2 indentations (bounded/c03_shape.py)',
              'the real parser and DocTest.run on every sequence of 1..2 (thorough 3) statement templates plus random longer ones, each run twice, against an oracle written from the property statements: executed statements and their order, verdict, recorded exception and failing part, logged output, renderable report, stdout restored, second run identical, module global untouched (bounded/run_corpus.py)'],
             'T': ['extract_exc_want / _EXCEPTION_RE (assumed contract in the proofs; regex outside the decidable fragment; cross-checked by the bounded stand-in)',
              'check_output as the relation S.match (its own contract is C05); check_output#relation (the real function against the documented relation: it consults nothing but got, want and the leniency flags) is discharged here too, its callees normalize / _check_match through their contracts (discharged under C05)',
              'traceback.format_exception_only'],
    },
    'explanation': 'C03 at the checker level: exact characterisation of check_exception (re-raise / match / mismatch) '
                   'and full functional correctness of the detail stripping.',
}
