_S = 'xdoctest.utils.util_import:_syspath_modname_to_modpath.'
_P = 'xdoctest.utils.util_import:PythonPathContext.'
PROPERTY = {
    'id': 'C17',
    'extra': ['bounded.c17_resolve.run'],
    'contract_modules': ['util_import'],
    'functions': ['xdoctest.utils.util_import:normalize_modpath', 'xdoctest.utils.util_import:split_modpath',
                  _S + '_isvalid', _S + 'check_dpath', 'xdoctest.utils.util_import:_syspath_modname_to_modpath#search',
                  _P + '__init__', _P + '__enter__', _P + '__exit__', 'xdoctest.utils.util_import:_custom_import_modpath',
                  'xdoctest.utils.util_import:modpath_to_modname', 'xdoctest.utils.util_import:import_module_from_name'],
    'clauses': {
        'P': ['_syspath_modname_to_modpath, search loop (region; editable-install / egg-link fallbacks dropped): the entries of the search path are tried in order, the first entry for which check_dpath has a match decides, None exactly when no entry has one',
              'check_dpath (one search-path entry): the package directory wins iff it exists, holds __init__.py and every directory between it '
              'and the entry holds __init__.py; otherwise the FIRST candidate file name, in order, that is a file with an unbroken __init__ '
              'chain; otherwise nothing (existential / universal clauses over the candidate list, loop invariant "earlier candidates fail")',
              '_isvalid == the recursive __init__-chain rule (loop invariant; terminates)',
              'normalize_modpath: a path whose LAST COMPONENT is __init__.py / __main__.py (not merely a suffix of the name) is normalised as documented',
              'split_modpath: the directory it returns holds no __init__.py (it is the search-path directory); only ValueError, only under check',
              'importing by path leaves sys.path unchanged on success and on failure (PythonPathContext / _custom_import_modpath, shared with C12)'],
        'B': ['the real modname_to_modpath / modpath_to_modname / split_modpath on scratch trees (subsets of 14 optional entries: packages, modules, directories without __init__.py, same-named directory/module and package/module pairs, __main__.py, underscore and *__init__.py names) x 351 dotted names, present or absent, against the INTERPRETER\'s path finder (importlib.machinery.PathFinder); round trip and split of every found path; sys.path unchanged; every second tree REPLACES the previous one at the same location (a resolver that remembers what it saw there answers for the wrong tree); split_modpath / modpath_to_modname of every module file of every tree against the answer known from the construction of the tree (search directory = nearest ancestor without __init__.py) (bounded/c17_resolve.py)'],
        'T': ['os.path.exists/isfile/isdir as uninterpreted predicates, join/dirname/basename as uninterpreted functions (abstract file system)',
              'termination assumption: a directory that holds an __init__.py is not its own parent (S.path_depth)'],
        'N/A': ['"the file the interpreter itself would import": the oracle is importlib\'s finder protocol (path hooks, namespace packages, '
                'caches); the proved part fixes xdoctest\'s own documented rule for regular packages',
                'the outer loop of _syspath_modname_to_modpath over sys.path with its .egg-link / __editable__ branches, modname_to_modpath, '
                'modpath_to_modname are not under contract'],
    },
    'explanation': 'C17 (partial): the per-directory resolution rule, the __init__ chain and the path normalisation are proved over an abstract file system.',
}
