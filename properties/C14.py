PROPERTY = {
    'id': 'C14',
 'extra': ['bounded.c14_contain.run'],
    'contract_modules': ['doctest_example', 'parser'],
    'functions': ['xdoctest.parser:DoctestParser.parse', 'xdoctest.parser:_min_indentation',
                  'xdoctest.parser:DoctestParser._label_docsrc_lines', 'xdoctest.parser:DoctestParser._group_labeled_lines',
                  'xdoctest.parser:DoctestParser._package_groups',
                  'xdoctest.core:parse_docstr_examples', 'xdoctest.core:parse_freeform_docstr_examples',
                  'xdoctest.core:parse_google_docstr_examples', 'xdoctest.core:parse_auto_docstr_examples',
                  'xdoctest.utils.util_str:ensure_unicode'],
    'clauses': {
        'P': ['DoctestParser.parse(str): whatever the three phases raise (any Exception class from labelling, grouping or packaging), the '
              'only exception that leaves parse is DoctestParseError; the handler itself cannot fail (failpoint is bound on every path); the '
              'three phases run once each, in order; the labeller and the indentation measure get TAB-EXPANDED text (preconditions derived '
              'from their call site, which also serves C01.tabs / C13.dedent)',
              'core.parse_docstr_examples: a DoctestParseError or MalformedDocstr of the style parser produces exactly one warning and no '
              'exception; every other path emits no warning; building the message cannot raise (str.format is applied to literal templates '
              'only -- a template containing docstring text may raise and is reported); KeyError iff the style is unknown; each parsed example is yielded once',
              'util_str.ensure_unicode (applied to the docstring before it is parsed): a str is returned unchanged'],
        'T': ['the three phases and the three style parsers are assumed contracts here ("may raise anything" / "raise only the library\'s own errors")',
              'termination of tokenize / ast.parse / re'],
        'B': ['texts generated from a grammar of prompt fragments, brackets, quotes, backslashes, directive fragments, control characters and keywords: parse(text) returns or raises DoctestParseError within a time limit; embedded as one docstring between two valid ones x 3 styles, collection raises nothing, the neighbours are collected and pass, and (freeform) a docstring that does not parse gives a warning and no example (bounded/c14_contain.py)',
              ],
        'N/A': ['"never hangs": termination obligations of balanced_intervals and _complete_source are not generated yet'],
    },
    'explanation': 'C14 as raises= clauses: one obligation per (call site x exception class) for parse and for the per-docstring downgrade.',
}
