_V = 'xdoctest.static_analysis:TopLevelVisitor.'
PROPERTY = {
    'id': 'C07',
    'contract_modules': ['util_import', 'static_analysis', 'parser', 'collect'],
    'functions': [_V + 'visit_FunctionDef', _V + 'visit_ClassDef', _V + 'visit_If', 'ast:NodeVisitor.generic_visit', _V + '_get_docstring',
                  _V + '_workaround_func_lineno', 'xdoctest.static_analysis:CallDefNode.__init__',
                  'xdoctest.static_analysis:package_modpaths', 'xdoctest.utils.util_import:_platform_pylib_exts',
                  'xdoctest.core:parse_google_docstr_examples#blocks', 'xdoctest.core:parse_auto_docstr_examples#dispatch',
                  'xdoctest.core:parse_freeform_docstr_examples#offsets', 'xdoctest.docstr.docscrape_google:split_google_docblocks',
                  'xdoctest.core:parse_google_docstr_examples', 'xdoctest.core:parse_freeform_docstr_examples',
                  'xdoctest.core:parse_doctestables#glue', 'xdoctest.core:package_calldefs', 'xdoctest.core:package_calldefs#glue',
                  'xdoctest.core:_rectify_to_modpath', 'xdoctest.static_analysis:package_modpaths#list', 'xdoctest.core:parse_calldefs',
                  'xdoctest.utils.util_import:modpath_to_modname#name', 'xdoctest.core:parse_docstr_examples#list'],
    'extra': ['bounded.c07_dispatch.run', 'bounded.c07_tree.run', 'bounded.c07_collect.run'],
    'clauses': {
        'P': ['package_calldefs (for a package given by name or path): every module path of the package, in order, is analysed exactly once -- unless its name matches an exclude pattern or the file is missing -- and its definitions are yielded with that path',
              'parse_doctestables (collection glue): for every module and every collected definition, in order, a docstring is parsed exactly once with the definition\'s own name, docstring line, module path and the requested style, and every doctest found is yielded',
              'google style: exactly the blocks labelled Example / Doctest / Script / Benchmark become doctests, in order, numbered 0, 1, ..; '
              'freeform (asone): at most one doctest per docstring, exactly when some part is kept; auto: the google blocks when there are any, else freeform',
              'visit_FunctionDef (also the handler of async functions): records exactly one entry, under name or Class.name, unless a decorator '
              'is an attribute named setter / deleter (then nothing); it never descends into the body, so nested functions and classes are not reached',
              'visit_ClassDef: a class met outside a class is recorded under its name and its body is visited exactly once with the class as '
              'context, which is restored afterwards; a class met inside a class records nothing and is not entered',
              'visit_If: the body is skipped iff the test is the comparison __name__ == "__main__" (operator Eq, not any comparison of '
              '__name__ with "__main__"); every other if is entered exactly once',
              'package_modpaths: in a directory without __init__.py (once checking is on) nothing is yielded and the walk below it is pruned; '
              'inside the package every subdirectory is checked'],
        'B': ['the real parse_doctestables (static analysis) on generated modules whose collectable definitions are known by construction (functions, async functions, classes, plain/static/class methods, property getters and setters, decorated definitions, nested functions and classes, definitions under an ordinary if and under the __main__ guard) x 3 styles: exactly the expected identifiers, each once (bounded/c07_collect.py)',
              'the real package_modpaths on scratch trees: every assignment of {sub-package, plain directory, module} to the entries of a package root: exactly the reachable modules and __init__ files, each once (bounded/c07_tree.py)',
              'handler dispatch: async functions are handled by the function handler (exact structural check of the class)'],
        'T': ['ast.NodeVisitor.generic_visit visits every child once in order', 'os.walk honours in-place pruning',
              '_get_docstring / _workaround_func_lineno (line numbers: C08)'],
        'N/A': ['that the names found statically are the callables that exist after import (C16); google block splitting; the refinement of '
                'the whole recursive visit against one inventory function over an AST datatype (planned in section 6, not built: the handlers '
                'are proved one by one against the clauses of the statement instead)'],
    },
    'explanation': 'C07: each handler of the collector is proved against the corresponding clause of the statement, with stores and descents as ghost events.',
}
