_P = 'xdoctest.parser:DoctestParser.'
PROPERTY = {
    'id': 'C13',
    'extra': ['bounded.c08_lines.run', 'bounded.c13_groups.run'],
    'contract_modules': ['doctest_example', 'doctest_part', 'parser', 'collect'],
    'functions': [_P + '_label_docsrc_lines#labels', 'xdoctest.parser:_complete_source', 'xdoctest.parser:_complete_source#steps', 'xdoctest.static_analysis:is_balanced_statement',
                  _P + '_package_groups#offsets', _P + '_package_chunk',
                  _P + 'parse', 'xdoctest.parser:_min_indentation', _P + '_label_docsrc_lines', _P + '_group_labeled_lines',
                  _P + '_package_groups'],
    'clauses': {
        'P': ['_complete_source, step by step: it yields the line it is given, then -- while the statement is not balanced -- takes exactly one further line from the shared iterator per step and yields it (with its indentation removed; an unprefixed continuation of a triple-quoted string gets a "... " prefix); terminates (the iterator only moves forward)',
              '_label_docsrc_lines: every line of the (tab-free) docstring gets exactly ONE label -- the number of labelled lines equals the '
              'number of lines consumed from the shared line iterator at every loop head and equals the number of lines at the end -- and the '
              'line stored with the first label of an iteration is the line itself, unmodified',
              'the label of each line taken by the main loop is S.next_label(previous label, line, indentation of the open example), written '
              'from the statement: text -> source at a primary prompt; after source: blank / de-indented -> text, prompted -> source '
              '(continuation if "..."-prefixed; a bare "..." is want after a primary-prompt line and continuation after a continuation), else '
              'want; in a want: blank -> text, primary prompt -> source even if de-indented, de-indented -> text, else want',
              'lines swallowed by statement completion get source labels (continuation from the first "..."-prefixed one on)',
              '_package_groups: the line number handed to each chunk is the number of lines of all earlier chunks (part offsets are true line indices); '
              'text chunks are yielded as their joined lines and never packaged as code',
              'parse: tabs are expanded before the indentation is measured and before labelling (preconditions of the callees)'],
        'B': ['the real parser on random docstrings whose lines are text / source / want BY CONSTRUCTION (prose, google labels, nested indentation 0/4/8, PS1 and PS2 continuations, bare ... terminators, multi-line wants, a want followed directly by a prompt, tabs): the parts laid end to end reproduce the tab-expanded, commonly de-indented docstring line for line (blank lines at the very end are not compared), every line has the label it was built with, every part records the index of its first line; and every (doctest line + part offset) points at the docstring line that holds the first source line of that part (bounded/c08_lines.py)',
              'the same partition check on docstrings whose first line holds a character str.splitlines() breaks at but a source file does not (form feed, vertical tab, FS/GS/RS, NEL, U+2028/9): the parts give back every source-file line once, unchanged (before fix F14 the de-indentation step turned such a character into a real line break)',
              'the real _group_labeled_lines on EVERY label sequence of up to 9 (thorough 12) lines the labeller can produce, distinct line strings, against the statement: the groups laid end to end are the labelled lines once each and in order, text groups hold only text lines, an example group is (non-empty source lines only, empty or want lines only), no source group starts with a continuation line, a run of want lines is the want of exactly one group, nothing is raised (bounded/c13_groups.py)'],
        'T': ['_complete_source (generator driving the tokenizer-based balance check): yields the line and one pair per further line it consumes',
              '_package_chunk (ast-based slicing)', 're.search spans of INDENT_RE (leading spaces of a non-blank line)'],
        'N/A': ['_group_labeled_lines (three passes over lists of (label, line) pairs and nested groups) is not under contract: that the grouping '
                'is an order-preserving partition is decided only up to the bound of the stand-in above, not proved; the HACK_TRIPLE_QUOTE_FIX branch of _complete_source rewrites a swallowed line '
                '(noted in section 7 as F10; it lies inside the assumed contract)'],
    },
    'explanation': 'C13 (partial): the labelling state machine equals the documented transition rule and labels every line once; offsets are sums of chunk sizes.',
}
