PROPERTY = {'id': 'C13', 'contract_modules': ['doctest_example', 'doctest_part', 'parser'],
            'functions': ['xdoctest.parser:DoctestParser._package_groups#offsets', 'xdoctest.parser:DoctestParser._package_chunk'],
            'clauses': {'P': [], 'T': []}, 'explanation': 'C13 (under construction)'}
