PROPERTY = {'id': 'C13', 'contract_modules': ['doctest_example', 'doctest_part', 'parser'],
            'functions': ['xdoctest.parser:DoctestParser._package_groups#offsets', 'xdoctest.parser:DoctestParser._package_chunk',
                          'xdoctest.parser:DoctestParser._label_docsrc_lines#labels', 'xdoctest.parser:_complete_source'],
            'clauses': {'P': [], 'T': []}, 'explanation': 'C13 (under construction)'}
