PROPERTY = {'id': 'C02x', 'contract_modules': ['doctest_example'],
            'functions': ['xdoctest.doctest_example:DocTest._post_run', 'xdoctest.doctest_part:DoctestPart.compilable_source',
                          'xdoctest.doctest_example:DocTest._color', 'xdoctest.doctest_example:DocTest._print_captured',
                          'xdoctest.doctest_example:DocTest.repr_failure', 'xdoctest.doctest_example:DocTest.node']}
