PROPERTY = {
    'id': 'C02',
 'extra': ['bounded.run_corpus.run', 'bounded.c02_wants.run'],
    'contract_modules': ['doctest_example', 'util_stream', 'checker', 'doctest_part', 'runner'],
    'functions': ['xdoctest.doctest_example:DocTest.run', 'xdoctest.doctest_example:DocTest._post_run', 'xdoctest.doctest_example:DocTest.anything_ran',
                  'xdoctest.checker:check_got_vs_want',
                  'xdoctest.doctest_part:DoctestPart.check',
                  'xdoctest.checker:check_output', 'xdoctest.checker:check_output#relation'],
    'clauses': {
        'P': ['check_got_vs_want returns iff S.V(want, stdout, value): stdout if nothing evaluated, repr(value) if nothing '
              'printed, either one otherwise; repr (not str) of the value; raising repr => ExtractGotReprException',
              'DoctestPart.check succeeds iff some trailing sequence of the unmatched outputs (joined) satisfies S.V; '
              'otherwise GotWantException',
              'run: the unmatched outputs are exactly the outputs of the want-less executed parts since the last executed part with a want '
              '(reset to [] after every executed part with a want, IGNORE_WANT or not; appended otherwise; untouched by skipped parts and by '
              'expected exceptions); check is called once with this part, its own output and that list; a GotWantException sets exc_info and '
              'leaves the loop (invariant: no failure yet at the loop head)',
              '_post_run / run: failed == (exc_info is not None), skipped == (every part skipped), passed == neither; exactly one of the three'],
        'B': ['doctests built from statements with outputs known by construction: every placement of wants x every correct want form (all output since the previous want / output of the final expression statement / repr of its value) passes; every single corruption of one want (replaced, line appended, line prepended, last line dropped) fails with a got/want error at exactly that want, all statements before it executed, none after (bounded/c02_wants.py)',
                   'the real parser and DocTest.run on every sequence of 1..2 (thorough 3) statement templates plus random longer ones, each run twice, against an oracle written from the property statements: executed statements and their order, verdict, recorded exception and failing part, logged output, renderable report, stdout restored, second run identical, module global untouched (bounded/run_corpus.py)'],
             'T': ['check_output as the relation S.match (C05); check_output#relation (the real function against the documented relation: it consults nothing but got, want and the leniency flags) is discharged here too, its callees normalize / _check_match through their contracts (discharged under C05)', 'repr as an oracle'],
    },
    'explanation': 'C02 at the checker/part level: exact (iff) characterisations, one loop invariant for the suffix search.',
}
