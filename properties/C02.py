PROPERTY = {
    'id': 'C02',
    'contract_modules': ['checker', 'doctest_part'],
    'functions': ['xdoctest.checker:check_got_vs_want',
                  'xdoctest.doctest_part:DoctestPart.check',
                  'xdoctest.checker:check_output'],
    'clauses': {
        'P': ['check_got_vs_want returns iff S.V(want, stdout, value): stdout if nothing evaluated, repr(value) if nothing '
              'printed, either one otherwise; repr (not str) of the value; raising repr => ExtractGotReprException',
              'DoctestPart.check succeeds iff some trailing sequence of the unmatched outputs (joined) satisfies S.V; '
              'otherwise GotWantException'],
        'T': ['check_output as the relation S.match (C05)', 'repr as an oracle'],
    },
    'explanation': 'C02 at the checker/part level: exact (iff) characterisations, one loop invariant for the suffix search.',
}
