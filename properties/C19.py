PROPERTY = {
    'id': 'C19',
    'uses': {'xdoctest.doctest_example:DocTest.run': 'C09'},
    'contract_modules': ['doctest_example', 'doctest_part', 'runner'],
    'functions': ['xdoctest.runner:_convert_to_test_module', 'xdoctest.runner:undefined_names',
                  'xdoctest.doctest_part:DoctestPart.format_part', 'xdoctest.utils.util_str:indent',
                  'xdoctest.doctest_example:DocTest.node', 'xdoctest.doctest_example:DocTest.is_disabled',
                  'xdoctest.runner:doctest_module#gather', 'xdoctest.runner:doctest_module', 'xdoctest.doctest_example:DocTest.cmdline'],
    'extra': ['bounded.c19_dump.run'],
    'clauses': {
        'P': ['doctest_module (gather region): dump gathers every doctest that is not force-disabled (is_disabled: first-line marker only) and runs nothing',
              '_convert_to_test_module: exactly one function text per enabled example, in order (loop invariant len(module_lines) == i); '
              'per part, in order: the source lines that remain are exactly the original ones minus the lines containing " import *" '
              '(loop invariant over a recursive filter spec), they are formatted without prompts and without wants, and -- iff the part has a '
              'want -- followed by "# doctest want:" and every want line prefixed "# " (indent = prefix + replace of newlines, proved)',
              'DoctestPart.format_part without prompts: the joined source lines'],
        'B': ['generated modules through the real parser: the dumped text compiles, has exactly one test function per enabled doctest, and every dumped function writes exactly what its doctest writes as a plain program (bounded/c19_dump.py, end to end)',
              'the real function on small generated doctests against an executable statement of the same clauses (bounded; guards the '
              'proof against refactorings the invariants do not survive, e.g. removal while iterating)'],
        'T': ['undefined_names (pyflakes)', 'DocTest.node text'],
        'N/A': ['"syntactically valid Python": needs the grammar (re-indenting a body that contains a multi-line string changes the string); '
                'uniqueness of the generated function names is not demanded by the statement',
                'which doctests are "enabled" is the gather rule of C10 (is_disabled: first-line markers only)'],
    },
    'explanation': 'C19 as loop invariants of the dump conversion: nothing but star imports is removed and nothing is reordered.',
}
