PROPERTY = {
    'id': 'C18',
    'extra': ['bounded.c08_lines.run', 'bounded.c01_chunks.run', 'bounded.c18_roundtrip.run'],
    'contract_modules': ['doctest_example', 'util_stream', 'checker', 'doctest_part', 'runner', 'parser'],
    'functions': ['xdoctest.doctest_part:DoctestPart.format_part', 'xdoctest.doctest_part:DoctestPart.format_part#numbered', 'xdoctest.doctest_example:DocTest.format_parts',
                  'xdoctest.doctest_part:DoctestPart.format_part#any', 'xdoctest.doctest_example:DoctestConfig.getvalue#display', 'xdoctest.doctest_example:DocTest._parse', 'xdoctest.utils.util_str:indent',
                  'xdoctest.utils.util_str:add_line_numbers', 'xdoctest.utils.util_str:highlight_code',
                  'xdoctest.parser:DoctestParser._package_groups#offsets', 'xdoctest.parser:DoctestParser._package_chunk',
                  'xdoctest.parser:DoctestParser._package_chunk#slices', 'xdoctest.parser:DoctestParser._package_chunk.slice_example',
                  'xdoctest.parser:DoctestParser._locate_ps1_linenos', 'xdoctest.directive:Directive.extract'],
    'clauses': {
        'P': ['numbered display (DoctestPart.format_part with linenos): source line k of a part is shown as the number startline + line_offset + k, a blank and the line; want lines are indented by the number column and carry no number; add_line_numbers: line k gets start + k',
              'DocTest.format_parts: every part is formatted exactly once, in order, with the same options and the same first number: 1 or (offset_linenos) the line of the doctest in its file',
              'DoctestPart.format_part with prompts, without colours, line numbers or part numbers: the text is exactly the part\'s original '
              'prompt lines in order, followed -- iff want=True and the part has a want -- by its want lines in order, joined by newlines: '
              'every source and want line once, nothing added, dropped, trimmed or reordered (loop invariant over the want lines)',
              'the line offsets the numbered display adds to (part.line_offset) are the true indices of the parts: _package_groups offset invariant',
              '_package_chunk: the parts are forward slices of the chunk that partition it (shared with C01): the statement before the want is only split off when that leaves a non-empty part before it'],
        'B': ['generated doctests (PS1/PS2 continuations, bare ... terminators, multi-line wants, trailing blanks, directives, decorators): format_src shows every source and want line once in order; re-parsing the displayed text gives the same executable lines, wants and compile modes; with line numbers every numbered line carries its position, doctest-relative and file-relative, wants on and off (bounded/c18_roundtrip.py)',
              'the real chunk packaging on all short statement sequences: partition, no empty part (a spurious blank line in the display), offsets (bounded/c01_chunks.py)',
              'the real freeform / google parsers on random docstrings: every (doctest line + part offset) points at the docstring line that holds the first source line of that part, and failed_lineno() at the statement that raised (bounded/c08_lines.py)'],
        'T': ["law of the builtins: '\\n'.join(xs).splitlines() == xs for plain lines (no embedded line boundary, last line not empty); "
              "join distributes over list concatenation"],
        'N/A': ['"parsing that text again yields the same doctest": a round trip through the tokenizer / ast based parser',
                'the numbered variants (linenos, offset_linenos) and DocTest.format_parts / format_src (a generator over the parts that '
                'forwards its flags to format_part) are not under contract yet; the offsets they display are C08 / C13 material'],
    },
    'explanation': 'C18 (partial): the per-part display function is proved to reproduce source and want lines exactly.',
}
