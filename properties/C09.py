PROPERTY = {'id': 'C09',
 'extra': ['bounded.run_corpus.run'],
 'contract_modules': ['doctest_example', 'util_stream', 'checker', 'doctest_part', 'runner'],
 'functions': ['xdoctest.doctest_example:DocTest.run',
               'xdoctest.doctest_example:DocTest.failed_line_offset',
               'xdoctest.doctest_example:DocTest.failed_lineno',
               'xdoctest.runner:_run_examples',
               'xdoctest.doctest_example:DocTest._post_run', 'xdoctest.doctest_example:DocTest.anything_ran',
               'xdoctest.doctest_example:DocTest._parse',
               'xdoctest.doctest_example:DocTest._pre_run',
               'xdoctest.doctest_example:DocTest._import_module',
               'xdoctest.doctest_example:DocTest._test_globals',
               'xdoctest.doctest_example:DocTest._color',
               'xdoctest.doctest_example:DocTest._print_captured',
               'xdoctest.doctest_example:DocTest.repr_failure',
               'xdoctest.doctest_example:DocTest.repr_failure._alter_traceback_linenos',
               'xdoctest.doctest_example:DocTest.repr_failure#whole',
               'xdoctest.doctest_example:DocTest.format_parts#list',
               'xdoctest.checker:GotWantException.output_difference', 'xdoctest.checker:GotWantException.output_repr_difference',
               'xdoctest.doctest_example:DocTest.cmdline',
               'xdoctest.doctest_example:DocTest.node',
               'xdoctest.doctest_example:DoctestConfig.getvalue',
               'xdoctest.directive:RuntimeState.__init__',
               'xdoctest.directive:RuntimeState.set_report_style',
               'xdoctest.directive:RuntimeState.update',
               'xdoctest.doctest_part:DoctestPart.directives',
               'xdoctest.doctest_part:DoctestPart.has_any_code',
               'xdoctest.doctest_part:DoctestPart.compilable_source',
               'xdoctest.utils.util_str:codeblock'],
 'clauses': {'P': ['run(on_error="return") lets no exception of class Exception escape, for every outcome of every external call: runstate.update '
                   'raising anything, the pre-import raising, compile raising, exec/eval/asyncio.run raising any class, repr raising, check raising '
                   '(one raises: obligation per escaping path; KeyboardInterrupt/SystemExit/Skipped pass through)',
                   'whenever one of these went wrong the failure is recorded: exc_info set (with the original exception for code that raised), '
                   'failed_part is the failing part (or <IMPORT>), summary failed == (exc_info is not None) (body_always clauses + _post_run)',
                   "failed_tb_lineno is the line of the FIRST traceback entry of this doctest's pseudo file (existential clause proved from the "
                   'invariant of the traceback scan); the "could not clean traceback" ValueError is unreachable',
                   'failed_line_offset / failed_lineno arithmetic (shared with C08)',
                   "_run_examples: given run's contract the loop body cannot leave by an Exception, so every gathered doctest is run and summarised",
                   'repr_failure (whole function, minus the loop that sorts formatted parts into passed / failed / remaining): raises nothing for a '
                   'doctest of a known front end whose failure was recorded by run; empty iff nothing failed; its first line names the '
                   'exception type; repr_failure._alter_traceback_linenos: the traceback rewriting cannot raise (the quoted source line is '
                   'only indexed inside the failing part)'],
             'B': ['the real parser and DocTest.run on every sequence of 1..2 (thorough 3) statement templates plus random longer ones, each run twice, against an oracle written from the property statements: executed statements and their order, verdict, recorded exception and failing part, logged output, renderable report, stdout restored, second run identical, module global untouched (bounded/run_corpus.py)'],
             'T': ['compile / exec / eval / asyncio.run as oracles (pyvc/models_run.py): return a value or raise any class, write to the current '
                   'sys.stdout, may rebind sys.stdout, bind names in the dict they are given',
                   'CPython: an exception raised while running code compiled with filename F has a traceback entry of F',
                   'RuntimeState seen from outside: update/set_report_style/__getitem__ as assumed contracts over an abstract state (their own '
                   'proofs: C04)',
                   'DoctestPart.directives / has_any_code, DocTest._parse/_pre_run/_import_module/_test_globals/repr_failure: assumed contracts (see '
                   'evidence.assumed_contracts)',
                   'no --global-exec code is configured (DoctestConfig.global_exec is None)',
                   'repr_failure as seen from run / _post_run: assumed contract; its own contract is the P clause above (region without the '
                   'part-breakdown loop); assumed at the call of traceback.format_exception: a line that contains the pseudo file name '
                   'is a location line, and an import failure has no frame in the pseudo file; format_parts does not raise on a doctest '
                   'that is already parsed; output_difference / output_repr_difference (difflib text) do not raise'],
             'N/A': ['what pytest prints for an INTERNALERROR; difflib text']},
 'explanation': 'C09 as the raises= clause of DocTest.run plus per-iteration failure-recording clauses, over every exception class the oracles can '
                'produce.'}
