_Q = 'xdoctest.directive:RuntimeState.'
PROPERTY = {
    'id': 'C04',
    'contract_modules': ['directive'],
    'functions': [_Q + '__init__#concrete', _Q + '__getitem__', _Q + '__setitem__', _Q + 'update#concrete', _Q + 'set_report_style#concrete',
                  'xdoctest.directive:Directive.effects', 'xdoctest.directive:_is_requires_satisfied'],
    'clauses': {'P': [], 'T': []},
    'explanation': 'C04 (under construction)',
}
