_Q = 'xdoctest.directive:RuntimeState.'
_D = 'xdoctest.doctest_example:DocTest.'
PROPERTY = {
    'id': 'C04',
    'contract_modules': ['directive', 'doctest_example', 'util_stream', 'checker', 'doctest_part', 'runner'],
    'functions': [_Q + '__init__#concrete', _Q + '__getitem__', _Q + '__setitem__', _Q + 'update#concrete',
                  _Q + 'set_report_style#concrete', 'xdoctest.directive:Directive.effects',
                  'xdoctest.directive:_is_requires_satisfied', _D + 'run',
                  _Q + '__init__', _Q + 'update', _Q + 'set_report_style',
                  'xdoctest.doctest_part:DoctestPart.directives', 'xdoctest.doctest_part:DoctestPart.has_any_code'],
    'extra': ['bounded.c11_fresh.run', 'bounded.c01_chunks.run', 'bounded.run_corpus.run', 'bounded.c04_extract.run'],
    'clauses': {
        'P': ['RuntimeState.update, per effect (relational loop-body clauses): an inline directive leaves the persistent flags AND the '
              'persistent REQUIRES set (object and members) unchanged; a block directive leaves the overlay unchanged; block assign / '
              'set.add / set.remove change exactly that flag / member of the persistent state; inline assign writes the overlay; the first '
              'inline REQUIRES effect gives the overlay its OWN copy of the persistent set (never the same object), later ones update that copy; '
              'noop changes nothing; with no directive the overlay is empty afterwards (it is cleared at every update)',
              'RuntimeState.__getitem__: overlay entry if present, else persistent entry (flags and the REQUIRES set); KeyError iff the key is unknown',
              'RuntimeState.__init__: keys = defaults + given defaults, flags taken from the given defaults where present, an empty overlay, '
              'and a REQUIRES set object of its own (shared neither with DEFAULT_RUNTIME_STATE nor with the argument)',
              'Directive.effects: one effect per REQUIRES argument (noop iff the condition is met, else set.add / set.remove by sign, value = the argument); '
              'REPORT_* -> noop / set_report_style; any other name -> one assign of the sign; every effect is keyed by the directive name',
              'DocTest.run: a part is skipped -- nothing compiled, executed or checked, its index appended to _skipped_parts, unmatched '
              'output untouched, no stdout logged -- iff after update(part.directives) SKIP is on or a REQUIRES condition is pending '
              '(or it has no code); otherwise it is compiled and executed once'],
        'B': ['Directive.extract on statement texts whose directives are known by construction (4 comment prefixes x 9 option texts x 13 code fragments incl. directive syntax inside string literals, multi-line statements and statements made of string literals only (a trailing directive on them is INLINE), with / without the comment): name, sign, arguments and inline flag (bounded/c04_extract.py)',
              'the real parser and DocTest.run on every sequence of 1..2 (thorough 3) statement templates plus random longer ones, each run twice, against an oracle written from the property statements: executed statements and their order, verdict, recorded exception and failing part, logged output, renderable report, stdout restored, second run identical, module global untouched (bounded/run_corpus.py)',
                   'the real _locate_ps1_linenos / _package_chunk on every sequence of up to 3 (thorough: 4) statement shapes: an inline directive\'s statement is alone in its part, a block directive line starts a part, no directive is lost (bounded/c01_chunks.py Q4)', 'the real RuntimeState on a few default dicts x directive sequences: no aliasing of the module-level defaults or of the dict handed in, no write to either (guards the proof against rewrites of __init__ the engine cannot follow)'],
        'T': ['_is_requires_satisfied (environment oracle)', 'set_report_style only touches REPORT_* entries (outside the quantifier)',
              'run sees RuntimeState through abstract contracts (state value + pure lookup); the link to the concrete contracts above is by '
              'reading, not mechanised', 'the tokenizer reports no comment inside string literals (Directive.extract / static.extract_comments)'],
        'N/A': ['--options=+REQUIRES(x) stores a bare bool under REQUIRES (excluded by the precondition of __init__); '
                'part breaks at directive statements are parser work (C13/C01.cover), not yet under contract'],
    },
    'explanation': 'C04 as the DirectiveSpec transition function proved effect by effect on the real update(), the lookup rule, '
                   'fresh state per RuntimeState, and the skip decision of run.',
}
