PROPERTY = {
    'id': 'C05',
    'contract_modules': ['doctest_example', 'checker'],
    'functions': ['xdoctest.utils.util_str:strip_ansi', 'xdoctest.checker:remove_blankline_marker', 'xdoctest.checker:_check_match',
                  'xdoctest.checker:normalize.norm_repr', 'xdoctest.checker:normalize', 'xdoctest.checker:check_output#relation', 'xdoctest.checker:_ellipsis_match'],
    'lemmas': ['placed_mono'],
    'clauses': {'P': [], 'T': []}, 'explanation': 'C05 (under construction)',
}
