PROPERTY = {
    'id': 'C05',
    'contract_modules': ['doctest_example', 'checker'],
    'functions': ['xdoctest.utils.util_str:strip_ansi', 'xdoctest.checker:remove_blankline_marker', 'xdoctest.checker:_check_match',
                  'xdoctest.checker:normalize.norm_repr', 'xdoctest.checker:normalize', 'xdoctest.checker:check_output#relation',
                  'xdoctest.checker:_ellipsis_match'],
    'lemmas': ['placed_mono'],
    'extra': ['bounded.c05_relation.run'],
    'clauses': {
        'P': ['check_output(got, want, rs) == S.match_def: True for an empty want, True for identical texts, else _check_match of the two '
              'normalised texts; _check_match == exact equality, or (only under ELLIPSIS) the wildcard relation of C06',
              'normalize == the documented pipeline, step by step and flag by flag (S.norm_got / S.norm_want): ANSI codes, u/U then b/B string '
              'prefixes, <BLANKLINE> markers in the WANT only and only unless DONT_ACCEPT_BLANKLINE, trailing blanks per line, rstrip, '
              'carriage-return lines, whitespace collapsing under NORMALIZE_WHITESPACE or IGNORE_WHITESPACE, whitespace deletion under '
              'IGNORE_WHITESPACE, quote stripping (got against want, then want against the new got) under NORMALIZE_REPR and only when it '
              'creates a match; a dropped, reordered, mis-guarded or swapped step fails a postcondition',
              'every regular expression involved is pinned: re.sub / re.match with a given (pattern, replacement, flags) is one function symbol, '
              'so code and specification agree only if they use the same pattern; strip_ansi and remove_blankline_marker against their patterns'],
        'B': ['monotonicity of each leniency, exactness with all leniencies off and "identical texts match", on the REAL check_output over '
              '(got, want) built from <= 2 of 12 tokens plus their quoted forms x all 32 flag settings (quick: 25 s budget); shows the open '
              'findings F7, F7b (leniencies are not monotone under NORMALIZE_REPR) and F12 (carriage-return lines are invisible)'],
        'T': ['the matching engine of re (each pattern is an uninterpreted function); str.split/join/splitlines/rstrip models'],
        'N/A': ['that two different regular expressions denote the same language is not decided: an equivalent rewrite of a pattern is '
                'reported as a failed obligation without a failing input'],
    },
    'explanation': 'C05: the real normalisation pipeline equals the specification pipeline term by term; relational clauses by a bounded stand-in.',
}
