_Q = 'xdoctest.utils.util_stream:CaptureStdout.'
_P = 'xdoctest.utils.util_import:PythonPathContext.'
PROPERTY = {
    'id': 'C12',
 'extra': ['bounded.c12_restore.run'],
    'contract_modules': ['doctest_example', 'util_stream', 'checker', 'doctest_part', 'runner', 'util_import'],
    'functions': ['xdoctest.doctest_example:DocTest.run', _Q + '__init__', 'xdoctest.utils.util_stream:TeeStringIO.__init__', _Q + 'start', _Q + 'stop', _Q + 'log_part', _Q + '__enter__', _Q + '__exit__',
                  _P + '__init__', _P + '__enter__', _P + '__exit__',
                  'xdoctest.utils.util_import:_custom_import_modpath',
                  'xdoctest.utils.util_import:split_modpath', 'xdoctest.utils.util_import:modpath_to_modname',
                  'xdoctest.utils.util_import:import_module_from_name'],
    'clauses': {
        'P': ['DocTest.run: sys.stdout is the object it was at entry on EVERY exit -- normal return, early return after an import failure, '
              'and every escaping exception (KeyboardInterrupt, SystemExit, Skipped, on_error="raise") -- although the doctest code may rebind '
              'it; every exec/eval/asyncio.run call lies inside warnings.catch_warnings (pre obligations on a ghost depth counter)',
              'CaptureStdout.stop/__exit__: sys.stdout is the original object afterwards on every outcome of log_part '
              '(try/finally), __exit__ never swallows an exception; frame: nothing but the named fields and sys.stdout changes',
              'PythonPathContext: __enter__ inserts at the normalised index; __exit__ removes exactly that entry '
              '(in place, or the first occurrence when it moved; RuntimeError iff it is gone); sys.path is a Seq String',
              '_custom_import_modpath: sys.path == old(sys.path) on success and on every failure of the import'],
        'B': ['the real DocTest.run on doctests that print, replace sys.stdout, alter the warning filters or await, ended by every outcome kind (pass, mismatch, exception, expected exception, early exit, all skipped, import failure, SystemExit, KeyboardInterrupt) at the first / last position x on_error in {return, raise}: sys.stdout / sys.stderr identical, sys.path and warning filters equal, no running loop afterwards; import_module_from_path on an importable and a failing module (bounded/c12_restore.py)'],
        'T': ['io.StringIO buffer/position model', 'importlib (import_module_from_name) leaves sys.path alone',
              'warnings.catch_warnings restores the filters (stdlib)', 'asyncio.run leaves no loop running (stdlib)'],
        'N/A': ['no event loop is left running: property of asyncio.run'],
    },
    'explanation': 'C12 as postconditions/frames of the two context managers and of the import helper. '
                   'The use of the managers by DocTest.run (exit on every path) is part of the run contract.',
}
