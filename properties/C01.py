PROPERTY = {'id': 'C01',
 'extra': ['bounded.c01_chunks.run', 'bounded.run_corpus.run', 'bounded.c01_equiv.run'],
 'contract_modules': ['doctest_example', 'util_stream', 'checker', 'doctest_part', 'runner', 'parser'],
 'functions': ['xdoctest.doctest_example:DocTest.run',
               'xdoctest.parser:DoctestParser._package_chunk#slices',
               'xdoctest.parser:DoctestParser._package_chunk.slice_example',
               'xdoctest.parser:DoctestParser._locate_ps1_linenos',
               'xdoctest.directive:Directive.extract',
               'xdoctest.utils.util_stream:CaptureStdout.__init__',
               'xdoctest.utils.util_stream:CaptureStdout.__enter__',
               'xdoctest.utils.util_stream:CaptureStdout.__exit__',
               'xdoctest.utils.util_stream:CaptureStdout.start',
               'xdoctest.utils.util_stream:CaptureStdout.stop',
               'xdoctest.utils.util_stream:CaptureStdout.log_part',
               'xdoctest.utils.util_stream:TeeStringIO.__init__',
               'xdoctest.doctest_example:DocTest._post_run',
               'xdoctest.doctest_example:DocTest._parse',
               'xdoctest.doctest_example:DocTest._pre_run',
               'xdoctest.doctest_example:DocTest._import_module',
               'xdoctest.doctest_example:DocTest._test_globals',
               'xdoctest.doctest_example:DocTest._color',
               'xdoctest.doctest_example:DocTest._print_captured',
               'xdoctest.doctest_example:DocTest.repr_failure',
               'xdoctest.doctest_example:DocTest.node',
               'xdoctest.doctest_example:DoctestConfig.getvalue',
               'xdoctest.directive:RuntimeState.__init__',
               'xdoctest.directive:RuntimeState.set_report_style',
               'xdoctest.directive:RuntimeState.update',
               'xdoctest.doctest_part:DoctestPart.directives',
               'xdoctest.doctest_part:DoctestPart.has_any_code',
               'xdoctest.doctest_part:DoctestPart.compilable_source',
               'xdoctest.utils.util_str:codeblock'],
 'clauses': {'P': ['every part that is not skipped is compiled exactly once from its own lines (part.compilable_source(), part.compile_mode) and '
                   'then exactly one of exec/eval is called exactly once on that code object, in the dict self.global_namespace (identity); parts '
                   'are visited in order (for loop over self._parts); a skipped part reaches neither compile nor exec',
                   'the pre-import / namespace setup happens before the first executed part and never again (setup-once clauses)',
                   'the stdout of an executed part is logged under its index on every outcome; CaptureStdout.__exit__: text is exactly what was '
                   'appended to the capture buffer since the matching __enter__',
                   "compilable_source: the part's lines joined (plus a final newline in single mode)",
                   'DoctestParser._package_chunk: the parts of a chunk are consecutive, forward, non-overlapping slices of its lines that start '
                   'at line 0 and end at its end (loop clauses for the slices made in the loops, exit facts for the one or two made after '
                   'them), so every statement line is in exactly one part, in order; a directive forces a break before its statement, an '
                   'inline one also after it; slice_example: a part executes / shows exactly the lines [s1, s2) and starts at lineno + s1'],
             'B': ['"the same as executing the de-prompted source as an ordinary program": generated doctests (simple, compound, decorated, multi-line, async / top-level await statements, comments, expression statements; 3 prompt styles incl. unprefixed lines inside a multi-line string; indentation 0/4; prose and blank lines between groups; no wants) log exactly the stdout -- and end with exactly the bindings -- of exec of the de-prompted program (bounded/c01_equiv.py)',
                   'the real parser and DocTest.run on every sequence of 1..2 (thorough 3) statement templates plus random longer ones, each run twice, against an oracle written from the property statements: executed statements and their order, verdict, recorded exception and failing part, logged output, renderable report, stdout restored, second run identical, module global untouched (bounded/run_corpus.py)',
                   'the real _locate_ps1_linenos / _package_chunk on every sequence of up to 3 (thorough: 4) statement shapes (decorators, PS1/PS2 '
                   'continuation lines, multi-line strings, comments, block and inline directives) x want / no want: partition, offsets, no '
                   'statement cut, directive scope, want on the last part only, statement starts (bounded/c01_chunks.py)'],
             'T': ['compile / exec / eval / asyncio.run as oracles (pyvc/models_run.py): return a value or raise any class, write to the current '
                   'sys.stdout, may rebind sys.stdout, bind names in the dict they are given',
                   'CPython: an exception raised while running code compiled with filename F has a traceback entry of F',
                   'RuntimeState seen from outside: update/set_report_style/__getitem__ as assumed contracts over an abstract state (their own '
                   'proofs: C04)',
                   'DoctestPart.directives / has_any_code, DocTest._parse/_pre_run/_import_module/_test_globals/repr_failure: assumed contracts (see '
                   'evidence.assumed_contracts)',
                   'no --global-exec code is configured (DoctestConfig.global_exec is None)',
                   'io.StringIO buffer/position model',
                   '_locate_ps1_linenos returns increasing in-range statement starts (assumed by the _package_chunk contract; exercised by the '
                   'bounded stand-in); sorted(set(xs)) of ints: strictly increasing, same members'],
             'N/A': ['"the effect equals executing the de-prompted source as an ordinary program" as a PROOF: needs a semantics of compile/exec and '
                     'of the tokenizer-based statement splitter (_locate_ps1_linenos, is_balanced_statement); decided only by the bounded '
                     'differential stand-in above']},
 'explanation': 'C01 as event clauses on DocTest.run (compile/exec exactly once, in order, one namespace) and the capture contracts.'}
