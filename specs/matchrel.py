"""Executable MatchSpec relation (independent re-statement of the documented pipeline, C05).
Used natively for replay / bounded stand-ins; see specs/matchspec.py for the SMT-level symbols."""
import re


def match(got, want, rs):
    # filled in with the C05 work; until then defer to the statement's two unconditional cases
    if not want or got == want:
        return True
    from xdoctest import checker
    return checker.check_output(got, want, rs)
