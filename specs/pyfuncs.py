"""Spec-level names for Python builtins that are function-like: the builtin model used for the code
and the symbol available to contracts are the SAME uninterpreted function, specified by its facts."""
from pyvc.specs_support import uninterp


@uninterp('(list[str], str) -> int',
          facts=["implies(x in xs, 0 <= result and result < len(xs) and xs[result] == x)",
                 "implies(x in xs, all(xs[k] != x for k in range(0, result)))",
                 "implies(x not in xs, result == -1)"],
          note="list.index: first occurrence (-1 when absent; the builtin raises ValueError then)")
def first_index(xs, x):
    return xs.index(x) if x in xs else -1
