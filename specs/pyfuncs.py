"""Spec-level names for Python builtins that are function-like: the builtin model used for the code
and the symbol available to contracts are the SAME uninterpreted function, specified by its facts."""
from pyvc.specs_support import uninterp


@uninterp('(list[str], str) -> int',
          facts=["implies(x in xs, 0 <= result and result < len(xs) and xs[result] == x)",
                 "implies(x in xs, all(xs[k] != x for k in range(0, result)))",
                 "implies(x not in xs, result == -1)"],
          note="list.index: first occurrence (-1 when absent; the builtin raises ValueError then)")
def first_index(xs, x):
    return xs.index(x) if x in xs else -1


@uninterp('(str) -> list[str]',
          facts=["all(ln in s for ln in result)"],
          note="the lines of a text AS A SOURCE FILE HAS THEM: broken at \\n, \\r\\n and \\r only (not at form feeds, vertical tabs, "
               "FS/GS/RS, NEL, U+2028/9, which str.splitlines also breaks at); every line is a piece of the text; trusted: re.split")
def source_lines(s):
    import re as _re
    lines = _re.split('\r\n|\r|\n', s)
    if lines and lines[-1] == '':
        lines.pop()
    return lines


from pyvc.specs_support import rec


@rec('(list[bool]) -> int')
def count_true(xs):
    """Number of True entries (what ``sum(flag for ...)`` computes)."""
    if len(xs) == 0:
        return 0
    return count_true(xs[:len(xs) - 1]) + (1 if xs[len(xs) - 1] else 0)


@rec('(list[bool]) -> list[int]')
def true_indices(xs):
    """Indices of the True entries, in increasing order."""
    if len(xs) == 0:
        return []
    return true_indices(xs[:len(xs) - 1]) + ([len(xs) - 1] if xs[len(xs) - 1] else [])


import re as _re
from pyvc.specs_support import native as _native
from pyvc import smt as _smt


def _regex_builder(kind):
    def build(ts):
        from pyvc import models
        pat, flags, s = ts
        if pat.lit is None or flags.lit is None:
            from pyvc.vals import Undecided
            raise Undecided('S.re_%s needs a literal pattern and literal flags' % kind)
        name = models.regex_pred(kind, pat.lit[1], flags.lit[1])
        return _smt.CTX.app(name, s)
    return build


@_native('(str, int, str) -> bool', _regex_builder('match'))
def re_match(pattern, flags, s):
    """re.match(pattern, s, flags) is not None (trusted: re)."""
    return _re.match(pattern, s, flags) is not None


@_native('(str, int, str) -> bool', _regex_builder('search'))
def re_search(pattern, flags, s):
    return _re.search(pattern, s, flags) is not None


# -------------------------------------------------------------------- C10: force-disabled doctests
_DISABLE = [r'>>>\s*#\s*DISABLE', r'>>>\s*#\s*UNSTABLE', r'>>>\s*#\s*FAILING', r'>>>\s*#\s*SCRIPT',
            r'>>>\s*#\s*SLOW_DOCTEST']
DISABLE_NATIVE = '|'.join(_DISABLE)
DISABLE_PYTEST = '|'.join(_DISABLE + [r'>>>\s*#\s*pytest.skip'])


def force_disabled(docsrc, pytest):
    """A doctest is force-disabled iff its source STARTS with one of the documented comment markers
    (case-insensitive); under pytest also the pytest.skip marker."""
    if pytest:
        return re_match(DISABLE_PYTEST, 2, docsrc)
    return re_match(DISABLE_NATIVE, 2, docsrc)


from pyvc.specs_support import uninterp as _uninterp

_BOUNDARIES = '\n\r\x0b\x0c\x1c\x1d\x1e\x85  '


@_uninterp('(list[str]) -> bool',
           note="a list of plain lines: no element contains a line boundary and the last element is not empty "
                "(then '\\n'.join(xs).splitlines() == xs)")
def plain_lines(xs):
    return all(not any(b in x for b in _BOUNDARIES) for x in xs) and (len(xs) == 0 or xs[-1] != '')


@rec('(list[str]) -> list[str]')
def no_star_imports(lines):
    """The lines that do not contain a star import, in order (what the dump keeps of a part's source)."""
    if len(lines) == 0:
        return []
    return no_star_imports(lines[:len(lines) - 1]) + ([] if ' import *' in lines[len(lines) - 1] else [lines[len(lines) - 1]])


def _re_sub_builder(ts):
    from pyvc import models
    pat, repl, flags, s = ts
    if pat.lit is None or flags.lit is None or repl.lit is None:
        from pyvc.vals import Undecided
        raise Undecided('S.re_sub needs literal pattern, replacement and flags')
    name = models.regex_sub_fn(pat.lit[1], repl.lit[1], flags.lit[1])
    return _smt.CTX.app(name, s)


@_native('(str, str, int, str) -> str', _re_sub_builder)
def re_sub(pattern, repl, flags, s):
    """re.sub(pattern, repl, s, flags=flags) (trusted: re)."""
    return _re.sub(pattern, repl, s, flags=flags)


# ------------------------------------------------------------------ abstract file system / paths (C17)
import os.path as _osp


def _app_builder(name, argsorts, ret):
    def build(ts):
        _smt.CTX.fun(name, argsorts, ret)
        return _smt.CTX.app(name, *ts)
    return build


@_native('(str) -> bool', _app_builder('fs_exists', ['String'], 'Bool'))
def fs_exists(p):
    return _osp.exists(p)


@_native('(str) -> bool', _app_builder('fs_isfile', ['String'], 'Bool'))
def fs_isfile(p):
    return _osp.isfile(p)


def _path_join_builder(ts):
    from pyvc import models
    models.path_join_axiom(_smt.CTX)
    return _smt.CTX.app('path_join', *ts)


@_native('(str, str) -> str', _path_join_builder)
def path_join(a, b):
    return _osp.join(a, b)


@_native('(str) -> str', _app_builder('path_dirname', ['String'], 'String'))
def path_dirname(p):
    return _osp.dirname(p)


@_native('(str) -> str', _app_builder('path_basename', ['String'], 'String'))
def path_basename(p):
    return _osp.basename(p)


@rec('(str, str) -> bool')
def init_chain(subdir, base):
    """Every directory from subdir up to (excluding) base -- or up to the empty path -- holds an __init__.py:
    the rule that makes a path below a search-path entry importable as part of a regular package."""
    if subdir == '' or subdir == base:
        return True
    return fs_exists(path_join(subdir, '__init__.py')) and init_chain(path_dirname(subdir), base)


@_uninterp('(str) -> int',
           facts=["result >= 0",
                  "implies(fs_exists(path_join(p, '__init__.py')), path_depth(path_dirname(p)) < result)"],
           note="number of components of a path; assumption used for termination: a directory holding an __init__.py is not its own parent")
def path_depth(p):
    return len([c for c in p.split('/') if c])


def normalize_modpath_spec(modpath, hide_init, hide_main):
    """__init__/__main__ normalisation: a path whose LAST COMPONENT is __init__.py denotes its directory (hide_init), or a package
    directory denotes its __init__.py (not hide_init); a last component __main__.py next to an __init__.py denotes the package."""
    m = modpath
    hm = hide_main
    if hide_init:
        if path_basename(m) == '__init__.py':
            m = path_dirname(m)
            hm = True
    else:
        if fs_exists(path_join(m, '__init__.py')):
            m = path_join(m, '__init__.py')
    if hm and path_basename(m) == '__main__.py' and fs_exists(path_join(path_dirname(m), '__init__.py')):
        return path_dirname(m)
    return m


@rec('(list[int]) -> int')
def int_sum(xs):
    """Sum of a list of integers."""
    if len(xs) == 0:
        return 0
    return int_sum(xs[:len(xs) - 1]) + xs[len(xs) - 1]


# ------------------------------------------------------------------ C13: line labelling
def _span_builder(which):
    def build(ts):
        from pyvc import models
        pat, flags, s = ts
        a, b = models.regex_span_fns(pat.lit[1], flags.lit[1])
        return _smt.CTX.app(a if which == 'start' else b, s)
    return build


@_native('(str, int, str) -> int', _span_builder('start'))
def re_search_start(pattern, flags, s):
    return _re.search(pattern, s, flags).start()


@_native('(str, int, str) -> int', _span_builder('end'))
def re_search_end(pattern, flags, s):
    return _re.search(pattern, s, flags).end()


INDENT_PATTERN = r'^([ ]*)(?=\S)'


def indent_of(line):
    """Number of leading spaces of a non-blank line (0 for a blank line)."""
    if not re_search(INDENT_PATTERN, 8, line):
        return 0
    return re_search_end(INDENT_PATTERN, 8, line) - re_search_start(INDENT_PATTERN, 8, line)


def has_prompt(line, prompt):
    """The line is exactly the prompt or starts with the prompt followed by a space."""
    return line == prompt or line.startswith(prompt + ' ')


def next_label(prev, line, state_indent):
    """C13: the label of a line given the label of the previous line and the indentation of the example it belongs to.
    text: a primary prompt opens source.  after source: blank or de-indented -> text; a prompted line is source ('...'-prefixed:
    continuation; a BARE '...' is want after a primary-prompt line and continuation after a continuation); anything else is want.
    in a want: blank -> text; a primary prompt -> source (even when de-indented); de-indented -> text; else want."""
    strip = line.strip()
    if prev == 'text':
        return 'dsrc' if has_prompt(strip, '>>>') else 'text'
    if prev == 'want':
        if strip == '':
            return 'text'
        if has_prompt(strip, '>>>'):
            return 'dsrc'
        if indent_of(line) < state_indent:
            return 'text'
        return 'want'
    norm = line[state_indent:]
    if strip == '' or indent_of(line) < state_indent:
        return 'text'
    if has_prompt(norm, '>>>') or has_prompt(norm, '...'):
        if strip == '...':
            return 'dcnt' if prev == 'dcnt' else 'want'
        return 'dcnt' if has_prompt(norm, '...') else 'dsrc'
    return 'want'


# ------------------------------------------------------------------ int(str) (C09: traceback location lines)
def _is_int_native(s):
    try:
        int(s)
        return True
    except ValueError:
        return False


@_native('(str) -> bool', _app_builder('py_is_int', ['String'], 'Bool'))
def is_int_literal(s):
    """int(s) succeeds (the same uninterpreted predicate the model of int(str) raises ValueError on)."""
    return _is_int_native(s)


def _pytest_option_builder(ts):
    _smt.CTX.sort('Val')
    _smt.CTX.fun('pytest_option', ['String'], 'Val')
    return _smt.CTX.app('pytest_option', *ts)


@_native('(str) -> Val', _pytest_option_builder)
def pytest_option(name):
    """The value pytest's config object returns for an option name (uninterpreted)."""
    raise NotImplementedError


@_native('(int, int) -> str', _app_builder('py_format_d', ['Int', 'Int'], 'String'))
def fmt_d(x, width):
    """'{x:{width}d}'.format(...): the number as displayed in a numbered listing (uninterpreted; the same symbol as the model of
    that format spec)."""
    return '{x:{w}d}'.format(x=x, w=width)


def _class_name_builder(ts):
    _smt.CTX.sort('Val')
    _smt.CTX.fun('py_class_name', ['Val'], 'String')
    return _smt.CTX.app('py_class_name', *ts)


@_native('(Val) -> str', _class_name_builder)
def class_name(cls):
    """cls.__name__ of a class held as an opaque value."""
    return cls.__name__


@_native('(str, str) -> bool', _app_builder('py_fnmatch', ['String', 'String'], 'Bool'))
def fnmatch(name, pat):
    """fnmatch.fnmatch(name, pat) (uninterpreted; the same symbol as the model of the library call)."""
    import fnmatch as _f
    return _f.fnmatch(name, pat)
