"""
MatchSpec -- what it means for a got text to match a want text.

Written from the property statements (C05, C06, C02, C03), not from the code.
Every function is executable Python (used for replay and bounded checks) and
is translated to SMT by pyvc (used for the proofs).
"""
import re
from pyvc.specs_support import rec, uninterp, native
from pyvc import smt


@native('(str, int, int) -> str', lambda ts: smt.Substr(ts[0], ts[1], ts[2]))
def substr(s, off, n):
    """s[off:off+n] for 0 <= off, 0 <= n; '' otherwise (SMT-LIB str.substr)."""
    if off < 0 or n <= 0:
        return ''
    return s[off:off + n]


@uninterp('(str) -> list[str]',
          facts=["implies('...' in want, len(result) >= 2)",
                 "len(result) >= 1"],
          note="re.split by the language \\s*\\.\\.\\.\\s* (trusted: re); pinned by regex:ellipsis-split")
def pieces(want):
    """The literal pieces of a want: split at each '...' together with the whitespace around it."""
    return re.split(r'\s*\.\.\.\s*', want)


@rec('(str, list[str], int, int, int, int) -> bool')
def placed(got, ws, i, hi, s, e):
    """Pieces ws[i:hi] can be placed in got[s:e] in order, without overlap."""
    if i >= hi:
        return True
    return any(substr(got, p, len(ws[i])) == ws[i] and placed(got, ws, i + 1, hi, p + len(ws[i]), e)
               for p in range(max(s, 0), e - len(ws[i]) + 1))


def ematch(got, ws):
    """got = ws[0] x0 ws[1] x1 ... ws[n-1] for some texts x_k (n = len(ws) >= 2)."""
    n = len(ws)
    first = ws[0]
    last = ws[n - 1]
    return (got.startswith(first) and got.endswith(last)
            and len(first) + len(last) <= len(got)
            and placed(got, ws, 1, n - 1, len(first), len(got) - len(last)))


def ellipsis_match(got, want):
    """The relation of property C06 (ELLIPSIS enabled)."""
    if '...' not in want:
        return got == want
    return ematch(got, pieces(want))
