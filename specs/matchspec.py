"""
MatchSpec -- what it means for a got text to match a want text.

Written from the property statements (C05, C06, C02, C03), not from the code.
Every function is executable Python (used for replay and bounded checks) and
is translated to SMT by pyvc (used for the proofs).
"""
import re
from pyvc.specs_support import rec, uninterp, native
from pyvc import smt


@native('(str, int, int) -> str', lambda ts: smt.Substr(ts[0], ts[1], ts[2]))
def substr(s, off, n):
    """s[off:off+n] for 0 <= off, 0 <= n; '' otherwise (SMT-LIB str.substr)."""
    if off < 0 or n <= 0:
        return ''
    return s[off:off + n]


@uninterp('(str) -> list[str]',
          facts=["implies('...' in want, len(result) >= 2)",
                 "len(result) >= 1"],
          note="re.split by the language \\s*\\.\\.\\.\\s* (trusted: re); pinned by regex:ellipsis-split")
def pieces(want):
    """The literal pieces of a want: split at each '...' together with the whitespace around it."""
    return re.split(r'\s*\.\.\.\s*', want)


@rec('(str, list[str], int, int, int, int) -> bool')
def placed(got, ws, i, hi, s, e):
    """Pieces ws[i:hi] can be placed in got[s:e] in order, without overlap."""
    if i >= hi:
        return True
    return any(substr(got, p, len(ws[i])) == ws[i] and placed(got, ws, i + 1, hi, p + len(ws[i]), e)
               for p in range(max(s, 0), e - len(ws[i]) + 1))


def ematch(got, ws):
    """got = ws[0] x0 ws[1] x1 ... ws[n-1] for some texts x_k (n = len(ws) >= 2)."""
    n = len(ws)
    first = ws[0]
    last = ws[n - 1]
    return (got.startswith(first) and got.endswith(last)
            and len(first) + len(last) <= len(got)
            and placed(got, ws, 1, n - 1, len(first), len(got) - len(last)))


def ellipsis_match(got, want):
    """The relation of property C06 (ELLIPSIS enabled)."""
    if '...' not in want:
        return got == want
    return ematch(got, pieces(want))


# ----------------------------------------------------------------- C03: names

@uninterp('(str) -> int',
          facts=["0 <= result and result <= len(msg)",
                 "all(msg[k] != '\\n' and msg[k] != ':' for k in range(0, result))",
                 "result == len(msg) or msg[result] == '\\n' or msg[result] == ':'"],
          note="definite description: first position of a newline or colon, else len(msg)")
def name_end(msg):
    """End of the exception name: the first newline or colon (the name is on the first line, before the colon)."""
    for k, ch in enumerate(msg):
        if ch == '\n' or ch == ':':
            return k
    return len(msg)


@uninterp('(str) -> int',
          facts=["0 <= result and result <= name_end(msg)",
                 "all(msg[k] != '.' for k in range(result, name_end(msg)))",
                 "result == 0 or msg[result - 1] == '.'"],
          note="definite description: position after the last dot before name_end(msg), else 0")
def name_start(msg):
    """Start of the bare exception name: after the last dot of the dotted path."""
    e = name_end(msg)
    k = e
    while k > 0 and msg[k - 1] != '.':
        k -= 1
    return k


def exc_name(msg):
    """'foo.bar.MyError: la di da' -> 'MyError' (statement of C03: only the type has to agree)."""
    return substr(msg, name_start(msg), name_end(msg) - name_start(msg))


# --------------------------------------------------- C03: traceback-shaped wants

_HDRS = ('Traceback (most recent call last):', 'Traceback (innermost last):')


def _exc_want(want):
    """Independent, procedural reading of "a traceback block": a header line, an optional
    stack, and a final part that begins at the first later line starting with a word
    character (and, as in the standard doctest module, extends to the end of the text)."""
    import textwrap
    text = textwrap.dedent(want).strip('\n')
    lines = text.split('\n')
    for i, line in enumerate(lines):
        for h in _HDRS:
            if line.startswith(h) and line[len(h):].strip() == '':
                for j in range(i + 1, len(lines)):
                    if re.match(r'\w', lines[j]):
                        return '\n'.join(lines[j:])
    return None


@uninterp('(str) -> bool', note="want has no traceback shape (trusted: _EXCEPTION_RE; bounded cross-check C03.shape)")
def exc_want_none(want):
    return _exc_want(want) is None


@uninterp('(str) -> str', note="final part of a traceback-shaped want (trusted: _EXCEPTION_RE)")
def exc_want(want):
    r = _exc_want(want)
    return '' if r is None else r


# ------------------------------------------------------- the matching relation

@uninterp('(str, str, Val) -> bool',
          facts=["implies(want == '', result)", "implies(got == want, result)"],
          note="the got/want relation of C05 under the flags of the given runtime state; "
               "decided by checker.check_output (contract verified under C05)")
def match(got, want, rs):
    from specs import matchrel
    return matchrel.match(got, want, rs)


def flag(rs, key):
    """Effective value of a boolean directive flag in a runtime state (lookup semantics of C04)."""
    if rs is None:
        from xdoctest import directive
        return directive.DEFAULT_RUNTIME_STATE[key]
    return rs[key]


def names_agree(got_name, want_name, rs):
    """C03: "only the exception type has to agree".  A want that names no type (empty name, e.g. a final line made of dots)
    agrees only with an exception line that names none either -- it must not agree with every exception."""
    return (want_name != '' and match(got_name, want_name, rs)) or (want_name == '' and got_name == '')


def exc_match(exc_got, want, rs):
    """C03: the final line matches, or with IGNORE_EXCEPTION_DETAIL only the type has to agree."""
    ew = exc_want(want)
    return match(exc_got, ew, rs) or (flag(rs, 'IGNORE_EXCEPTION_DETAIL')
                                       and names_agree(exc_name(exc_got), exc_name(ew), rs))


# ------------------------------------------------------------- C02: got vs want

from xdoctest import constants


@uninterp('(Val) -> bool', note="oracle: repr(v) raises an Exception")
def repr_raises(v):
    try:
        repr(v)
    except Exception:
        return True
    return False


@uninterp('(Val) -> str', note="oracle: repr(v)")
def repr_of(v):
    return repr(v)


def not_evaled(v):
    return v is constants.NOT_EVALED


def value_matches(want, ev, rs):
    return (not repr_raises(ev)) and match(repr_of(ev), want, rs)


def V(want, out, ev, rs):
    """C02: the want is satisfied by the output text `out` and/or the value `ev` of the final expression:
    stdout if nothing was evaluated; the repr of the value if nothing was printed; either one otherwise."""
    if not_evaled(ev):
        return match(out, want, rs)
    if out == '':
        return value_matches(want, ev, rs)
    return match(out, want, rs) or value_matches(want, ev, rs)


def repr_fails(want, out, ev, rs):
    """The repr of the value is needed to decide and raises."""
    return (not not_evaled(ev)) and repr_raises(ev) and (out == '' or not match(out, want, rs))


@rec('(list[str], int) -> str')
def suffix_join(gots, m):
    """Concatenation of the last m outputs."""
    return ''.join(gots[len(gots) - m:])


# ------------------------------------------------------------------ runtime state seen from outside
def rs_skip(state):
    """C04: a statement is executed iff SKIP is off and no unmet REQUIRES condition is pending."""
    return rs_flag(state, 'SKIP') or rs_requires_pending(state) > 0


@uninterp('(list[str]) -> bool', note="some line is neither blank nor a comment")
def has_code(lines):
    return any(l.strip() and not l.strip().startswith('#') for l in lines)


from pyvc.specs_support import native as _native
from pyvc import smt as _smt


def _rs_flag_builder(ts):
    _smt.CTX.sort('Val')
    _smt.CTX.fun('rs_flag', ['Val', 'String'], 'Bool')
    return _smt.CTX.app('rs_flag', ts[0], ts[1])


def _rs_pending_builder(ts):
    _smt.CTX.sort('Val')
    _smt.CTX.fun('rs_requires', ['Val'], '(Array String Bool)')
    _smt.CTX.fun('py_card', ['(Array String Bool)'], 'Int')
    return _smt.CTX.app('py_card', _smt.CTX.app('rs_requires', ts[0]))


@_native('(Val, str) -> bool', _rs_flag_builder)
def rs_flag(state, key):
    """Effective value of a boolean flag (the same symbol the model of runstate[key] uses)."""
    return bool(state[key])


@_native('(Val) -> int', _rs_pending_builder)
def rs_requires_pending(state):
    """Number of unmet REQUIRES conditions pending in the state."""
    return len(state['REQUIRES'])


def _val_bool_builder(ts):
    _smt.CTX.sort('Val')
    _smt.CTX.fun('val_bool', ['Val'], 'Bool')
    return _smt.CTX.app('val_bool', ts[0])


def _val_str_builder(ts):
    _smt.CTX.sort('Val')
    _smt.CTX.fun('val_str', ['Val'], 'String')
    return _smt.CTX.app('val_str', ts[0])


@_native('(Val) -> bool', _val_bool_builder)
def val_bool(v):
    """The boolean an opaque value is (meaningful when the producer's contract says it is a bool)."""
    return bool(v)


@_native('(Val) -> str', _val_str_builder)
def val_str(v):
    """The string an opaque value is."""
    return str(v)


@uninterp('(str) -> bool', note="oracle: the REQUIRES condition holds in this process/environment (directive._is_requires_satisfied)")
def requires_satisfied(arg):
    from xdoctest import directive
    return directive._is_requires_satisfied(arg)


# ============================================================ C05: the documented matching relation
# Written from the property statement: identical texts match; otherwise both texts are normalised --
# ANSI colour codes, string-prefix letters, (unless disabled) <BLANKLINE> markers in the WANT, trailing
# whitespace; lines ending in a carriage return are invisible; whitespace runs collapse under
# NORMALIZE_WHITESPACE (or IGNORE_WHITESPACE), all whitespace goes under IGNORE_WHITESPACE; surrounding
# quotes are ignorable under NORMALIZE_REPR -- and compared exactly, or with '...' as a wildcard under ELLIPSIS.
from specs.pyfuncs import re_sub
from pyvc.specs_support import defn

ANSI_PATTERN = r'(\x9B|\x1B\[)[0-?]*[ -/]*[@-~]'
UNICODE_PREFIX = r"(\W|^)[uU]([rR]?[\'\"])"
BYTES_PREFIX = r"(\W|^)[bB]([rR]?[\'\"])"
TRAILING_WS_PATTERN = r"[ \t]*$"
BLANKLINE_PATTERN = '(?<=\n)<BLANKLINE>\n|<BLANKLINE>\n|\n<BLANKLINE>|<BLANKLINE>'
IGNORECASE, MULTILINE = 2, 8


def strip_ansi_spec(text):
    return re_sub(ANSI_PATTERN, '', IGNORECASE, text)


def remove_blankline_spec(text):
    return re_sub(BLANKLINE_PATTERN, '\n', MULTILINE, text)


def strip_prefixes(text):
    return re_sub(BYTES_PREFIX, r'\1\2', 0, re_sub(UNICODE_PREFIX, r'\1\2', 0, text))


@defn('(str) -> str')
def visible(text):
    """Lines that end in a carriage return are overwritten on a terminal: they are dropped."""
    return ''.join([line for line in text.splitlines(True) if not line.endswith('\r')])


def collapse_ws(text):
    return ' '.join(text.split())


def delete_ws(text):
    return re_sub(r'\s', '', MULTILINE, text)


@defn('(str, bool, Val) -> str')
def norm_one(text, is_want, rs):
    """The per-text part of the pipeline (everything but quote normalisation)."""
    t = strip_prefixes(strip_ansi_spec(text))
    if is_want and not rs_flag(rs, 'DONT_ACCEPT_BLANKLINE'):
        t = remove_blankline_spec(t)
    t = visible(re_sub(TRAILING_WS_PATTERN, '', MULTILINE, t).rstrip())
    if rs_flag(rs, 'NORMALIZE_WHITESPACE') or rs_flag(rs, 'IGNORE_WHITESPACE'):
        t = collapse_ws(t)
    if rs_flag(rs, 'IGNORE_WHITESPACE'):
        t = delete_ws(t)
    return t


@defn('(str, str, Val) -> bool')
def check_match(got, want, rs):
    return got == want or (rs_flag(rs, 'ELLIPSIS') and ellipsis_match(got, want))


@defn('(str, str, Val) -> str')
def unquote(a, b, rs):
    """a without its surrounding quotes if that (and only that) makes it match b."""
    if check_match(a, b, rs):
        return a
    if a.startswith('"') and a.endswith('"') and check_match(substr(a, 1, len(a) - 2), b, rs):
        return substr(a, 1, len(a) - 2)
    if a.startswith("'") and a.endswith("'") and check_match(substr(a, 1, len(a) - 2), b, rs):
        return substr(a, 1, len(a) - 2)
    return a


@defn('(str, str, Val) -> str')
def norm_got(got, want, rs):
    g = norm_one(got, False, rs)
    if rs_flag(rs, 'NORMALIZE_REPR'):
        return unquote(g, norm_one(want, True, rs), rs)
    return g


@defn('(str, str, Val) -> str')
def norm_want(got, want, rs):
    w = norm_one(want, True, rs)
    if rs_flag(rs, 'NORMALIZE_REPR'):
        return unquote(w, norm_got(got, want, rs), rs)
    return w


@defn('(str, str, Val) -> bool')
def match_def(got, want, rs):
    """The relation of C05 (the uninterpreted S.match used by C02/C03 abstracts this definition)."""
    if want == '':
        return True
    if got == want:
        return True
    return check_match(norm_got(got, want, rs), norm_want(got, want, rs), rs)
