"""Spec layer: executable, translatable Python definitions (see DESIGN.md section 5)."""
from .matchspec import *      # noqa
from .pyfuncs import *       # noqa
