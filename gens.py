"""Native input generators for the executable reading of contracts (bounded; never counted as proof)."""
import itertools
import random
from pyvc.native import strings, token_strings


def _shuffled(items, seed):
    items = list(items)
    random.Random(seed).shuffle(items)
    return items


def ellipsis_pairs(tier, seed):
    wants = list(token_strings(['a', 'b', '...', ' ', 'ab', '\n'], 5))
    gots = list(strings('ab ', 4)) + ['a\nb', 'ab\nab', 'aab', 'abab', 'ba ab']
    # three or more ellipses around short pieces, end anchored: the shape where a piece could be searched for past the
    # region the last piece is anchored to (pieces must never overlap)
    lits = ['a', 'b', 'ab']
    multi = ['...' + x + '...' + y + '...' + z for x in lits for y in lits for z in lits]
    multi += [x + '...' + y + '...' + z for x in lits for y in lits for z in lits]
    short = [g for g in strings('ab', 5) if len(g) >= 3]
    front = _shuffled(itertools.product(short, multi), seed)[:1500]
    pairs = _shuffled(itertools.product(gots, wants), seed)
    for k, (g, w) in enumerate(pairs):
        if k < len(front):
            yield {'got': front[k][0], 'want': front[k][1]}
        yield {'got': g, 'want': w}


def exc_messages(tier, seed):
    toks = ['a', 'B', '.', ':', '\n', ' ', 'x.y', 'E: m']
    for s in _shuffled(token_strings(toks, 4 if tier == 'quick' else 5), seed):
        yield {'msg': s}


class BadRepr(object):
    def __repr__(self):
        raise RuntimeError('bad repr')


class Rep(object):
    def __init__(self, text):
        self.text = text

    def __repr__(self):
        return self.text

    def __str__(self):
        return 'str-' + self.text


def _runstates():
    from xdoctest import directive
    out = []
    for ied in (False, True):
        for ell in (True, False):
            rs = directive.RuntimeState()
            rs['IGNORE_EXCEPTION_DETAIL'] = ied
            rs['ELLIPSIS'] = ell
            out.append(rs)
    return out


def _evals():
    from xdoctest import constants
    return [constants.NOT_EVALED, Rep('a'), Rep('b'), Rep(''), Rep("'a'"), 1, None, BadRepr()]


def gvw_inputs(tier, seed):
    outs = ['', 'a', 'b', 'a\n', 'b\n', ' ', '\n', 'a\nb\n', '1', "'a'"]
    wants = ['a', 'b', 'a\nb', '...', 'a...', '<BLANKLINE>', '1', "'a'", 'None', 'str-a']
    rss = _runstates()
    combos = _shuffled(itertools.product(wants, outs, range(len(_evals())), range(len(rss))), seed)
    for w, o, e, r in combos:
        yield {'want': w, 'got_stdout': o, 'got_eval': _evals()[e], 'runstate': rss[r]}


def part_check_inputs(tier, seed):
    from xdoctest import doctest_part
    outs = ['', 'a\n', 'b\n', 'x']
    wants = [['a'], ['b'], ['a', 'b'], ['x'], ['b', 'x'], ['...'], ['1'], ['a', 'b', 'x']]
    unm = [[], ['a\n'], ['a\n', 'b\n'], ['b\n', 'a\n'], ['', 'a\n'], ['x', 'a\n', 'b\n']]
    rss = _runstates()[:2]
    combos = _shuffled(itertools.product(range(len(wants)), outs, range(len(_evals())), range(len(unm)), range(len(rss))), seed)
    for w, o, e, u, r in combos:
        part = doctest_part.DoctestPart(['x'], want_lines=list(wants[w]), line_offset=0, orig_lines=['>>> x'] + wants[w])
        yield {'part': part, 'got_stdout': o, 'got_eval': _evals()[e], 'runstate': rss[r], 'unmatched': list(unm[u])}


def check_exception_inputs(tier, seed):
    hdr = 'Traceback (most recent call last):'
    gots = ['ValueError: x', 'ValueError: y', 'a.b.ValueError: x', 'KeyError', 'ValueError', 'E: 3.5', 'mod.E: 3.5']
    wants = [hdr + '\n' + g for g in gots] + [hdr + '\n  File "x"\n' + gots[0], hdr + '\n...\nValueError: ...',
             'ValueError: x', 'something else', hdr, hdr + '\n  indented only', '    ' + hdr + '\n    KeyError',
             hdr + '\n    ...\nValueError...', hdr + '\nValueError.', hdr + '\nmod.KeyError:']
    rss = _runstates()
    for g, w, r in _shuffled(itertools.product(gots, wants, range(len(rss))), seed):
        yield {'exc_got': g, 'want': w, 'runstate': rss[r]}


def doctest_failures(tier, seed):
    """DocTest objects in every recorded-failure shape (C08.fail)."""
    from xdoctest import doctest_example, doctest_part, checker, exceptions
    excs = [None, ValueError('v'), KeyError('k'), checker.GotWantException('m', 'g', 'w'),
            checker.ExtractGotReprException('m', ValueError('o')), exceptions.ExistingEventLoopError('e'),
            exceptions.DoctestParseError('p'), SyntaxError('s')]
    combos = _shuffled(itertools.product(range(len(excs)), [1, 7], [0, 3], [1, 2, 4], [['x'], ['x', 'y', 'z']], [False, True]), seed)
    for e, lineno, off, tbl, lines, imp in combos:
        dt = doctest_example.DocTest('>>> x = 1', lineno=lineno)
        part = doctest_part.DoctestPart(list(lines), want_lines=['w'], line_offset=off)
        dt.failed_part = '<IMPORT>' if imp else part
        dt.failed_tb_lineno = tbl
        dt.exc_info = None if excs[e] is None else (type(excs[e]), excs[e], None)
        yield {'self': dt}
