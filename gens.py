"""Native input generators for the executable reading of contracts (bounded; never counted as proof)."""
import itertools
import random
from pyvc.native import strings, token_strings


def _shuffled(items, seed):
    items = list(items)
    random.Random(seed).shuffle(items)
    return items


def ellipsis_pairs(tier, seed):
    wants = list(token_strings(['a', 'b', '...', ' ', 'ab', '\n'], 4 if tier == 'quick' else 5))
    gots = list(strings('ab ', 4)) + ['a\nb', 'ab\nab', 'aab', 'abab', 'ba ab']
    pairs = _shuffled(itertools.product(gots, wants), seed)
    for g, w in pairs:
        yield {'got': g, 'want': w}


def exc_messages(tier, seed):
    toks = ['a', 'B', '.', ':', '\n', ' ', 'x.y', 'E: m']
    for s in _shuffled(token_strings(toks, 4 if tier == 'quick' else 5), seed):
        yield {'msg': s}
